(* C18 -- connection ids are unique and log lines whole under concurrency.
   Property theorems only; every proof is `exact <lemma>` or a short composition.

   Model (Model/Logger.v): N threads, thread k performing counts[k] allocations, each allocation
   being the micro-instruction list that tools/repo2coq/gen_skel.go extracts from the body of
   logger.WithContext on every run (Gen_logger.logger_WithContext_skel); a SCHEDULE is an
   arbitrary list of thread indices (Lib/Sched.v); every returned id goes to one global log. *)
From Coq Require Import String.
From Verif Require Import Gen.Gen_logger.
From Verif Require Import Lib.Base Lib.Sx Lib.Sched Model.Logger Proofs.Logger.
Import List ListNotations.
Open Scope Z_scope.

(* GENERIC.  If one allocation is a single atomic read-modify-write of the counter whose RESULT
   is the id (alloc_safeb: the skeleton is [atomic_add; ret_reg]), or a plain load / store /
   read-back inside ONE region of the package mutex (lock_safeb: [lock; load; store_inc; ret_load;
   unlock] or [lock; load; store_inc; load; ret_reg; unlock]) -- decidable predicate alloc_okb --
   then for every initial counter value, every number of threads, every number of allocations per
   thread and EVERY schedule: all ids handed out so far are pairwise distinct, and each lies in
   (initial counter, current counter]. *)
Theorem c18_generic sk g0 counts sched :
  alloc_okb sk = true ->
  let s := arun (ainit sk g0 counts) sched in
  NoDup (ids s) /\ Forall (fun id => g0 < id <= ag s) (ids s).
Proof. exact (alloc_unique sk g0 counts sched). Qed.

(* THE CODE IN /repo.  The skeleton regenerated from logger/go17.go satisfies the predicate (by
   computation), hence the statement holds for the code as it is now.  A source change that
   breaks the discipline (plain `gCid += 1`, returning a second read of gCid, ...) makes this
   theorem fail to compile. *)
Theorem c18_repo g0 counts sched :
  let s := arun (ainit repo_skel g0 counts) sched in
  NoDup (ids s) /\ Forall (fun id => g0 < id <= ag s) (ids s).
Proof. apply c18_generic. vm_compute. reflexivity. Qed.

(* the hypothesis of c18_generic is satisfiable and the conclusion is about a real run:
   3 threads x 2 allocations under an interleaved schedule hand out 1000..1005 *)
Example c18_generic_nonvacuous :
  alloc_okb [IAtomicAdd; IRetReg] = true /\
  ids (arun (ainit [IAtomicAdd; IRetReg] 999 [2; 2; 2]%nat) [0; 1; 2; 2; 1; 0; 0; 1; 2; 2; 1; 0]%nat)
  = [1003; 1004; 1005; 1000; 1001; 1002].
Proof. vm_compute. auto. Qed.

(* THE PINNED SNAPSHOT (defect 22, fixed in /repo by the `fix:` commit).  WithContext was
   `gCid += 1; return ..gCid`, i.e. [load; store_inc; ret_load].  The predicate rejects it, and
   the bounded search find_cex computes a schedule of two threads x one allocation after which
   the same id has been returned twice. *)
Theorem c18_plain_refuted :
  alloc_okb old_skel = false /\
  exists sched, find_cex old_skel = Some sched /\
                ~ NoDup (ids (arun (ainit old_skel 999 [1; 1]%nat) sched)).
Proof.
  split; [reflexivity|]. exists [0; 0; 1; 1; 0; 1]%nat.
  assert (H : find_cex old_skel = Some [0; 0; 1; 1; 0; 1]%nat) by (vm_compute; reflexivity).
  split; [exact H|]. exact (find_cex_sound _ _ H).
Qed.

(* the textbook lost-update schedule L0 L1 S0 S1 R0 R1 is a witness too *)
Theorem c18_plain_refuted_lost_update :
  ~ NoDup (ids (arun (ainit old_skel 999 [1; 1]%nat) [0; 1; 0; 1; 0; 1]%nat)).
Proof. apply dup_after_sound. vm_compute. reflexivity. Qed.

(* An atomic add is not enough when the id is a LATER read of the counter: rejected by the
   predicate, and refuted by a computed schedule. *)
Theorem c18_reload_refuted :
  alloc_okb [IAtomicAdd; IRetLoad] = false /\
  exists sched, ~ NoDup (ids (arun (ainit [IAtomicAdd; IRetLoad] 999 [1; 1]%nat) sched)).
Proof.
  split; [reflexivity|]. exists [0; 1; 0; 1]%nat. apply dup_after_sound. vm_compute. reflexivity.
Qed.

(* the mutex form is accepted and runs: 2 threads x 2 allocations, interleaved; a thread that
   does not get the lock makes no progress on that step *)
Example c18_locked_nonvacuous :
  alloc_okb locked1 = true /\ alloc_okb locked2 = true /\
  ids (arun (ainit locked1 999 [2; 2]%nat) ([0; 1; 0; 1; 0; 0; 0; 1; 1; 1; 1; 1; 0; 0; 0; 0; 0; 1; 1; 1; 1; 1])%nat)
  = [1003; 1002; 1001; 1000].
Proof. vm_compute. auto. Qed.

(* ALIAS.  AliasContext(parent, source) has the recognised shape (computation on the generated
   skeleton); for a source that carries an id the result carries exactly that id and the counter
   is untouched; for a nil source or a source without id it is a fresh allocation. *)
Theorem c18_alias g cid src :
  alias_skel_ok = true /\
  alias_context repo_skel g (Some (Some cid)) = (g, Some cid) /\
  (src = None \/ src = Some None -> alias_context repo_skel g src = (g + 1, Some (g + 1))).
Proof.
  split; [vm_compute; reflexivity|]. split; [exact (alias_carries_source _ _ _)|].
  intros H. rewrite (alias_without_source _ _ _ H). reflexivity.
Qed.

(* NESTED CONTEXTS.  Contexts as chains, each level with or without an id, lookup = nearest id.
   WithContext over ANY parent chain (a parent that already carries an id, a WithCancel/WithValue
   derivation of it, ...) puts a level with the freshly allocated id on top -- never the
   parent's; a derivation without id shows the parent's id; AliasContext(parent, source) carries
   the source's id when the source chain has one and a FRESH id otherwise (nil source, or a source
   without id), whatever the parent carries. *)
Theorem c18_nested_fresh g parent :
  repo_skel = [IAtomicAdd; IRetReg] /\
  chain_id (snd (with_context_chain repo_skel g parent)) = Some (g + 1) /\
  chain_id (derive_chain parent) = chain_id parent.
Proof. split; [vm_compute; reflexivity|]. split; [reflexivity|exact (derive_chain_id parent)]. Qed.
Theorem c18_nested_alias g parent source :
  (forall sc cid, source = Some sc -> chain_id sc = Some cid ->
     alias_chain [IAtomicAdd; IRetReg] g parent source = (g, Some cid :: parent)) /\
  ((source = None \/ exists sc, source = Some sc /\ chain_id sc = None) ->
     chain_id (snd (alias_chain [IAtomicAdd; IRetReg] g parent source)) = Some (g + 1)).
Proof. exact (alias_chain_spec g parent source). Qed.

(* LINE FORMAT.  One logging call hands log.Logger one text; log.Logger (flags date|time|
   microseconds, prefix = level label regenerated from logger.go) performs ONE Write of
   label ++ timestamp ++ " " ++ text, with a newline appended iff the text does not end in one.
   [ts] is the 26-byte timestamp, [pid] the process id, [m] one message operand.
   Println-style functions: *)
Theorem c18_line_format_println lvl ts pid cid m :
  let L := label lvl ++ ts ++ [sp] in
  let P := br (dec pid) in let C := br (dec cid) in
  println_line lvl ts pid (CCtx (Some cid)) [m] = L ++ (P ++ C) ++ [sp] ++ m ++ [nl] /\
  println_line lvl ts pid (CObj cid) [m]        = L ++ (P ++ C ++ [sp]) ++ [sp] ++ m ++ [nl] /\
  println_line lvl ts pid CNil [m]              = L ++ (P ++ [sp]) ++ [sp] ++ m ++ [nl] /\
  println_line lvl ts pid (CCtx None) [m]       = L ++ m ++ [nl] /\
  println_line lvl ts pid COther [m]            = L ++ m ++ [nl].
Proof.
  intros L P C. unfold L, P, C. rewrite !println_line_spec. cbn [pre_println app join_sp].
  repeat split; repeat rewrite <- app_assoc; reflexivity.
Qed.

(* ... for any number of operands: the prefix operand (if any) and the operands, separated by
   single spaces, and one newline *)
Theorem c18_line_println_general lvl ts pid c args :
  println_line lvl ts pid c args =
  label lvl ++ ts ++ [sp] ++ join_sp (pre_println pid c ++ args) ++ [nl].
Proof. exact (println_line_spec lvl ts pid c args). Qed.

(* Printf-style functions, [m] = the expanded user message, not ending in a newline: *)
Theorem c18_line_format_printf lvl ts pid cid m :
  ends_nl m = false ->
  let L := label lvl ++ ts ++ [sp] in
  let P := br (dec pid) in let C := br (dec cid) in
  printf_line lvl ts pid (CCtx (Some cid)) m = L ++ (P ++ C ++ [sp]) ++ m ++ [nl] /\
  printf_line lvl ts pid (CObj cid) m        = L ++ (P ++ C ++ [sp]) ++ m ++ [nl] /\
  printf_line lvl ts pid CNil m              = L ++ (P ++ [sp]) ++ m ++ [nl] /\
  (m <> [] -> printf_line lvl ts pid (CCtx None) m = L ++ m ++ [nl]) /\
  (m <> [] -> printf_line lvl ts pid COther m      = L ++ m ++ [nl]).
Proof.
  intros Hm L P C. unfold L, P, C.
  repeat split; intros; rewrite printf_line_spec' by (try exact Hm; cbn [pre_printf app br]; try discriminate; auto);
    cbn [pre_printf app]; repeat rewrite <- app_assoc; reflexivity.
Qed.

(* the decimal rendering used for pid and cid ([dec], fmt's %v of an int): for a non-negative number
   only the digits '0'..'9', most significant first, denoting that number; a negative number is
   '-' followed by the rendering of its absolute value *)
Theorem c18_dec z : (0 <= z)%Z -> Forall is_digit (dec z) /\ fst (rval (dec z)) = Z.to_N z.
Proof. exact (dec_nonneg z). Qed.
Theorem c18_dec_neg p : dec (Zneg p) = 45%N :: dec (Zpos p).
Proof. exact (dec_neg p). Qed.

(* SHARED OPERANDS.  Callers may spread one operand slice (with spare capacity, reused, shared by
   goroutines) into many calls.  Formatting is a function of (context, operands) only and leaves the
   operands as they were: in every history of calls over the same operands, call k's line is
   call_line of its own level/function/context and those operands, and the operand list is
   unchanged afterwards. *)
Theorem c18_format_pure ts pid args cs :
  log_history ts pid args cs =
  (map (fun c => let '(lvl, fn, cx) := c in
                 call_line ts pid {| l_lvl := lvl; l_fn := fn; l_ctx := cx; l_args := args |}) cs, args).
Proof. exact (format_pure ts pid args cs). Qed.

(* THE CURRENT WRITER.  Switch(w) and Close() as steps (Model/Logger.v, wm_step: what each does to the
   levels exactly as logger.go does).  For every history of Switch / Close / logging operations:
   a logging call appends exactly its one line to the writer that is current at that time, or
   nothing when the package is closed or the level is Info (documented: discarded); Switch(w) makes
   w current whatever came before -- the same writer again, or the same writer after Close --
   and Close silences the package until the next Switch. *)
Theorem c18_log_goes_to_current ts pid st ops c :
  wm_writes ts pid st (ops ++ [MLog c]) =
  wm_writes ts pid st ops ++
  (if lvl_live (l_lvl c) then
     match w_cur (wm_state ts pid st ops) with Some w => [(w, call_line ts pid c)] | None => [] end
   else []).
Proof. exact (log_goes_to_current ts pid st ops c). Qed.
Theorem c18_switch_sets_current ts pid st ops w :
  w_cur (wm_state ts pid st (ops ++ [MSwitch w])) = Some w /\
  wm_writes ts pid st (ops ++ [MSwitch w]) = wm_writes ts pid st ops.
Proof. exact (switch_sets_current ts pid st ops w). Qed.
Theorem c18_close_silences ts pid st ops :
  w_cur (wm_state ts pid st (ops ++ [MClose])) = None /\
  wm_writes ts pid st (ops ++ [MClose]) = wm_writes ts pid st ops.
Proof. exact (close_silences ts pid st ops). Qed.

(* the labels are the four of logger.go *)
Example c18_labels :
  label 0 = bstr "[info] " /\ label 1 = bstr "[trace] " /\ label 2 = bstr "[warn] " /\ label 3 = bstr "[error] ".
Proof. vm_compute. auto. Qed.

(* WHOLE LINES UNDER EVERY SCHEDULE.  Threads issue logging calls; each call is one Write on the
   shared writer (assumption: log.Logger serialises formatting+Write, the writer serialises
   Writes).  For every program, thread and schedule: what thread i has written so far followed
   by the lines of its remaining calls is exactly the line sequence of its program -- every
   Write is one whole line of exactly one call, in program order, none lost, none repeated. *)
Theorem c18_lines_whole ts pid progs sched i :
  let s := lrun ts pid {| lths := progs; lwrites := [] |} sched in
  written_by i (rev (lwrites s)) ++ map (call_line ts pid) (prog_of (lths s) i)
  = map (call_line ts pid) (prog_of progs i).
Proof. exact (lines_whole ts pid progs sched i). Qed.

Theorem c18_every_write_is_a_line ts pid progs sched t w :
  let s := lrun ts pid {| lths := progs; lwrites := [] |} sched in
  In (t, w) (lwrites s) -> exists c, In c (prog_of progs t) /\ w = call_line ts pid c.
Proof. exact (every_write_is_a_line ts pid progs sched t w). Qed.

Print Assumptions c18_generic.
Print Assumptions c18_repo.
Print Assumptions c18_plain_refuted.
Print Assumptions c18_plain_refuted_lost_update.
Print Assumptions c18_reload_refuted.
Print Assumptions c18_alias.
Print Assumptions c18_line_format_println.
Print Assumptions c18_line_println_general.
Print Assumptions c18_line_format_printf.
Print Assumptions c18_dec.
Print Assumptions c18_nested_fresh.
Print Assumptions c18_nested_alias.
Print Assumptions c18_format_pure.
Print Assumptions c18_log_goes_to_current.
Print Assumptions c18_switch_sets_current.
Print Assumptions c18_close_silences.
Print Assumptions c18_lines_whole.
Print Assumptions c18_every_write_is_a_line.
