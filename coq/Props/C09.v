(* C09 -- placeholder while the pipeline is brought up *)
From Verif Require Import Lib.Base Lib.Sx Model.Flv.
Open Scope N_scope.
Theorem c09_smoke : mux true true [] = flv_v1_spec true true [].
Proof. reflexivity. Qed.
Print Assumptions c09_smoke.
