(* C09 -- FLV files written are read back identically and follow the FLV layout.
   Property theorems only; every proof is `exact <lemma>` or a short composition.

   Vocabulary (Model/Flv.v): a [stream] is the io.Reader given to the demuxer, a list of
   segments [Data bytes] / [Fault e]; [flat s = (d, t)] are the bytes it delivers and how it
   ends (eEOF = io.EOF, or the fault).  [demux fuel s] is ReadHeader followed by the
   ReadTagHeader/ReadTag loop until the first error; it yields the header (version, hasVideo,
   hasAudio), the tags (type, timestamp, body) and (which call failed, its error).
   [mux hv ha tags] are the bytes WriteHeader + WriteTag... hand to the io.Writer.
   [wf_tag t]: type < 2^8, timestamp < 2^32 (the Go parameter types) and body < 2^24 bytes. *)
From Verif Require Import Lib.Base Lib.Sx Model.Flv Proofs.Flv Proofs.FlvTotal.
Open Scope N_scope.

(* Round trip: any header flags, any list of tags, any reader segmentation and either way of
   ending (EOF or an I/O fault behind the last byte): the demuxer returns version 1, the
   flags, and exactly the tags written, in order, and its loop stops in ReadTagHeader with
   the stream's end.  (fuel only bounds the model's loop; any value above the tag count.) *)
Theorem c09_roundtrip hv ha tags fuel s tm :
  Forall wf_tag tags -> (length tags < fuel)%nat ->
  flat s = (mux hv ha tags, tm) ->
  demux fuel s = Ok ((1, hv, ha), tags, (0, tm)).
Proof. exact (demux_mux hv ha tags fuel s tm). Qed.

(* ... and the tags are read back also when more data follows them: the loop state after the
   written tags is the one of a reader positioned at the trailing bytes *)
Theorem c09_roundtrip_trailing tags fuel s acc rest tm :
  Forall wf_tag tags -> flat s = (concat (map tag_bytes tags) ++ rest, tm) ->
  exists s', flat s' = (rest, tm) /\
    read_tags (length tags + fuel) s acc = read_tags fuel s' (rev tags ++ acc).
Proof. exact (read_tags_mux tags fuel s acc rest tm). Qed.

(* Layout: the bytes written are exactly the FLV version 1 layout produced by the independent
   writer [flv_v1_spec] (signature "FLV", version 1, flags, DataOffset 9, PreviousTagSize0 0;
   per tag: type, 24-bit size, 24+8-bit timestamp, StreamID 0, body, PreviousTagSize 11+size) *)
Theorem c09_layout hv ha tags : Forall wf_tag tags -> mux hv ha tags = flv_v1_spec hv ha tags.
Proof. exact (mux_is_spec hv ha tags). Qed.

(* Files produced by the independent writer are demuxed to the same tags *)
Theorem c09_spec_read hv ha tags fuel s tm :
  Forall wf_tag tags -> (length tags < fuel)%nat ->
  flat s = (flv_v1_spec hv ha tags, tm) ->
  demux fuel s = Ok ((1, hv, ha), tags, (0, tm)).
Proof. exact (demux_spec hv ha tags fuel s tm). Qed.

(* Segmentation independence for EVERY input (not only well-formed files): two readers that
   deliver the same bytes and end the same way give the same demuxer result *)
Theorem c09_segmentation fuel s1 s2 : flat s1 = flat s2 -> demux fuel s1 = demux fuel s2.
Proof. exact (demux_seg fuel s1 s2). Qed.

(* The readers the harness builds (wire cut into segments whose sizes cycle through any list
   of sizes -- 1-byte reads included --, ending with EOF or an injected fault) deliver exactly
   the wire, so the round trip holds for each of them *)
Theorem c09_harness_reader wire sizes cut fault : (cut < 0)%Z ->
  flat (mk_stream wire sizes cut fault) = (wire, if (fault <? 0)%Z then eEOF else 10 + Z.to_N fault).
Proof. exact (mk_stream_flat wire sizes cut fault). Qed.

Theorem c09_roundtrip_harness hv ha tags sizes fault :
  Forall wf_tag tags ->
  demux (S (length tags)) (mk_stream (mux hv ha tags) sizes (-1) fault) =
  Ok ((1, hv, ha), tags, (0, if (fault <? 0)%Z then eEOF else 10 + Z.to_N fault)).
Proof. exact (demux_mux_harness hv ha tags sizes fault). Qed.

(* Truncated files (the first c bytes of a written file, then EOF or a fault): fewer than the
   13 header bytes -> ReadHeader fails with the stream's end; otherwise the header and a
   prefix of the written tags are returned, never a tag that was not written or an altered one *)
Theorem c09_truncated_prefix hv ha tags c fuel s tm :
  Forall wf_tag tags -> (length tags < fuel)%nat ->
  flat s = (firstn c (mux hv ha tags), tm) ->
  ((c < 13)%nat -> demux fuel s = Err tm) /\
  ((13 <= c)%nat -> exists k w, demux fuel s = Ok ((1, hv, ha), firstn k tags, (w, tm))).
Proof. exact (demux_truncated hv ha tags c fuel s tm). Qed.

(* why the body bound is 2^24: the tag header's size field holds the length modulo 2^24 *)
Theorem c09_size_field_mod t : t_type t < 256 -> t_ts t < 4294967296 -> lenN (t_body t) < 4294967296 ->
  parse_tag_header (mux_tag_header t) = Ok (t_type t, lenN (t_body t) mod 16777216, t_ts t).
Proof. exact (parse_mux_tag_header_any t). Qed.

(* A one-tag file is header ++ 11 bytes ++ body ++ 4 bytes where the 11 and the 4 bytes are
   functions of (type, timestamp, body LENGTH) only: this is what the harness's large-body
   cases (bodies up to 2^24-1, the window where PreviousTagSize = 11 + size needs its fourth
   byte) observe from the model; the body bytes themselves are compared in the harness *)
Theorem c09_frame_by_length hv ha t :
  mux hv ha [t] = mux_header hv ha ++ mux_tag_header_n (t_type t) (t_ts t) (lenN (t_body t))
                  ++ t_body t ++ mux_tag_trailer_n (lenN (t_body t)).
Proof. exact (mux_single hv ha t). Qed.

(* Histories on one Muxer: as a state machine whose state is the list of Write calls issued,
   the muxer issues exactly [mux_writes], and what earlier WriteTag calls wrote is a prefix of
   the final state -- later calls cannot change it.  (Values are persistent in the model; it is
   the end-of-history correspondence run, with the caller reusing and scribbling over its tag
   buffer after every call, that carries "the implementation does not alias".) *)
Theorem c09_write_history hv ha tags :
  fold_left write_tag tags (write_header [] hv ha) = mux_writes hv ha tags.
Proof. exact (write_history_mux hv ha tags). Qed.

Theorem c09_write_history_prefix tags1 tags2 st :
  fold_left write_tag (tags1 ++ tags2) st
  = fold_left write_tag tags1 st ++ concat (map mux_tag_writes tags2).
Proof. exact (write_history_prefix tags1 tags2 st). Qed.

(* Histories on one Demuxer: the tags already read are kept unchanged in every later result *)
Theorem c09_read_history_prefix fuel s acc r e :
  read_tags fuel s acc = Ok (r, e) -> exists l, r = rev acc ++ l.
Proof. exact (read_tags_acc_prefix fuel s acc r e). Qed.

(* the muxer writes bytes *)
Theorem c09_mux_bytes hv ha tags :
  Forall (fun t => wf_bytes (t_body t)) tags -> wf_bytes (mux hv ha tags).
Proof. exact (mux_wf hv ha tags). Qed.

(* No panic on any input: every stream delivering bytes, every fuel *)
Theorem flv_demux_total fuel s x : wf_stream s -> demux fuel s <> Panic x.
Proof. exact (demux_total fuel s x). Qed.

(* ... the loop returns: fuel above the number of delivered bytes is never exhausted *)
Theorem c09_demux_returns fuel s acc e :
  (length (fst (flat s)) < fuel)%nat -> read_tags fuel s acc <> Err e.
Proof. exact (read_tags_fuel fuel s acc e). Qed.

(* ReadTag(n) alone: no panic while n + 4 fits a uint32 ... *)
Theorem c09_readtag_total n s x : n + 4 < 4294967296 -> read_tag n s <> Panic x.
Proof. exact (read_tag_total n s x). Qed.

(* ... for n >= 2^32-4 the uint32 addition tagSize+4 wraps to 0..3: with that many bytes
   available the slice p[0:len(p)-4] panics, otherwise the stream's error is returned ... *)
Theorem c09_readtag_wrap n s d t : 4294967292 <= n < 4294967296 -> flat s = (d, t) ->
  (u32 (n + 4) <= lenN d -> read_tag n s = Panic 12) /\
  (lenN d < u32 (n + 4) -> read_tag n s = Err t).
Proof. exact (read_tag_wrap n s d t). Qed.

(* ... and ReadTagHeader never returns such a size: it is below 2^24 *)
Theorem c09_header_size_24bit s ty sz ts s' : wf_stream s ->
  read_tag_header s = Ok ((ty, sz, ts), s') -> sz < 16777216 /\ wf_stream s'.
Proof. exact (read_tag_header_size s ty sz ts s'). Qed.

(* non-vacuity: a two-tag file with a timestamp above 2^24 and an empty body, read in
   segments of different sizes, the second reader ending with a fault *)
Example c09_roundtrip_example :
  let tags := [mk_tag 9 4294967295 [1; 2; 3]; mk_tag 8 16777216 []] in
  Forall wf_tag tags /\
  demux 3 (mk_stream (mux true false tags) [1] (-1) (-1)) = Ok ((1, true, false), tags, (0, eEOF)) /\
  demux 3 (mk_stream (mux true false tags) [7; 2] (-1) 0) = Ok ((1, true, false), tags, (0, 10)).
Proof.
  cbv zeta. split; [|split; vm_compute; reflexivity].
  repeat constructor; vm_compute; reflexivity.
Qed.

Example c09_readtag_wrap_example :
  read_tag 4294967295 [Data [1; 2; 3; 4]] = Panic 12 /\ read_tag 4294967291 [Data [1; 2; 3; 4]] = Err eEOF.
Proof. split; vm_compute; reflexivity. Qed.

Print Assumptions c09_roundtrip.
Print Assumptions c09_roundtrip_trailing.
Print Assumptions c09_layout.
Print Assumptions c09_spec_read.
Print Assumptions c09_segmentation.
Print Assumptions c09_harness_reader.
Print Assumptions c09_roundtrip_harness.
Print Assumptions c09_truncated_prefix.
Print Assumptions c09_size_field_mod.
Print Assumptions c09_frame_by_length.
Print Assumptions c09_write_history.
Print Assumptions c09_write_history_prefix.
Print Assumptions c09_read_history_prefix.
Print Assumptions c09_mux_bytes.
Print Assumptions flv_demux_total.
Print Assumptions c09_demux_returns.
Print Assumptions c09_readtag_total.
Print Assumptions c09_readtag_wrap.
Print Assumptions c09_header_size_24bit.
Print Assumptions c09_roundtrip_example.
Print Assumptions c09_readtag_wrap_example.
