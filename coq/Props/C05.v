(* C05 -- AMF0 values round-trip and report their exact encoded size. *)
From Verif Require Import Lib.Base Lib.Sx Model.Amf0 Proofs.Amf0.
Open Scope N_scope.

Theorem c05_dupkey_witness :
  decode [3; 0;1;97; 5; 0;1;97; 5; 0;0;9] = Ok (AObj [([97], ANull); ([97], ANull)], 12).
Proof. exact dupkey_witness. Qed.

Print Assumptions c05_dupkey_witness.
