(* C05 -- AMF0 values round-trip and report their exact encoded size.
   Property theorems only; proofs are in Proofs/Amf0.v.  Model: Model/Amf0.v (amf0/amf0.go after
   the three fix commits recorded in known_findings.txt).

   Vocabulary: [enc] = MarshalBinary, [size] = Size(), [dec fuel p] = Discovery(p) followed by
   UnmarshalBinary(p), returning the value and its Size(); [decode p] = dec with the fuel
   length p + 1, which always suffices (c05_fuel).  [wf_amf v]: v is representable -- number bit
   patterns < 2^64, strings and keys <= 65535 bytes, ECMA count < 2^32, strict length < 2^32.
   Trees are arbitrary otherwise: any nesting, any key order, repeated and empty keys. *)
From Verif Require Import Lib.Base Lib.Sx Model.Amf0 Proofs.Amf0 Proofs.Amf0Fast Proofs.Amf0Hist Proofs.Amf0Recv.
Open Scope N_scope.

(* 1. Marshalling yields exactly Size() bytes (every tree, no side condition). *)
Theorem c05_size_enc v : lenN (enc v) = size v.
Proof. exact (amf0_size_enc v). Qed.

(* 2. Unmarshalling those bytes -- whatever follows them -- yields the same tree, keys in the
   original order, numbers bit-exact for all 2^64 patterns (NaN payloads, infinities, -0 are
   patterns like any other); the size reported is Size(). *)
Theorem c05_dec_enc v rest : wf_amf v -> decode (enc v ++ rest) = Ok (v, size v).
Proof.
  intros Hwf. unfold decode, dec_fuel. apply amf0_dec_enc; [exact Hwf|].
  rewrite app_length. lia.
Qed.

Theorem c05_dec_enc_fuel v rest fuel :
  wf_amf v -> (length (enc v) < fuel)%nat -> dec fuel (enc v ++ rest) = Ok (v, size v).
Proof. exact (amf0_dec_enc v rest fuel). Qed.

Theorem c05_number_bit_exact b rest : b < 2 ^ 64 -> decode (enc (ANum b) ++ rest) = Ok (ANum b, 9).
Proof. intros Hb. apply (c05_dec_enc (ANum b)). unfold wf_amf. cbn [wf_amfb]. change (2 ^ 64) with 18446744073709551616 in Hb. lia. Qed.

(* 3. Re-marshalling: whatever decodes (from any byte string) re-marshals to Size() bytes that
   decode to the same value, and marshal . decode . marshal = marshal. *)
Theorem c05_reenc fuel p v n : wf_bytes p -> dec fuel p = Ok (v, n) ->
  decode (enc v) = Ok (v, n) /\
  (forall v' n', decode (enc v) = Ok (v', n') -> enc v' = enc v) /\
  lenN (enc v) = n.
Proof. exact (amf0_reenc fuel p v n). Qed.

(* 4. For every byte string that decodes, Size() afterwards is the number of bytes consumed: the
   input splits as w ++ rest with |w| = Size(); the result does not depend on rest (a caller that
   advances by Size() is aligned on the next value); and no proper prefix of w decodes at all
   (so |w| is the least decodable prefix length, which is what the harness measures). *)
Theorem c05_consumed fuel p v n : dec fuel p = Ok (v, n) ->
  exists w rest, p = w ++ rest /\ lenN w = n /\ n = size v /\
    (forall rest' fuel', (length w < fuel')%nat -> dec fuel' (w ++ rest') = Ok (v, n)) /\
    (forall k fuel' x, (k < length w)%nat -> dec fuel' (firstn k p) <> Ok x).
Proof. exact (amf0_dec_exact fuel p v n). Qed.

(* The former witness of defect #8 (key "a" twice): 12 bytes consumed, Size() = 12 (was 8). *)
Theorem c05_consumed_dupkey_witness :
  decode [3; 0;1;97; 5; 0;1;97; 5; 0;0;9] = Ok (AObj [([97], ANull); ([97], ANull)], 12).
Proof. vm_compute. reflexivity. Qed.

(* 5. Strict arrays (former defect #9): the count on the wire is the number of elements, and a
   strict array with any elements round-trips inside any container. *)
Theorem c05_strict_count ps rest : wf_amf (AStrict ps) ->
  enc (AStrict ps) = mStrictArray :: be4 (plen ps) ++ enc_props ps /\
  decode (enc (AStrict ps) ++ rest) = Ok (AStrict ps, size (AStrict ps)).
Proof.
  intros Hwf. split; [|apply c05_dec_enc; exact Hwf].
  rewrite enc_strict. unfold wf_amf in Hwf. rewrite wf_strict in Hwf.
  apply andb_true_iff in Hwf. destruct Hwf as [Hc _]. unfold u32.
  replace (plen ps mod 4294967296) with (plen ps) by lia. reflexivity.
Qed.

(* 6. The decoder never panics (the slice p[a.Size():] is always in range) and always returns:
   fuel length p + 1 suffices, more fuel never changes the result. *)
Theorem c05_total fuel p : wf_bytes p -> forall s, dec fuel p <> Panic s.
Proof. exact (amf0_dec_total fuel p). Qed.

Theorem c05_fuel fuel p : (length p < fuel)%nat -> dec fuel p <> Err E_FUEL /\ dec fuel p = decode p.
Proof. intros H. split; [apply amf0_dec_fuel; exact H|apply amf0_decode_fuel; exact H]. Qed.

(* The encoder produces bytes, and decoded values are representable (so 3. applies to them). *)
Theorem c05_enc_bytes v : wf_amf v -> wf_bytes (enc v).
Proof. exact (amf0_enc_wf_bytes v). Qed.

Theorem c05_dec_wf fuel p v n : wf_bytes p -> dec fuel p = Ok (v, n) -> wf_amf v.
Proof. exact (amf0_dec_wf fuel p v n). Qed.

(* 7. Trees built through the public API: Set(key, value) keeps the key list when the key exists
   (the value is replaced in place) and appends the key otherwise, so keys are unique and stay in
   first-set order, Get returns the value set last, other keys are untouched.  (1.-4. hold for
   all trees, API-built or decoded, so no uniqueness hypothesis is needed there.) *)
Theorem c05_set_keys ps k v :
  map fst (set_prop ps k v) = (if has_key ps k then map fst ps else map fst ps ++ [k]) /\
  get_prop (set_prop ps k v) k = Some v /\
  (forall k', k' <> k -> get_prop (set_prop ps k v) k' = get_prop ps k').
Proof.
  split; [apply set_prop_keys|]. split; [apply get_set_same|]. intros k' H. apply get_set_other. exact H.
Qed.

Theorem c05_api_built_unique ops : NoDup (map fst (build_props ops)).
Proof. exact (build_props_nodup ops). Qed.

(* 8. The function the harness executes (extracted [decode_fast], linear time: it threads the
   remaining input instead of re-walking Size() bytes; [enc_fast] appends into an accumulator) is the function the theorems are about. *)
Theorem c05_model_fast p v : decode_fast p = decode p /\ enc_fast v = enc v.
Proof. split; [exact (decf_eq p)|exact (enc_fast_eq v)]. Qed.

(* 9. Histories on ONE value.  The Go objects keep an element count beside the property list
   (EcmaArray.count, StrictArray.count); [gval] is the object graph with those fields, [h_run g0 ops]
   the graph after a sequence of API calls (new container, Set on the container at a path,
   MarshalBinary of the object at a path, typed UnmarshalBinary into a fresh container, Get,
   and UnmarshalBinary ON the object at a path, which keeps whatever the call leaves in the object,
   ALSO WHEN THE CALL IS REJECTED: see 11.).
   Invariant over ALL sequences (induction over the op list): the graph stays well formed ... *)
Theorem c05_history_invariant ops g :
  gwfc g = true -> forallb op_wf ops = true -> gwfc (h_run g ops) = true.
Proof. intros Hg Hops. exact (h_run_wfc ops g Hg Hops). Qed.

(* ... and therefore, after ANY sequence, for EVERY object of the graph (top level or nested,
   whatever its stored count is at that moment; fewer than 2^32 properties per container):
   MarshalBinary yields exactly enc of the current value -- Size() bytes, a strict array's wire
   count = its number of properties --, the bytes followed by anything decode to the current
   property lists in order with Size() = bytes consumed, marshalling leaves the value unchanged
   and every strict count in sync, and marshalling again reproduces the bytes. *)
Theorem c05_history ops path sub :
  forallb op_wf ops = true ->
  g_at path (h_run g0 ops) = Some sub -> gsmall sub = true ->
  let b := fst (g_marshal sub) in
  let sub' := snd (g_marshal sub) in
  b = enc (g_view sub) /\
  lenN b = size (g_view sub) /\
  (forall rest, decode (b ++ rest) = Ok (g_view sub, size (g_view sub))) /\
  (forall c ps, sub = GCont mStrictArray c ps ->
     b = mStrictArray :: be4 (gplen ps) ++ enc_props (g_view_props ps)) /\
  g_view sub' = g_view sub /\ gsynced sub' = true /\ fst (g_marshal sub') = b.
Proof. exact (history_marshal ops path sub). Qed.

(* Set on an object of the graph is objectBase.Set on the current value (7. applies), and a
   freshly unmarshalled value enters the graph unchanged. *)
Theorem c05_history_set k c ps key x :
  g_view (GCont k c (gset_prop ps key x)) = mk_cont k c (set_prop (g_view_props ps) key (g_view x)).
Proof. exact (history_set k c ps key x). Qed.

Theorem c05_history_unmarshal k b v n : wf_bytes b -> um_kind k b = Ok (v, n) ->
  g_view (g_of_amf true v) = v /\ gwfc (g_of_amf true v) = true.
Proof. exact (history_unmarshal k b v n). Qed.

(* non-vacuity: StrictArray: Set, Marshal, Set a new key (a nested StrictArray, then Set inside
   it), Set replacing a key, Marshal again: counts 2 and 1 on the wire and in the objects *)
Example c05_history_nonvacuous :
  let ops := [HNew mStrictArray; HSet [] [97] (GLeaf ANull); HMarshal [];
              HSet [] [98] (GCont mStrictArray 0 []); HSet [[98]] [120] (GLeaf (ABool true));
              HSet [] [97] (GLeaf AUndef); HMarshal []] in
  forallb op_wf ops = true /\
  fst (g_marshal (h_run g0 ops)) =
    [10; 0;0;0;2; 0;1;97; 6; 0;1;98; 10; 0;0;0;1; 0;1;120; 1;1] /\
  h_run g0 ops = GCont mStrictArray 2 [([97], GLeaf AUndef); ([98], GCont mStrictArray 1 [([120], GLeaf (ABool true))])].
Proof. exact history_example. Qed.

(* 10. Receivers that ALREADY HOLD a value ([um_into old fuel p]: the UnmarshalBinary method of
   old's type called on a value currently equal to old -- a scratch value reused between messages,
   a value fetched with Get and updated in place, a defaulted field such as the "live" StreamType
   of rtmp.NewPublishPacket).  The result never depends on what the receiver held: scalars are
   overwritten, containers REPLACED (fix 8324535; they used to append) ... *)
Theorem c05_unmarshal_overwrites old old' fuel p :
  akind old = akind old' -> um_into old fuel p = um_into old' fuel p.
Proof. exact (unmarshal_overwrites old old' fuel p). Qed.

(* ... it is exactly what Discovery + UnmarshalBinary on a fresh value yields (so 3., 4. apply) ... *)
Theorem c05_unmarshal_as_fresh old fuel p v n :
  um_into old fuel p = Ok (v, n) -> dec (S fuel) p = Ok (v, n).
Proof. exact (um_into_dec old fuel p v n). Qed.

(* ... and Size() = bytes consumed for EVERY old value: the input splits as w ++ rest with
   |w| = n = Size(), the new value has the receiver's type, and w decodes to it into any
   receiver of that type whatever follows. *)
Theorem c05_unmarshal_consumed old fuel p v n : um_into old fuel p = Ok (v, n) ->
  akind v = akind old /\ n = size v /\
  exists w rest, p = w ++ rest /\ lenN w = n /\
    (forall old' rest' fuel', akind old' = akind old -> (length w <= fuel')%nat ->
       um_into old' fuel' (w ++ rest') = Ok (v, n)).
Proof. exact (um_into_consumed old fuel p v n). Qed.

(* A stream of k values of one type decoded into ONE receiver, advancing by Size(), yields
   every value in order and ends exactly at the end of the input, whatever the receiver held. *)
Theorem c05_stream_aligned vs old n :
  Forall (fun v => wf_amf v /\ akind v = akind old) vs -> (length vs < n)%nat ->
  um_stream n old (concat (map enc vs)) = (map (fun v => (v, size v)) vs, 0).
Proof. exact (stream_aligned vs old n). Qed.

(* witnesses: before the fix (appending) Size() was 8 after a 4-byte object and a strict array
   holding two elements read none of the two on the wire; now both are replaced.  And the String
   "live" receiving 02 00 00 becomes the empty string of size 3. *)
Theorem c05_unmarshal_append_witness :
  um_cont_from mObject [([97], ANull)] 9 [3; 0;0;9] = Ok (AObj [([97], ANull)], 8) /\
  um_cont_from mStrictArray [([97], ANull); ([98], ANull)] 20 [10; 0;0;0;2; 0;1;120;5; 0;1;121;6]
    = Ok (AStrict [([97], ANull); ([98], ANull)], 13) /\
  um_into (AObj [([97], ANull)]) 9 [3; 0;0;9] = Ok (AObj [], 4) /\
  um_into (AStrict [([97], ANull); ([98], ANull)]) 20 [10; 0;0;0;2; 0;1;120;5; 0;1;121;6]
    = Ok (AStrict [([120], ANull); ([121], AUndef)], 13).
Proof. exact unmarshal_append_refuted. Qed.

Example c05_unmarshal_live_then_empty :
  um_into (AStr [108; 105; 118; 101]) 5 [2; 0; 0] = Ok (AStr [], 3).
Proof. exact unmarshal_live_then_empty. Qed.

(* 11. Use of a receiver after a FAILED UnmarshalBinary.  [g_unmarshal g fuel p] returns the
   receiver's state together with the result, at every exit of the code: scalars are untouched
   by a rejected call; a container whose header is rejected (too short, wrong marker) is
   untouched; otherwise the header count has been stored, the old properties dropped, and the
   pairs completed before the rejection point (name cut short, unsupported or invalid marker,
   a value's own decoder failing, end marker missing) stay -- so a StrictArray can hold count 4
   with one element.  Whatever is rejected, the state left behind is well formed, hence
   c05_history_invariant and c05_history cover every history that contains rejected decodes:
   marshalling afterwards (after more Sets, inside a parent) writes count = number of properties
   and the bytes decode back to the current property lists. *)
Theorem c05_decode_into_state_wf g fuel p :
  gwfc g = true -> wf_bytes p -> gwfc (fst (g_unmarshal g fuel p)) = true.
Proof. exact (g_unmarshal_wfc g fuel p). Qed.

(* a successful UnmarshalBinary on any object of the graph -- whatever it held, including the state
   left by an earlier rejected call -- gives it exactly the value a fresh decode yields *)
Theorem c05_decode_into_ok g fuel p g' n : gwfc g = true ->
  g_unmarshal g fuel p = (g', Ok n) -> dec (S fuel) p = Ok (g_view g', n).
Proof. exact (decode_into_ok g fuel p g' n). Qed.

(* witness of the error state and of its use: header count 4, one complete element, the second cut:
   rejected, receiver = count 4 + 1 element; two Sets later 3 elements and still count 4 in the
   object; MarshalBinary of the PARENT writes 3 *)
Example c05_history_error_state :
  let bad := [10; 0;0;0;4; 0;1;120; 5; 0;1;121; 2;0] in
  let ops := [HNew mObject; HSet [] [115] (GCont mStrictArray 0 []); HSet [] [122] (GLeaf (ABool true));
              HDecodeInto [[115]] bad] in
  let g := h_run g0 ops in
  forallb op_wf ops = true /\
  snd (g_unmarshal (GCont mStrictArray 0 []) (dec_fuel bad) bad) = Err E_SHORT /\
  g_at [[115]] g = Some (GCont mStrictArray 4 [([120], GLeaf ANull)]) /\
  let g2 := h_run g [HSet [[115]] [98] (GLeaf AUndef); HSet [[115]] [99] (GLeaf ANull)] in
  g_at [[115]] g2 = Some (GCont mStrictArray 4 [([120], GLeaf ANull); ([98], GLeaf AUndef); ([99], GLeaf ANull)]) /\
  fst (g_marshal g2) =
    [3; 0;1;115; 10; 0;0;0;3; 0;1;120; 5; 0;1;98; 6; 0;1;99; 5; 0;1;122; 1;1; 0;0;9].
Proof. exact history_error_state. Qed.

(* non-vacuity: a representable tree with nesting, a repeated key, an empty key, a signalling NaN,
   -0, an ECMA array with a foreign count and a strict array with elements *)
Example c05_nonvacuous :
  let v := AObj [([97], AEcma 7 [([], ANum 9218868437227405313); ([98], AStrict [([99], ANum 9223372036854775808); ([99], ABool true)])]);
                 ([97], AStr [0; 0; 9]); ([], AUndef)] in
  wf_amf v /\ decode (enc v ++ [9; 9]) = Ok (v, size v) /\ size v = 63.
Proof. vm_compute. repeat split; reflexivity. Qed.

Print Assumptions c05_size_enc.
Print Assumptions c05_dec_enc.
Print Assumptions c05_dec_enc_fuel.
Print Assumptions c05_number_bit_exact.
Print Assumptions c05_reenc.
Print Assumptions c05_consumed.
Print Assumptions c05_consumed_dupkey_witness.
Print Assumptions c05_strict_count.
Print Assumptions c05_total.
Print Assumptions c05_fuel.
Print Assumptions c05_enc_bytes.
Print Assumptions c05_dec_wf.
Print Assumptions c05_set_keys.
Print Assumptions c05_api_built_unique.
Print Assumptions c05_model_fast.
Print Assumptions c05_history_invariant.
Print Assumptions c05_history.
Print Assumptions c05_history_set.
Print Assumptions c05_history_unmarshal.
Print Assumptions c05_unmarshal_overwrites.
Print Assumptions c05_unmarshal_as_fresh.
Print Assumptions c05_unmarshal_consumed.
Print Assumptions c05_stream_aligned.
Print Assumptions c05_unmarshal_append_witness.
Print Assumptions c05_decode_into_state_wf.
Print Assumptions c05_decode_into_ok.
