(* C14 -- the WebSocket reader enforces RFC 6455 framing rules and the read limit.

   lib_session fixed server limit extra bs  (Model/WsRead.v, first half) is the library: a Conn made by
     newConn(isServer = server) + SetReadLimit(limit) whose transport delivers the bytes bs and then
     EOF; the application calls ReadMessage until the first error and then [extra] more times.
     Result: the values returned (RMsg type payload / RErr error) and the control frames written.
   rfc_receive server limit bs  (second half, written from RFC 6455, shares no code with the
     first) is the receiver of the RFC: the events (messages delivered, Pongs sent) up to the
     first rule violation / Close / oversized message / end of stream, and that outcome.
   fixed = true is the code after the two fix: commits (2c92c1f, 02df1eb); fixed = false the pinned
   snapshot, for which c14_len63_refuted / c14_limit_refuted hold.

   Deliberately NOT enforced by rfc_receive, as by the library (the property does not list them):
   (a) a 1-byte Close body is treated as "no status"; (b) UTF-8 validity of Text messages;
   (c) RSV1 with permessage-deflate (C14 is stated for compression not negotiated);
   (d) minimal length encoding on DATA frames (5.2) -- on control frames an extended length form is
   rejected, being either oversized or non-minimal.  Close codes: valid = 1000-1003, 1007-1013,
   3000-4999 (RFC 7.4.1/7.4.2 plus the two IANA registrations the library's table cites). *)
From Verif Require Import Lib.Base Lib.Sx Lib.Utf8 Model.WsRead.
From Verif Require Import Proofs.WsReadUtf8 Proofs.WsRead Proofs.WsReadRefine Proofs.WsReadProps Proofs.WsReadCut Proofs.WsReadFrames Proofs.WsReadApp Proofs.WsReadPartial Proofs.WsReadNeg.
From Verif Require Import Gen.Gen_websocket.
Open Scope Z_scope.

(* For EVERY byte stream (every frame sequence in every length form -- 64-bit lengths with the top
   bit set included --, every payload, every cut offset, garbage), both roles, every limit that
   fits int64: the library returns exactly the messages the RFC receiver delivers, in order, then
   fails, and every further call (up to the deliberate panic, c14_repeat_panic) returns the same
   error; it writes exactly one Pong per Ping with the same payload, then the Close frame the
   outcome calls for ([agrees]: violation -> 1002, too big -> 1009, peer Close -> echo of its code,
   end of stream -> nothing) and nothing else.
   [agrees] allows one latitude: when the stream ends INSIDE a frame header whose first bytes
   already break a rule the library may answer 1002 instead of unexpected-EOF. *)
Theorem c14_refines_rfc server limit extra bs :
  wf_bytes bs -> limit < 9223372036854775808 -> (extra < 999)%nat ->
  exists e closefr,
    agrees (snd (rfc_receive server limit bs)) e closefr /\
    lib_session true server limit extra bs =
      Ok (msgs_of (fst (rfc_receive server limit bs)) ++ repeat (RErr e) (S extra),
          pongs_of (fst (rfc_receive server limit bs)) ++ closefr) /\
    (length closefr <= 1)%nat.
Proof. exact (lib_refines_rfc server limit extra bs). Qed.

(* Go's utf8.ValidString, used for the Close reason, accepts exactly the RFC 3629 strings
   (no surrogates, no overlong forms, nothing above U+10FFFF). *)
Theorem c14_utf8 s : wf_bytes s -> utf8_valid s = utf8_spec s.
Proof. exact (utf8_valid_spec s). Qed.

(* the library's close-code table (regenerated from conn.go) is the RFC's *)
Theorem c14_close_codes code : is_valid_received_close_code (Z.of_N code) = rfc_close_code_ok code.
Proof. exact (close_code_table code). Qed.

(* A 64-bit length with the top bit set is never accepted as a frame -- from every reader state
   that is at a frame boundary (any role, limit, flags, history). *)
Theorem c14_top_bit_rejected c p0 p1 l r :
  c_rem c <= 0 -> c_in c = p0 :: p1 :: l ++ r -> wf_byte p0 -> wf_byte p1 -> wf_bytes l -> wf_bytes r ->
  length l = 8%nat -> (p1 mod 128 = 127)%N -> (9223372036854775808 <= be_val l)%N ->
  exists c' m, advance_frame true c = MErr c' (EProto m).
Proof. exact (top_bit_rejected c p0 p1 l r). Qed.

(* With a limit L > 0 no message longer than L is ever returned, under every framing of it. *)
Theorem c14_limit server limit extra bs :
  wf_bytes bs -> 0 < limit < 9223372036854775808 -> (extra < 999)%nat ->
  exists rs ws, lib_session true server limit extra bs = Ok (rs, ws) /\
    forall t p, In (RMsg t p) rs -> Z.of_nat (length p) <= limit.
Proof. exact (read_limit_holds server limit extra bs). Qed.

(* Pings are answered with Pongs carrying the same payload, in order; at most one Close after them. *)
Theorem c14_ping_pong server limit extra bs :
  wf_bytes bs -> limit < 9223372036854775808 -> (extra < 999)%nat ->
  exists rs closefr, (length closefr <= 1)%nat /\
    lib_session true server limit extra bs = Ok (rs, pongs_of (fst (rfc_receive server limit bs)) ++ closefr).
Proof. exact (ping_pong_holds server limit extra bs). Qed.

(* A stream cut inside a frame or a fragmented message (or anywhere): for every stream s and every
   cut offset k, reading firstn k s returns a PREFIX of the messages that reading all of s returns
   -- every one of them whole, never a shortened message -- followed by an error. *)
Theorem c14_cut server limit s k :
  wf_bytes s -> limit < 9223372036854775808 ->
  exists rs1 ws1 rs2 ws2 more e,
    lib_session true server limit 0 (firstn k s) = Ok (rs1, ws1) /\
    lib_session true server limit 0 s = Ok (rs2, ws2) /\
    delivered rs2 = delivered rs1 ++ more /\
    rs1 = delivered rs1 ++ [RErr e].
Proof. exact (cut_delivers_prefix server limit s k). Qed.

(* "Every byte stream" above includes every frame sequence: the RFC parser inside rfc_receive
   reads back any frame written per RFC 6455 5.2/5.3 -- any FIN/RSV/opcode/mask bit, each of the
   three length forms (form_ok), any key and payload -- and classifies a 64-bit length with the top
   bit set as not-a-frame. *)
Theorem c14_frame_parses_back fin rsv op masked form key payload rest :
  (rsv < 8)%N -> (op < 16)%N -> form_ok form (lenN payload) -> (lenN payload < two63)%N -> length key = 4%nat ->
  exists h, rfc_header (ser_frame fin rsv op masked form key payload ++ rest) =
              HOk h ((if masked then rfc_unmask key 0 payload else payload) ++ rest) /\
    f_fin h = fin /\ f_rsv h = rsv /\ f_op h = op /\ f_masked h = masked /\ f_len h = lenN payload /\
    rfc_payload h ((if masked then rfc_unmask key 0 payload else payload) ++ rest) = Some (payload, rest).
Proof. exact (frame_parses_back fin rsv op masked form key payload rest). Qed.

(* ... and consumes a well-formed data frame as 5.4 says (first frame when no message is open,
   continuation otherwise; any length form; masked as the role requires; within the size bound):
   its payload joins the open message, delivered whole when FIN is set.  Chaining this lemma
   gives: a message sent under ANY fragmentation is delivered intact. *)
Theorem c14_data_frame_step server cap fuel open fin op form key payload rest evs :
  form_ok form (lenN payload) -> (lenN payload < two63)%N -> length key = 4%nat ->
  (match open with Some _ => op = 0%N | None => op = 1%N \/ op = 2%N end) ->
  (snd (open_parts open (mkHdr fin 0 op server (negb (form =? 7)%N) (lenN payload) [])) + lenN payload <= cap)%N ->
  rfc_recv (S fuel) server cap open (ser_frame fin 0 op server form key payload ++ rest) evs =
  (let '(t, fr, n) := open_parts open (mkHdr fin 0 op server (negb (form =? 7)%N) (lenN payload) []) in
   if fin then rfc_recv fuel server cap None rest (EvMsg t (concat (rev' (payload :: fr))) :: evs)
   else rfc_recv fuel server cap (Some (t, payload :: fr, (n + lenN payload)%N)) rest evs).
Proof. exact (rfc_recv_data_frame server cap fuel open fin op form key payload rest evs). Qed.

(* A message of type op (text / binary) sent as ANY non-empty sequence of fragments -- each in any
   admissible length form (chunk_ok), with any masking key, the total within the receiver's bound --
   is delivered by the RFC receiver as ONE message with the concatenated payload, and the receiver
   goes on with what follows; by c14_refines_rfc the library returns exactly that message. *)
Theorem c14_any_fragmentation server limit op chunks rest :
  chunks <> [] -> Forall chunk_ok chunks -> op = 1%N \/ op = 2%N -> limit < 9223372036854775808 ->
  (lenN (chunks_payload chunks) <= rfc_cap limit)%N ->
  forall fuel, rfc_recv (length chunks + fuel) server (rfc_cap limit) None (ser_chunks server true op chunks ++ rest) [] =
               rfc_recv fuel server (rfc_cap limit) None rest [EvMsg op (chunks_payload chunks)].
Proof. exact (message_any_fragmentation server limit op chunks rest). Qed.

Theorem c14_top_bit_not_a_frame fin rsv op masked len key rest :
  (rsv < 8)%N -> (op < 16)%N -> (two63 <= len < 18446744073709551616)%N -> length key = 4%nat ->
  rfc_header (ser_header fin rsv op masked 64 len key ++ rest) = HBadLen.
Proof. exact (top_bit_not_a_frame fin rsv op masked len key rest). Qed.

(* The application has sent its own Close frame (WriteControl / WriteMessage(CloseMessage); [own] =
   what it has written so far, the close-sent latch is set) and keeps reading.  For every byte
   stream the peer still sends: the reads return exactly what the RFC receiver delivers -- every
   message up to the peer's Close, Pings inside or between messages notwithstanding (their Pongs
   can no longer be written; that failure never surfaces as a read error) -- then the error the
   outcome calls for (the peer's CloseError with its status and reason for a peer Close),
   permanently; and nothing at all is written after the own Close. *)
Theorem c14_after_own_close server limit extra bs own :
  wf_bytes bs -> limit < 9223372036854775808 -> (extra < 999)%nat ->
  exists e closefr c',
    agrees (snd (rfc_receive server limit bs)) e closefr /\
    read_loop (S (length bs)) extra true (set_out (new_conn server limit bs) own true) [] =
      Ok (c', rev (msgs_of (fst (rfc_receive server limit bs)) ++ repeat (RErr e) (S extra))) /\
    c_out c' = own.
Proof. exact (after_own_close server limit extra bs own). Qed.

(* ... and for ANY application writes (WriteControl / WriteMessage of any type and payload, own Close
   included) at ANY read boundaries: the values the reads return are those of the session without
   them (so c14_refines_rfc describes them), for every input, repaired or pinned code. *)
Theorem c14_app_writes_do_not_change_reads fixed server limit apps bs :
  match lib_session_app fixed server limit apps bs, lib_session fixed server limit 0 bs with
  | Ok (rs1, _, _), Ok (rs2, _) => rs1 = rs2
  | Err e1, Err e2 => e1 = e2
  | Panic s1, Panic s2 => s1 = s2
  | _, _ => False
  end.
Proof. exact (app_writes_do_not_change_reads fixed server limit apps bs). Qed.

(* every reader state: once the close-sent latch is set a frame step writes nothing (no Pong, no
   second Close) and the latch stays set *)
Theorem c14_latched_writes_nothing fixed c : c_wclosed c = true ->
  match advance_frame fixed c with
  | MOk c' _ | MErr c' _ => c_out c' = c_out c /\ c_wclosed c' = true
  | MPanic _ => True
  end.
Proof. exact (latched_writes_nothing fixed c). Qed.

(* Partial application reads inside a frame (messageReader.Read(b) call by call, Model: mr_read):
   for EVERY sequence of buffer sizes (0 and 1 included), once the frame is exhausted the chunks the
   calls returned, concatenated, are the frame's payload -- unmasked correctly across the partial
   reads (readMaskPos) in the server role -- and the stream is positioned right after the frame.
   [partial: the composition across frame boundaries and control frames (advanceFrame between the
   calls resets the position) is modelled call by call (lib_session_partial) and tied by the
   correspondence run chunk by chunk, but the whole-message statement c14_partial_reads is not
   proved.] *)
Theorem c14_partial_reads_frame_partial fixed wants s payload rest s' chunks :
  c_err (rc s) = None -> c_rem (rc s) = Z.of_nat (length payload) -> c_in (rc s) = payload ++ rest ->
  in_frame fixed wants s [] = (s', chunks) -> c_rem (rc s') = 0 ->
  concat (rev chunks) = unmasked (rc s) (rpos s) payload /\ c_in (rc s') = rest.
Proof. exact (partial_reads_frame fixed wants s payload rest s' chunks). Qed.

(* The limit accounting around an ABANDONED message (NextReader called again without reading):
   NextReader restarts readLength and the remaining fragments of the abandoned message are added to
   it before the next message starts.  Limit 100 (and up to 159): a 3 x 40-byte message abandoned
   after its first frame makes the following 80-byte message fail with ErrReadLimit + Close 1009
   although 80 <= 100; from limit 160 = 40 + 40 + 80 on it is delivered; read to their ends, per
   message accounting applies (limit 100 refuses the 120-byte message, limit 120 delivers both).
   This does NOT contradict the property's limit clause, which only says that no message LONGER
   than L is ever delivered: here a message within L is refused, nothing over L is delivered. *)
Theorem c14_abandoned_limit_carry :
  lib_session_pat true false 100 [true; false] carry_wire =
    Ok ([(true, RMsg 1 []); (false, RErr ELimit)], [(websocket_CloseMessage, [3; 241]%N)]) /\
  lib_session_pat true false 159 [true; false] carry_wire =
    Ok ([(true, RMsg 1 []); (false, RErr ELimit)], [(websocket_CloseMessage, [3; 241]%N)]) /\
  lib_session_pat true false 160 [true; false] carry_wire =
    Ok ([(true, RMsg 1 []); (false, RMsg 2 (repeat 9%N 80)); (false, RErr EUeof)], []) /\
  lib_session true false 100 0 carry_wire = Ok ([RErr ELimit], [(websocket_CloseMessage, [3; 241]%N)]) /\
  lib_session true false 120 0 carry_wire =
    Ok ([RMsg 1 (repeat 7%N 120); RMsg 2 (repeat 9%N 80); RErr EUeof], []).
Proof. exact abandoned_limit_carry. Qed.

(* Reserved bits on a connection with permessage-deflate NEGOTIATED (RFC 7692 6): only RSV1 alone on
   the first frame of a data message becomes legal.  From every reader state at a frame boundary,
   negotiated or not: a frame with nonzero reserved bits other than that one case -- RSV1 together
   with RSV2 / RSV3 on a data frame, RSV2 / RSV3 anywhere, RSV1 (alone or combined) on continuation,
   ping, pong and close frames -- is refused with a protocol error (Close 1002 by handleProtocolError).
   The reader here is the code after fix ddfeb27; before it RSV1 was accepted on continuation and
   control frames of a negotiated connection. *)
Theorem c14_reserved_bits_negotiated neg fixed c p0 p1 r :
  c_rem c <= 0 -> c_in c = p0 :: p1 :: r -> wf_byte p0 ->
  let rsv := ((p0 / 16) mod 8)%N in let op := (p0 mod 16)%N in
  rsv <> 0%N -> ~ (neg = true /\ rsv = 4%N /\ (op = 1%N \/ op = 2%N)) ->
  exists c' m, advance_frame_gen neg fixed c = MErr c' (EProto m).
Proof. exact (reserved_bits_rejected neg fixed c p0 p1 r). Qed.

(* the RFC side (rfc_violation_neg: the framing rules with the negotiated flag) flags the same frames *)
Theorem c14_rfc_reserved_bits neg server is_open h :
  (f_rsv h < 8)%N -> f_rsv h <> 0%N ->
  ~ (neg = true /\ f_rsv h = 4%N /\ (f_op h = 1%N \/ f_op h = 2%N)) ->
  rfc_violation_neg neg server is_open h = true.
Proof. exact (rfc_reserved_bits_violation neg server is_open h). Qed.

(* without the extension the general reader is the reader all other theorems are about *)
Theorem c14_reader_not_negotiated fixed server limit inp :
  lib_session_gen false fixed server limit inp = lib_session fixed server limit 0 inp.
Proof. exact (lib_session_gen_false fixed server limit inp). Qed.

(* No run-time panic for any byte stream and fewer than 1000 failed reads (C07 imports this). *)
Theorem ws_read_total server limit extra bs :
  wf_bytes bs -> limit < 9223372036854775808 -> (extra < 999)%nat ->
  forall s, lib_session true server limit extra bs <> Panic s.
Proof. exact (WsReadProps.ws_read_total server limit extra bs). Qed.

(* Stronger, hypothesis-free forms: advanceFrame never panics from ANY reader state (any counters,
   flags, pending error, transport content -- bytes need not even be < 256), repaired or pinned code;
   a whole session never panics for any transport content, any limit, either role, any pattern of
   read / abandoned messages (NextReader called again without reading). *)
Theorem ws_advance_total fixed c s : advance_frame fixed c <> MPanic s.
Proof. exact (advance_frame_total fixed c s). Qed.
Theorem ws_read_total_all fixed server limit extra inp s :
  (extra < 999)%nat -> lib_session fixed server limit extra inp <> Panic s.
Proof. exact (WsReadProps.ws_read_total_all fixed server limit extra inp s). Qed.
Theorem ws_read_pat_total fixed server limit pat inp s :
  lib_session_pat fixed server limit pat inp <> Panic s.
Proof. exact (WsReadProps.ws_read_pat_total fixed server limit pat inp s). Qed.

(* the deliberate panic: the 1000th ReadMessage on a failed connection *)
Theorem c14_repeat_panic :
  lib_session true false 0 999 [129%N] = Panic 1000 /\
  lib_session true false 0 998 [129%N] = Ok (repeat (RErr EUeof) 999, []).
Proof. exact repeat_panic. Qed.

(* the pinned snapshot (before the fix: commits) violated the property: *)
Theorem c14_len63_refuted :
  lib_session false false 0 0 ([130; 127] ++ be8 (2 ^ 63) ++ [129; 2; 104; 105])%N
  = Ok ([RMsg 2 []; RMsg 1 [104; 105]%N; RErr EUeof], []).
Proof. exact len63_refuted. Qed.
Theorem c14_limit_refuted :
  exists p, (lenN p = 50)%N /\
  lib_session false false 10 0 ([2; 127] ++ be8 (2 ^ 64 - 100) ++ [128; 50] ++ repeat 120 50)%N
  = Ok ([RMsg 2 p; RErr EUeof], []).
Proof. exact limit_refuted. Qed.

Print Assumptions c14_refines_rfc.
Print Assumptions c14_utf8.
Print Assumptions c14_close_codes.
Print Assumptions c14_top_bit_rejected.
Print Assumptions c14_limit.
Print Assumptions c14_ping_pong.
Print Assumptions c14_cut.
Print Assumptions c14_frame_parses_back.
Print Assumptions c14_data_frame_step.
Print Assumptions c14_any_fragmentation.
Print Assumptions c14_top_bit_not_a_frame.
Print Assumptions c14_after_own_close.
Print Assumptions c14_app_writes_do_not_change_reads.
Print Assumptions c14_latched_writes_nothing.
Print Assumptions c14_partial_reads_frame_partial.
Print Assumptions c14_abandoned_limit_carry.
Print Assumptions c14_reserved_bits_negotiated.
Print Assumptions c14_rfc_reserved_bits.
Print Assumptions c14_reader_not_negotiated.
Print Assumptions ws_read_total.
Print Assumptions ws_advance_total.
Print Assumptions ws_read_total_all.
Print Assumptions ws_read_pat_total.
Print Assumptions c14_repeat_panic.
Print Assumptions c14_len63_refuted.
Print Assumptions c14_limit_refuted.
