(* C14 -- WebSocket reader enforces RFC 6455 framing rules and the read limit (stub). *)
From Verif Require Import Lib.Base Lib.Sx Model.WsRead.
Theorem c14_stub : True. Proof. exact I. Qed.
Print Assumptions c14_stub.
