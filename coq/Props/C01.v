(* C01 -- RTMP session: every message written is read back identically. *)
From Verif Require Import Lib.Base Lib.Sx Model.RtmpChunk.
Open Scope N_scope.

Example c01_smoke : exists w c, write_message 128 (mkmsg 5 0 9 1 [1;2;3]) = Ok (w, c).
Proof. eexists. eexists. vm_compute. reflexivity. Qed.
Print Assumptions c01_smoke.
