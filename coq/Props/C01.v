(* C01 -- RTMP session: every message written is read back identically.
   Model: coq/Model/RtmpChunk.v (writer: generateBasicHeader/C0/C3 headers, WriteMessage with the
   Set Chunk Size bookkeeping of onMessageWriten; reader: readBasicHeader, readMessageHeader,
   readMessagePayload, the ReadMessage loop with onMessageArrivated; handshake byte movers;
   transport = list of segments, one per transport read).
   Property theorems only; proofs are in Proofs/RtmpChunk.v and Proofs/RtmpChunkRT.v. *)
From Verif Require Import Lib.Base Lib.Sx Model.RtmpChunk Proofs.RtmpChunk Proofs.RtmpChunkRT.
Open Scope N_scope.

(* Domain (wf_msg): chunk stream id 2..65599, timestamp < 2^31, type < 256, stream id < 2^32,
   1 <= |payload| < 2^24, and -- because the peer decodes types 1, 4, 5 on arrival -- a Set Chunk
   Size body of >= 4 bytes announcing a size in [1, 2^31-1], a Window Ack Size body of >= 4 bytes,
   a User Control body of at least the event-type-dependent length (ctl_ok).

   One message, any chunk size c >= 1 in force on both sides, any reader state whose chunk stream
   [m_cid m] has no unfinished message (the other chunk streams may be mid-message), any bytes [x]
   and further transport reads [rest] after it: ReadMessage returns exactly m, consumes exactly
   the bytes WriteMessage produced, leaves the other chunk streams untouched and this one idle,
   and both sides continue with the same chunk size (the announced one after a Set Chunk Size). *)
Theorem c01_single m c s :
  wf_msg m -> 0 < c -> in_chunk s = c -> c_part (get_chunk (chunks s) (m_cid m)) = None ->
  exists w s',
    write_message c m = Ok (w, next_chunk c m) /\
    (forall (x : bytes) (rest : inp) fuel, (length (m_payload m) < fuel)%nat ->
       read_message fuel s ((w ++ x) :: rest) = Ok (m, s', x :: rest)) /\
    in_chunk s' = next_chunk c m /\
    c_part (get_chunk (chunks s') (m_cid m)) = None /\
    (forall k, k <> m_cid m -> get_chunk (chunks s') k = get_chunk (chunks s) k).
Proof. exact (single_message m c s). Qed.

(* Every finite sequence of well-formed messages -- Set Chunk Size messages with any announced
   size in [1, 2^31-1] at any positions included -- written by one endpoint starting from the
   chunk size c both sides have, is read by the peer as exactly that sequence; nothing beyond the
   written bytes is consumed.  The other direction is the same theorem for the other endpoint
   (the two directions share no chunk state). *)
Theorem c01_session ms : Forall wf_msg ms ->
  forall c s, 0 < c -> in_chunk s = c -> all_idle s ->
  exists ws s',
    write_all c ms = map Ok ws /\
    (forall (x : bytes) (rest : inp) fuel, Forall (fun m => (length (m_payload m) < fuel)%nat) ms ->
       read_n fuel (length ms) s ((concat ws ++ x) :: rest) = Ok (ms, s', x :: rest)) /\
    all_idle s' /\ 0 < in_chunk s'.
Proof. exact (session ms). Qed.

(* From NewProtocol on both sides (chunk size 128), however the transport cuts the byte stream
   into reads [segs] (down to one byte, empty reads included): the peer's read loop yields exactly
   the written messages and then a clean io.EOF. *)
Theorem c01_session_segmented ms segs fuel : Forall wf_msg ms ->
  (length ms < fuel)%nat -> Forall (fun m => (length (m_payload m) + length ms < fuel)%nat) ms ->
  exists ws, write_all DEFCHUNK ms = map Ok ws /\
    (flat segs = concat ws -> read_all fuel rs0 segs [] = (ms, E_EOF)).
Proof.
  intros W Hf Hfs.
  destruct (session_eof ms W DEFCHUNK rs0 [] fuel) as (ws & Hw & Hr); auto; try reflexivity.
  - exact rs0_idle.
  - exists ws. split; [exact Hw|]. intros Hs. cbn [rev app] in Hr.
    etransitivity; [|exact Hr]. apply read_all_same. cbn [flat concat]. now rewrite app_nil_r.
Qed.

(* read_segs_concat: what ReadMessage returns depends only on the concatenation of the
   transport reads (value, error class, and the bytes left over) *)
Theorem c01_segmentation fuel s i1 i2 :
  flat i1 = flat i2 -> same_res (read_message fuel s i1) (read_message fuel s i2).
Proof. exact (read_message_same fuel s i1 i2). Qed.

(* Simple handshake: whatever 1528 random bytes the sender picks and whatever 1536 bytes it echoes,
   the peer's ReadC0S0 / ReadC1S1 / ReadC2S2 take exactly 1 + 1536 + 1536 = 3073 bytes from the
   transport (however segmented) and deliver them intact; the chunk stream starts right after. *)
Theorem c01_handshake (rnd s1 tail : bytes) (i : inp) :
  length rnd = 1528%nat -> length s1 = 1536%nat ->
  flat i = hs_c0s0 ++ hs_c1s1 rnd ++ hs_c2s2 s1 ++ tail ->
  exists i1 i2 i3,
    hs_read_c0s0 i = Ok ([3], i1) /\ hs_read_c1s1 i1 = Ok (hs_c1s1 rnd, i2) /\
    hs_read_c2s2 i2 = Ok (s1, i3) /\ flat i3 = tail /\
    lenN (hs_c0s0 ++ hs_c1s1 rnd ++ hs_c2s2 s1) = 3073.
Proof. exact (handshake rnd s1 tail i). Qed.

(* A full session on one connection: the peer's handshake bytes C0/S0, C1/S1, C2/S2 followed
   IMMEDIATELY by its chunk stream, the whole cut into transport reads in ANY way (the tail of
   C2/S2 and the first chunk bytes in one read, a read ending k bytes before or after a handshake
   boundary, 1-byte reads, empty reads): the three handshake reads deliver the handshake intact
   and consume exactly its 3073 bytes, and the read loop of a Protocol started on what is left of
   the connection yields exactly the written messages, then a clean io.EOF.  (The code hands the
   connection from Handshake to Protocol unbuffered -- io.CopyN on the connection itself, bufio
   only inside Protocol -- and the model does the same: copy_n returns the rest of the transport.) *)
Theorem c01_handshake_session (rnd s1 : bytes) ms (segs : inp) fuel :
  length rnd = 1528%nat -> length s1 = 1536%nat -> Forall wf_msg ms ->
  (length ms < fuel)%nat -> Forall (fun m => (length (m_payload m) + length ms < fuel)%nat) ms ->
  exists ws, write_all DEFCHUNK ms = map Ok ws /\
    (flat segs = hs_c0s0 ++ hs_c1s1 rnd ++ hs_c2s2 s1 ++ concat ws ->
     exists i1 i2 i3,
       hs_read_c0s0 segs = Ok ([3], i1) /\ hs_read_c1s1 i1 = Ok (hs_c1s1 rnd, i2) /\
       hs_read_c2s2 i2 = Ok (s1, i3) /\
       read_all fuel rs0 i3 [] = (ms, E_EOF)).
Proof. exact (handshake_session rnd s1 ms segs fuel). Qed.

(* ReadMessage never panics: any bytes, any segmentation, any state reachable from NewProtocol
   by earlier reads (rs_ok: every unfinished message has received fewer bytes than announced),
   and every state it returns is reachable again. *)
Theorem rtmp_read_total fuel s i p : rs_ok s -> read_message fuel s i <> Panic p.
Proof. exact (Proofs.RtmpChunk.rtmp_read_total fuel s i p). Qed.
Theorem rtmp_read_reachable fuel s i m s' i' :
  rs_ok s -> read_message fuel s i = Ok (m, s', i') -> rs_ok s'.
Proof. exact (Proofs.RtmpChunk.rtmp_read_reachable fuel s i m s' i'). Qed.
Theorem rtmp_initial_reachable : rs_ok rs0.
Proof. exact rs0_ok. Qed.

(* Chunk stream ids the protocol cannot encode (0 and 1 -- NewMessage() has 0 -- and > 65599) are
   refused by the writer before any byte is written (formerly: masked to 6 bits, finding
   writer-cid-range, fixed in 20a6c0a). *)
Theorem c01_cid_refused c m : m_cid m < 2 \/ 65599 < m_cid m -> write_message c m = Err E_CID.
Proof. exact (cid_refused c m). Qed.

(* WriteMessage terminates for EVERY message (well-formed or not) whenever the output chunk size is
   positive -- which it always is: it starts at 128 and only a positive announced size replaces
   it -- and it either refuses the chunk stream id or succeeds leaving a positive chunk size. *)
Theorem c01_writer_total c m : 0 < c ->
  write_message c m = Err E_CID \/ exists w c', write_message c m = Ok (w, c') /\ 0 < c'.
Proof. exact (write_message_total c m). Qed.

(* non-vacuity: a message with an extended timestamp on a 3-byte-form chunk stream, and a
   Set Chunk Size announcing 2^31-1, are in the domain *)
Example c01_wf_nonvacuous :
  wf_msg (mkmsg 65599 16777216 9 1 [1; 2; 3]) /\ wf_msg (mkmsg 2 0 1 0 [127; 255; 255; 255]).
Proof. split; constructor; cbn; try reflexivity; lia. Qed.
(* ... and a concrete session: chunk size 1 announced, then a 3-byte message in 3 chunks *)
Example c01_session_example :
  let ms := [mkmsg 2 0 1 0 [0; 0; 0; 1]; mkmsg 5 16777215 9 1 [7; 8; 9]] in
  read_all 10 rs0 (map (fun b => [b]) (wire_of (write_all DEFCHUNK ms))) [] = (ms, E_EOF).
Proof. vm_compute. reflexivity. Qed.

(* ... and a full session whose third transport read holds the last 2 bytes of C2 AND the whole
   chunk stream *)
Example c01_handshake_session_example :
  let ms := [mkmsg 5 0 9 1 [7; 8; 9]] in
  let stream := hs_prefix ++ wire_of (write_all DEFCHUNK ms) in
  let segs := cut [1; 3070; 70000] stream in
  length segs = 3%nat /\
  (let* (_, i1) := hs_read_c0s0 segs in let* (_, i2) := hs_read_c1s1 i1 in let* (_, i3) := hs_read_c2s2 i2 in
   Ok (read_all 10 rs0 i3 [])) = Ok (ms, E_EOF).
Proof. vm_compute. split; reflexivity. Qed.

Print Assumptions c01_single.
Print Assumptions c01_session.
Print Assumptions c01_session_segmented.
Print Assumptions c01_segmentation.
Print Assumptions c01_handshake.
Print Assumptions c01_handshake_session.
Print Assumptions rtmp_read_total.
Print Assumptions rtmp_read_reachable.
Print Assumptions rtmp_initial_reachable.
Print Assumptions c01_cid_refused.
Print Assumptions c01_writer_total.
