(* C17 -- comment stripping never changes what a JSON document means.

   Model: Model/JsonPlus.v (firstMatch, indexEnd, the split function of NewCommentReader with the
   marker tables of NewJsonPlusReader regenerated from json/json.go, bufio.Scanner.Scan, the
   draining Read).  [reader_dt segs fin dt] is what a consumer receives when the underlying
   stream delivers the read segments [segs] and then EOF (fin = 0) -- the last segment together
   with the EOF when dt = true, the EOF by a separate empty read otherwise: the output bytes and
   how the stream ended.  [reader segs fin] = [reader_dt segs fin false].
   [strip d] is the segmentation-free specification: the split function applied, at EOF, to the
   whole remaining input.  Property theorems only; proofs are in Proofs/JsonPlus*.v. *)
From Verif Require Import Lib.Base Lib.Sx Gen.Gen_json Model.JsonPlus.
From Verif Require Import Proofs.JsonPlusIndex Proofs.JsonPlusSplit Proofs.JsonPlusScan
  Proofs.JsonPlusStrip Proofs.JsonPlusTotal Proofs.JsonPlusExamples Proofs.JsonPlusLex Proofs.JsonPlusRead Proofs.JsonPlusBig.
Open Scope N_scope.

(* [core] A token the split function returns on a prefix of the input (not at EOF) is returned
   unchanged -- same advance, same bytes -- on every extension of that prefix, at EOF or not. *)
Theorem c17_split_stable d adv tok :
  split d false = Ok (Tok adv tok) -> forall x e, split (d ++ x) e = Ok (Tok adv tok).
Proof. intros H x e. exact (split_stable d x e adv tok H). Qed.

(* A token always consumes at least one byte, never more than is buffered, and is a prefix of
   the data (so Scanner.Scan neither spins nor reports a bad advance), and the split function
   itself never indexes out of range. *)
Theorem c17_split_progress d e adv tok :
  split d e = Ok (Tok adv tok) ->
  (0 < adv <= lenZ d)%Z /\ exists n, (n <= Z.to_nat adv)%nat /\ tok = firstn n d.
Proof. exact (split_tok_facts d e adv tok). Qed.

Theorem c17_split_total d e s : split d e <> Panic s.
Proof. exact (split_no_panic d e s). Qed.

(* [core] Any segmentation of the input into reads -- 1-byte reads included, empty reads included
   as long as there are never more than 100 of them in a row ([runs_ok]; bufio.Scanner gives up
   with io.ErrNoProgress beyond that, which the model reproduces), the last bytes delivered with
   or before the EOF: the consumer receives exactly strip of the whole input, so two
   segmentations of the same bytes give the same output and the same end status.  The bound is the scanner's token limit, which
   after the repair of DESIGN 5 item 21 is 2^62 bytes (c17_limit) -- no input that fits in
   memory reaches it. *)
Theorem c17_reader_is_strip segs dt :
  runs_ok segs -> lenN (concat segs) < tok_limit -> reader_dt segs 0 dt = strip (concat segs).
Proof. exact (reader_dt_strip segs dt). Qed.

Theorem c17_segmentation segs1 segs2 dt1 dt2 :
  runs_ok segs1 -> runs_ok segs2 -> concat segs1 = concat segs2 ->
  lenN (concat segs1) < tok_limit -> reader_dt segs1 0 dt1 = reader_dt segs2 0 dt2.
Proof. exact (reader_dt_segmentation segs1 segs2 dt1 dt2). Qed.

Theorem c17_limit : tok_limit = 4611686018427387904.
Proof. exact tok_limit_value. Qed.

(* [core] The consumer.  [reader_rd segs fin dt rds] is what a consumer receives that calls
   Read(p) with buffers of the sizes rds (0, 1, smaller than a token, ... -- any list) until the
   first error or until it stops calling (None); the tokens go through the reader's bytes.Buffer.
   Whatever the producer's segmentation AND whatever the consumer's buffer sizes: a consumer that
   stops early holds a prefix of strip of the whole input; one that is told the end holds all of
   it, with strip's end status.  A consumer whose buffers all have room for a byte is told the
   end after at most one call per output byte plus one. *)
Theorem c17_consumer segs dt rds :
  runs_ok segs -> lenN (concat segs) < tok_limit ->
  let '(o, r) := strip (concat segs) in
  let '(d, st) := reader_rd segs 0 dt rds in
  match st with
  | None => exists rest, d ++ rest = o
  | Some r' => d = o /\ r' = r
  end.
Proof. exact (reader_rd_strip segs dt rds). Qed.

(* ... and for every way the stream ends, without any guard: the consumer-by-consumer reader
   agrees with the read-everything reader [reader_dt] of the other theorems *)
Theorem c17_consumer_any segs fin dt rds :
  let '(o, r) := reader_dt segs fin dt in
  let '(d, st) := reader_rd segs fin dt rds in
  match st with
  | None => exists rest, d ++ rest = o
  | Some r' => d = o /\ r' = r
  end.
Proof. exact (reader_rd_reader segs fin dt rds). Qed.

Theorem c17_consumer_ends segs fin dt rds :
  Forall (fun n => 0 < n) rds -> (length (fst (reader_dt segs fin dt)) < length rds)%nat ->
  snd (reader_rd segs fin dt rds) <> None.
Proof. exact (reader_rd_ends segs fin dt rds). Qed.

(* very large documents (strings, comments, marker-free stretches of megabytes; a megabyte of small
   tokens) are described run-length encoded and not expanded on the model side: the observation
   the model reports for them -- length and byte sum of the undecorated text, computed from the
   description -- is the summary of what the reader model outputs on the expanded document, for
   every segmentation, and the stream ends with EOF.  There is no size above which this changes
   (up to the 2^62 of c17_limit). *)
Theorem c17_big_documents d segs dt :
  big_ok d = true -> runs_ok segs -> concat segs = render_dec (map expand_item d) None ->
  lenN (concat segs) < tok_limit ->
  summary (fst (reader_dt segs 0 dt)) = big_plain d /\ snd (reader_dt segs 0 dt) = Ok tt.
Proof. exact (big_obs_sound d segs dt). Qed.

(* NewCommentReader with other marker tables (the API takes them as arguments): the split function
   and the reader are modelled generically over the tables and run against the implementation
   (SRS-config # comments, SQL/XML style markers, multi-byte regions); the theorems of this file
   are about the instance for the tables of NewJsonPlusReader, and that instance of the generic
   model is the model the theorems are about. *)
Theorem c17_generic_tables segs fin dt rds :
  reader_rd_t json_tables segs fin dt rds = reader_rd segs fin dt rds.
Proof. exact (generic_is_json segs fin dt rds). Qed.

(* [core] Streams that end in a read error (fin <> 0), every segmentation: the reader ends with that
   very error (the transport's), and the bytes delivered before it are a prefix of what is
   delivered for the same bytes followed by EOF -- never anything else.  The length of the
   prefix depends on the segmentation: a token completed only by the scanner's last buffer is
   held back, because commentReader.Read tests s.Err() before handing it over. *)
Theorem c17_read_error segs fin dt :
  fin <> 0 -> runs_ok segs -> lenN (concat segs) < tok_limit ->
  snd (reader_dt segs fin dt) = Err fin /\
  exists rest, fst (reader_dt segs fin dt) ++ rest = fst (strip (concat segs)).
Proof. exact (reader_dt_error segs fin dt). Qed.

(* [core] A document is a list of items: runs of punctuation / numbers / literals / white space
   (no quote, apostrophe or slash -- JSON has none outside strings), string literals whose body
   is any sequence of plain bytes and backslash pairs (so an escaped quote and an escaped backslash are covered), line comments
   (body without newline; the comment disappears together with its newline), block comments
   (body without the terminator), and optionally an unterminated line comment at the very end.
   Comment bodies may contain quotes, apostrophes, backslashes and comment markers.
   For every such document and every segmentation of its rendering into reads, the consumer
   receives the undecorated text byte for byte and then EOF.  encoding/json is a function of
   those bytes, hence decodes the same value. *)
Theorem c17_strip segs dt d tail :
  runs_ok segs -> concat segs = render_dec d tail -> doc_ok d tail = true ->
  lenN (concat segs) < tok_limit ->
  reader_dt segs 0 dt = (render_plain d, Ok tt).
Proof. exact (reader_doc segs dt d tail). Qed.

Theorem c17_strip_spec d tail : doc_ok d tail = true -> strip (render_dec d tail) = (render_plain d, Ok tt).
Proof. exact (strip_doc d tail). Qed.

(* [core] A document without comments passes through byte for byte. *)
Theorem c17_identity segs dt d :
  runs_ok segs -> concat segs = render_dec d None -> forallb no_comment d = true ->
  doc_ok d None = true -> lenN (concat segs) < tok_limit ->
  reader_dt segs 0 dt = (concat segs, Ok tt).
Proof. exact (reader_identity segs dt d). Qed.

(* [core] The same for raw text: [lex t] succeeds exactly on the texts that consist of runs without
   quote / apostrophe / slash and of string literals closed by an unescaped quote (every JSON
   text has this shape); such a text passes through unchanged for every segmentation. *)
Theorem c17_identity_text segs dt d :
  runs_ok segs -> lex (concat segs) = Some d -> lenN (concat segs) < tok_limit ->
  reader_dt segs 0 dt = (concat segs, Ok tt).
Proof. exact (reader_identity_text segs dt d). Qed.

(* every segmentation into non-empty reads is covered by runs_ok *)
Theorem c17_nonempty_reads_ok segs : Forall nonempty segs -> runs_ok segs.
Proof. intros H. exact (nonempty_runs_ok segs H 0%nat). Qed.

(* Totality (imported by C07): for every list of read segments, empty reads included, and every
   way the underlying stream ends (EOF or a read error), the reader model never reaches a Go
   run-time panic and its loop terminates (the model's fuel is adequate). *)
Theorem jsonplus_total segs fin dt :
  fin <> E_FUEL ->
  (forall s, snd (reader_dt segs fin dt) <> Panic s) /\ snd (reader_dt segs fin dt) <> Err E_FUEL.
Proof. exact (jsonplus_total segs fin dt). Qed.

(* Non-vacuity: a concrete document with an escaped quote followed by slashes inside a string,
   quotes / apostrophes / markers inside comments and an unterminated final line comment
   satisfies the guard, and read one byte at a time it comes out as its undecorated text. *)
Theorem c17_example :
  doc_ok ex_doc ex_tail = true /\
  runs_ok (map (fun c => [c]) (render_dec ex_doc ex_tail)) /\
  reader (map (fun c => [c]) (render_dec ex_doc ex_tail)) 0 = (render_plain ex_doc, Ok tt).
Proof. exact (conj ex_doc_ok (conj ex_doc_segs_ok ex_doc_bytewise)). Qed.

(* Regression witness of DESIGN 5 item 20 (repaired): the escaped quote no longer ends the literal. *)
Theorem c17_escaped_quote_intact : reader [w_escaped] 0 = (w_escaped, Ok tt).
Proof. exact ex_escaped_quote_now_intact. Qed.

Print Assumptions c17_split_stable.
Print Assumptions c17_split_progress.
Print Assumptions c17_split_total.
Print Assumptions c17_reader_is_strip.
Print Assumptions c17_segmentation.
Print Assumptions c17_limit.
Print Assumptions c17_consumer.
Print Assumptions c17_consumer_any.
Print Assumptions c17_consumer_ends.
Print Assumptions c17_big_documents.
Print Assumptions c17_generic_tables.
Print Assumptions c17_read_error.
Print Assumptions c17_strip.
Print Assumptions c17_strip_spec.
Print Assumptions c17_identity.
Print Assumptions c17_identity_text.
Print Assumptions c17_nonempty_reads_ok.
Print Assumptions jsonplus_total.
Print Assumptions c17_example.
Print Assumptions c17_escaped_quote_intact.
