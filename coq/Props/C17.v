(* C17 -- comment stripping never changes what a JSON document means. *)
From Verif Require Import Lib.Base Lib.Sx Model.JsonPlus.
Open Scope N_scope.

Theorem c17_tables_shape :
  length start_matches = 4%nat /\ length end_matches = 4%nat /\ length is_comments = 4%nat /\ length required_matches = 4%nat.
Proof. vm_compute. auto. Qed.

Print Assumptions c17_tables_shape.
