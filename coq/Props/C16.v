(* C16 -- JOSE objects verify/decrypt only if untampered (structural layer). *)
From Verif Require Import Lib.Base Lib.Sx Model.Jose Proofs.Jose.
Open Scope N_scope.

Theorem c16_b64_char_not_dot v : b64_char v <> ch_dot.
Proof. exact (b64_char_not_dot v). Qed.

Print Assumptions c16_b64_char_not_dot.
