(* C16 -- JOSE objects verify/decrypt only if untampered, for every algorithm.
   Property theorems only.  The cryptographic primitives (AES, SHA-2/HMAC, GCM, RSA, ECDSA, flate)
   and encoding/json are NOT modelled; what is proved is all the byte-level logic the library
   itself adds between them (model: coq/Model/Jose.v, transcribed from https/jose and
   https/jose/cipher), and -- in clearly marked theorems -- the end-to-end clauses under an
   explicit idealisation of the primitives, stated as hypotheses of the theorem.
   [wf_bytes b]: every element of b is < 256 (what a Go []byte can hold). *)
From Verif Require Import Lib.Base Lib.Sx Model.Jose.
From Verif Require Import Proofs.Jose Proofs.JoseCompact Proofs.JoseCipher Proofs.JoseWrap Proofs.JoseWrapLoop Proofs.JoseFixed Proofs.JoseGlue Proofs.JoseIdeal Proofs.JoseJson.
Open Scope N_scope.

(* ---------------------------------------------------------------- base64url (encoding.go) *)
(* base64URLDecode (base64URLEncode b) = b for every byte string, through the padding
   arithmetic of base64URLDecode and Go's padded URL decoder; the encoder's alphabet is
   A-Z a-z 0-9 - _ (so never '.', '=' or white space); the encoder is injective. *)
Theorem c16_b64 :
  (forall b, wf_bytes b -> b64url_decode (b64url_encode b) = Some b) /\
  (forall b, Forall is_b64_char (b64url_encode b) /\ Forall (fun c => c <> ch_dot) (b64url_encode b)) /\
  (forall a b, wf_bytes a -> wf_bytes b -> b64url_encode a = b64url_encode b -> a = b).
Proof.
  split; [exact b64_dec_enc|]. split; [|exact b64url_encode_injective].
  intro b. split; [apply b64url_encode_alphabet|apply b64url_encode_no_dot].
Qed.

(* base64URLEncode (TrimRight of the padded stdlib encoding) is the unpadded RFC 4648 encoding *)
Theorem c16_b64_unpadded b : b64url_encode b = b64_enc b.
Proof. exact (b64url_encode_direct b). Qed.

(* ---------------------------------------------------------------- compact serialization (jws.go, jwe.go) *)
(* parse (serialize o) returns the same protected bytes, payload and signature ... *)
Theorem c16_compact_jws o : wf_jws o -> parse_jws_compact (jws_compact o) true = Ok o.
Proof. exact (parse_jws_compact_serialize o). Qed.

(* ... and the same protected bytes, encrypted key, IV, ciphertext and tag (a JWE protected header is
   never empty: it carries alg and enc; the parser rejects an empty one) *)
Theorem c16_compact_jwe o : wf_jwe o -> je_prot o <> [] -> parse_jwe_compact (jwe_compact o) 1 = Ok o.
Proof. exact (parse_jwe_compact_serialize o). Qed.

(* JSON serializations: each field travels as the base64url text of a string member; decoding
   the members (encoding/json itself is not modelled) returns the fields *)
Theorem c16_json_members :
  (forall o, wf_jws o ->
     jws_of_b64 (b64url_encode (js_prot o)) (b64url_encode (js_payload o)) (b64url_encode (js_sig o)) = Ok o) /\
  (forall o, wf_jwe o ->
     jwe_of_b64 (b64url_encode (je_prot o)) (b64url_encode (je_key o)) (b64url_encode (je_iv o))
                (b64url_encode (je_ct o)) (b64url_encode (je_tag o)) = Ok o).
Proof. split; [exact jws_of_b64_enc|exact jwe_of_b64_enc]. Qed.

(* ---------------------------------------------------------------- flattened / general JSON serializations *)
(* encoding/json is an ORACLE: a JSON text is abstracted to the object the raw structs see (members
   as an association list: strings, header objects, arrays of inner objects); json_enc / json_dec and
   hdr_dec (the protected header's JSON) are arbitrary functions with the round-trip hypotheses
   written in the theorem.  FullSerialize then ParseSigned returns the payload and, for EVERY
   signature in order (one -> flattened, two or more -> general serialization), the original
   protected bytes, their parsed value, the unprotected header and the signature.
   wf_jws_obj: well-formed bytes, at least one signature, no nonce in an unprotected header, and
   each non-empty protected header decodes to its value. *)
Theorem c16_json_jws hdr_dec json_enc json_dec :
  (forall o, json_dec (json_enc o) = Some o) ->
  (forall o, strip_ws (json_enc o) = json_enc o /\ starts_with_brace (json_enc o) = true) ->
  forall o, wf_jws_obj hdr_dec o ->
  parse_signed_json json_dec hdr_dec (json_enc (jws_full o)) = Ok (jo_payload o, map view_sig (jo_sigs o)).
Proof. exact (parse_signed_full_serialize hdr_dec json_enc json_dec). Qed.

(* likewise FullSerialize then ParseEncrypted, for one recipient (flattened) and for two or more
   (general): protected bytes and value, shared unprotected header, every recipient's header and
   encrypted key in order, AAD, IV, ciphertext, tag; and the decrypter's AAD is computed from the
   protected bytes as received.  wf_jwe_obj: non-empty protected header decoding to its value, no
   nonce in unprotected headers, at least one recipient, alg and enc present in every recipient's
   merged header (the parser rejects the object otherwise). *)
Theorem c16_json_jwe hdr_dec json_enc json_dec :
  (forall o, json_dec (json_enc o) = Some o) ->
  (forall o, strip_ws (json_enc o) = json_enc o /\ starts_with_brace (json_enc o) = true) ->
  forall o, wf_jwe_obj hdr_dec o ->
  parse_encrypted_json json_dec hdr_dec (json_enc (jwe_full o)) = Ok (view_jwe o) /\
  pjwe_aad (view_jwe o) = aad_input (eo_prot o) (if is_nil (eo_aad o) then None else Some (eo_aad o)).
Proof.
  intros R T o W. split; [exact (parse_encrypted_full_serialize hdr_dec json_enc json_dec R T o W)|reflexivity].
Qed.

(* header merging as the code does it (rawHeader.merge, mergedHeaders): for every header field the
   protected value wins when it is set, then the shared unprotected header, then the per-recipient
   header.  The code does NOT reject a name that occurs in several headers (RFC 7515 4 / 7516 4
   require disjoint names); it only never lets an unprotected value override a protected one. *)
Theorem c16_header_merge :
  (forall ph oh k, In k hdr_fields ->
     hget (merged [Some ph; oh]) k = (if is_nil (hget ph k) then hget_opt oh k else hget ph k)) /\
  (forall ph u r k, In k hdr_fields ->
     hget (merged [Some ph; u; r]) k =
     (if is_nil (hget ph k) then (if is_nil (hget_opt u k) then hget_opt r k else hget_opt u k) else hget ph k)) /\
  (forall s ph, ps_phdr s = Some ph -> hget ph n_alg <> [] -> hget (psig_merged s) n_alg = hget ph n_alg).
Proof. split; [exact merged_protected_wins|]. split; [exact merged3|exact verify_alg_protected]. Qed.

(* multi-signature Verify: signatures with a crit header are skipped; if some signature without one
   verifies (under ITS merged algorithm, over ITS protected bytes) the payload is returned; if none
   does, the result is the crypto error *)
Theorem c16_multi_signature verify payload sigs :
  (forall s, In s sigs -> hget (psig_merged s) n_crit = [] ->
     verify (hget (psig_merged s) n_alg) (signing_input (ps_prot s) payload) (ps_sig s) = true ->
     jws_verify_multi verify payload sigs = Ok payload) /\
  ((forall s, In s sigs -> hget (psig_merged s) n_crit = [] ->
      verify (hget (psig_merged s) n_alg) (signing_input (ps_prot s) payload) (ps_sig s) = false) ->
   jws_verify_multi verify payload sigs = Err e_crypto).
Proof. split; [exact (jws_verify_multi_some verify payload sigs)|exact (jws_verify_multi_none verify payload sigs)]. Qed.

(* only texts with exactly 3 / 5 dot-separated parts (after white space removal) are accepted *)
Theorem c16_compact_part_count :
  (forall s j o, parse_jws_compact s j = Ok o -> length (split_dot (strip_ws s)) = 3%nat) /\
  (forall s h o, parse_jwe_compact s h = Ok o -> length (split_dot (strip_ws s)) = 5%nat).
Proof. split; [exact parse_jws_compact_parts|exact parse_jwe_compact_parts]. Qed.

(* the verifier's signing input is the signer's: it is recomputed from the protected bytes the
   parser kept, which are the signer's bytes *)
Theorem c16_verifier_signing_input o :
  wf_jws o ->
  match parse_jws_compact (jws_compact o) true with
  | Ok o' => signing_input (js_prot o') (js_payload o') = signing_input (js_prot o) (js_payload o)
  | _ => False
  end.
Proof. exact (verifier_signing_input o). Qed.

(* different (protected, payload) => different signing input b64(protected) '.' b64(payload) *)
Theorem c16_signing_input_injective p l p' l' :
  wf_bytes p -> wf_bytes l -> wf_bytes p' -> wf_bytes l' ->
  signing_input p l = signing_input p' l' -> p = p' /\ l = l'.
Proof. exact (signing_input_injective p l p' l'). Qed.

(* different (protected, aad) => different AAD b64(protected) ['.' b64(aad)]; aad is absent or
   non-empty (zero-length authenticated data is treated as absent by the code, fix fe25c8a) *)
Theorem c16_aad_injective p a p' a' :
  wf_bytes p -> wf_bytes p' -> wf_aad a -> wf_aad a' ->
  aad_input p a = aad_input p' a' -> p = p' /\ a = a'.
Proof. exact (aad_input_injective p a p' a'). Qed.

(* ---------------------------------------------------------------- CBC-HMAC (cipher/cbc_hmac.go) *)
(* the tag input aad || iv || ct || uint64_be(8*len(aad)) determines aad, iv and ct, for nonces of
   one fixed length (the code: 16) and AAD below 2^61 bytes (its bit length fits the field) *)
Theorem c16_mac_input_injective aad iv ct aad' iv' ct' :
  length iv = length iv' -> lenN aad < 2305843009213693952 -> lenN aad' < 2305843009213693952 ->
  mac_input aad iv ct = mac_input aad' iv' ct' -> aad = aad' /\ iv = iv' /\ ct = ct'.
Proof. exact (mac_input_injective aad iv ct aad' iv' ct'). Qed.

(* PKCS#7: unpad (pad b) = b for every length (block size 16, and every block size 1..255);
   the padded length is a positive multiple of the block size; unpadBuffer never panics, on any
   buffer; what it accepts is body ++ v copies of v with 1 <= v <= block size *)
Theorem c16_pkcs7 :
  (forall b, unpad_buffer (pad_buffer b 16) 16 = Ok b) /\
  (forall b bs, 0 < bs < 256 -> unpad_buffer (pad_buffer b bs) bs = Ok b /\
                lenN (pad_buffer b bs) mod bs = 0 /\ lenN b < lenN (pad_buffer b bs)) /\
  (forall b bs s, unpad_buffer b bs <> Panic s) /\
  (forall b bs body, unpad_buffer b bs = Ok body ->
     exists v, b = body ++ repeatN v v /\ 1 <= v <= bs /\ lenN b mod bs = 0 /\ b <> []).
Proof.
  split; [intro b; apply unpad_pad; lia|].
  split; [intros b bs H; split; [apply unpad_pad; exact H|apply pad_buffer_length; lia]|].
  split; [exact unpad_total|exact unpad_ok_spec].
Qed.

(* Seal then Open returns the plaintext, for every HMAC with at least tagbytes of output and every
   length-preserving CBC pair that inverts; the tag is the first tagbytes bytes of the HMAC *)
Theorem c16_cbc_seal_open hm cbcenc cbcdec tb nonce pt aad :
  (forall m, tb <= lenN (hm m)) -> lenN nonce = block_size ->
  (forall iv x, cbcdec iv (cbcenc iv x) = x) -> (forall iv x, lenN (cbcenc iv x) = lenN x) ->
  exists sealed, cbc_seal hm cbcenc tb nonce pt aad = Ok sealed /\ cbc_open hm cbcdec tb nonce sealed aad = Ok pt.
Proof. exact (cbc_open_seal hm cbcenc cbcdec tb nonce pt aad). Qed.

(* ---------------------------------------------------------------- key wrap (cipher/key_wrap.go) *)
(* for EVERY pair of block functions with D (E x) = x on 16-byte blocks (E producing 16-byte
   blocks) and every key of 16, 24, 32, ... bytes: KeyUnwrap D (KeyWrap E k) = k; and a wrapping
   made with ANY other 8-byte integrity check value is rejected *)
Theorem c16_keywrap E D :
  (forall x, length x = 16%nat -> D (E x) = x) -> (forall x, length x = 16%nat -> length (E x) = 16%nat) ->
  (forall cek, lenN cek mod 8 = 0 -> 16 <= lenN cek ->
     exists out, key_wrap E cek = Ok out /\ key_unwrap D out = Ok cek) /\
  (forall iv cek, length iv = 8%nat -> iv <> default_iv -> lenN cek mod 8 = 0 -> 16 <= lenN cek ->
     exists out, key_wrap_iv E iv cek = Ok out /\ key_unwrap D out = Err e_wrap_icv).
Proof.
  intros HD HE. split; [exact (key_unwrap_wrap E D HD HE)|exact (key_unwrap_bad_icv E D HD HE)].
Qed.

(* The model that is run against the code transcribes the Go loops as written -- one step per t,
   block r[t%n] read and written in place (key_wrap_loop, key_unwrap_loop).  They ARE the six-pass
   functions of c16_keywrap, for every block function, initial value and input; hence the same
   round trip and ICV rejection hold for the loops. *)
Theorem c16_keywrap_loop E D :
  (forall iv cek, key_wrap_loop_iv E iv cek = key_wrap_iv E iv cek) /\
  (forall ct, key_unwrap_loop D ct = key_unwrap D ct) /\
  ((forall x, length x = 16%nat -> D (E x) = x) -> (forall x, length x = 16%nat -> length (E x) = 16%nat) ->
   forall cek, lenN cek mod 8 = 0 -> 16 <= lenN cek ->
     exists out, key_wrap_loop E cek = Ok out /\ key_unwrap_loop D out = Ok cek).
Proof.
  split; [exact (key_wrap_loop_eq E)|]. split; [exact (key_unwrap_loop_eq 24 D)|].
  intros HD HE cek Hm Hl. destruct (key_unwrap_wrap E D HD HE cek Hm Hl) as (out & E1 & E2).
  exists out. unfold key_wrap_loop, key_unwrap_loop. rewrite key_wrap_loop_eq, key_unwrap_loop_eq. auto.
Qed.

(* the ICV the code checks against is RFC 3394's A6A6A6A6A6A6A6A6 (regenerated from the source) *)
Theorem c16_keywrap_icv : default_iv = [166; 166; 166; 166; 166; 166; 166; 166].
Proof. reflexivity. Qed.

(* ---------------------------------------------------------------- fixed-width integers (asymmetric.go, jwk.go) *)
(* ECDSA r || s has exactly 2*keyBytes bytes and splits back into r and s, for all values below
   256^keyBytes, leading zero bytes included; EC coordinates likewise *)
Theorem c16_fixed_width :
  (forall r s kb, r < 256 ^ kb -> s < 256 ^ kb ->
     exists sig, ecdsa_sig r s kb = Ok sig /\ lenN sig = 2 * kb /\ ecdsa_split sig kb = Ok (r, s)) /\
  (forall x size, x < 256 ^ size ->
     exists out, fixed_size (be_bytes x) size = Ok out /\ lenN out = size /\ be_val out = x) /\
  (forall n, be_val (be_bytes n) = n).
Proof. split; [exact ecdsa_sig_split|]. split; [exact coordinate_fixed|exact be_val_be_bytes]. Qed.

(* ---------------------------------------------------------------- algorithm / key glue (signing.go, symmetric.go, asymmetric.go) *)
(* SWEEP over 5 key kinds x the 12 algorithm names regenerated from shared.go: Sign accepts exactly
   RFC 7518's pairs (HS* / byte key, RS* PS* / RSA key, ES256 ES384 ES512 / P-256 P-384 P-521) with
   signature lengths 32 48 64 (HMAC) and 64 96 132 (ECDSA); an ES algorithm on another curve is
   the curve error, everything else the unsupported-algorithm error; unknown names are rejected *)
Theorem c16_glue_sign_table :
  map fst sigalg_names =
    [[72; 83; 50; 53; 54]; [72; 83; 51; 56; 52]; [72; 83; 53; 49; 50];
     [82; 83; 50; 53; 54]; [82; 83; 51; 56; 52]; [82; 83; 53; 49; 50];
     [80; 83; 50; 53; 54]; [80; 83; 51; 56; 52]; [80; 83; 53; 49; 50];
     [69; 83; 50; 53; 54]; [69; 83; 51; 56; 52]; [69; 83; 53; 49; 50]] /\
  flat_map (fun k => flat_map (fun n => match sign_decide k n with
                                        | Ok len => [(kind_code k, n, len)] | _ => [] end) all_names) all_kinds =
    [(0, [72; 83; 50; 53; 54], 32); (0, [72; 83; 51; 56; 52], 48); (0, [72; 83; 53; 49; 50], 64);
     (1, [82; 83; 50; 53; 54], 0); (1, [82; 83; 51; 56; 52], 0); (1, [82; 83; 53; 49; 50], 0);
     (1, [80; 83; 50; 53; 54], 0); (1, [80; 83; 51; 56; 52], 0); (1, [80; 83; 53; 49; 50], 0);
     (256, [69; 83; 50; 53; 54], 64); (384, [69; 83; 51; 56; 52], 96); (521, [69; 83; 53; 49; 50], 132)] /\
  (forall k name sl, sigalg_of_name name = None ->
     sign_decide k name = Err e_alg /\ verify_decide k name sl = Err e_alg).
Proof. split; [exact sigalg_names_rfc7518|]. split; [exact sign_table|exact sigalg_unknown]. Qed.

(* fixed width in sign AND verify: on an EC key Sign takes only the algorithm of that curve and
   emits 2*keyBytes bytes; Verify accepts exactly 2*keySize bytes (longer and shorter rejected);
   keySize of the algorithm = keyBytes of its curve, so what Sign emits passes Verify's glue and
   splits back into r and s; and the split succeeds on no other length *)
Theorem c16_glue_ecdsa :
  (forall bits name n, sign_decide (KEc bits) name = Ok n ->
     exists a, sigalg_of_name name = Some a /\ es_bits a = Some bits /\ n = 2 * ec_key_bytes bits) /\
  (forall bits name sl, verify_decide (KEc bits) name sl = Ok tt <->
     exists a ks, sigalg_of_name name = Some a /\ es_keysize a = Some ks /\ sl = 2 * ks) /\
  (forall a bits, es_bits a = Some bits -> es_keysize a = Some (ec_key_bytes bits)) /\
  (forall a bits ks r s, es_bits a = Some bits -> es_keysize a = Some ks -> r < 256 ^ ks -> s < 256 ^ ks ->
     exists sig, ecdsa_sig r s (ec_key_bytes bits) = Ok sig /\ lenN sig = 2 * ks /\ ecdsa_split sig ks = Ok (r, s)) /\
  (forall sig ks, (exists rs, ecdsa_split sig ks = Ok rs) <-> lenN sig = 2 * ks).
Proof.
  split; [exact sign_ec_spec|]. split; [exact verify_ec_spec|]. split; [exact es_consistency|].
  split; [exact es_sign_verify_width|exact ecdsa_split_ok_iff].
Qed.

(* whatever Sign's glue accepts, Verify's glue accepts for the same kind of key (for ECDSA: at
   exactly the emitted length) *)
Theorem c16_glue_sign_then_verify k name n :
  sign_decide k name = Ok n ->
  match k with KEc _ => verify_decide k name n = Ok tt | _ => forall sl, verify_decide k name sl = Ok tt end.
Proof. exact (sign_then_verify k name n). Qed.

(* observation, as the code is: the EC verifier checks the signature length against the
   algorithm, not the curve of the key it was given *)
Theorem c16_glue_verify_ignores_curve :
  verify_decide (KEc 256) (bytes_of_string Gen.Gen_jose.jose_ES384_str) 96 = Ok tt.
Proof. exact verify_ignores_curve. Qed.

(* RFC 7638 member order and punctuation: e, kty, n and crv, kty, x, y with fixed-width x, y *)
Theorem c16_thumbprint_template :
  (forall e n, rsa_thumb_input e n =
     t_rsa_1 ++ b64url_encode (buffer_from_int e) ++ t_rsa_2 ++ b64url_encode (be_bytes n) ++ t_end) /\
  (forall crv x y size, x < 256 ^ size -> y < 256 ^ size ->
     exists xb yb, ec_thumb_input crv x y size =
       Ok (t_ec_1 ++ crv ++ t_ec_2 ++ b64url_encode xb ++ t_ec_3 ++ b64url_encode yb ++ t_end) /\
       lenN xb = size /\ lenN yb = size /\ be_val xb = x /\ be_val yb = y).
Proof. split; [exact rsa_thumb_template|exact ec_thumb_template]. Qed.

(* ---------------------------------------------------------------- Concat KDF / ECDH-ES (cipher/concat_kdf.go, ecdh_es.go) *)
(* the KDF's OtherInfo (length-prefixed AlgorithmID, PartyUInfo, PartyVInfo, 32-bit output
   length in bits) determines its four components; successive rounds hash different inputs
   (32-bit big-endian counter first, starting at 1); a key not longer than one hash output is
   the first [size] bytes of H(00000001 || Z || OtherInfo) *)
Theorem c16_kdf_layout :
  (forall alg apu apv size alg' apu' apv' size',
     lenN alg < 4294967296 -> lenN apu < 4294967296 -> lenN apv < 4294967296 ->
     lenN alg' < 4294967296 -> lenN apu' < 4294967296 -> lenN apv' < 4294967296 ->
     size < 536870912 -> size' < 536870912 ->
     kdf_info alg apu apv size = kdf_info alg' apu' apv' size' ->
     alg = alg' /\ apu = apu' /\ apv = apv' /\ size = size') /\
  (forall i j z info, i < 4294967296 -> j < 4294967296 ->
     kdf_round_input i z info = kdf_round_input j z info -> i = j) /\
  (forall H z info size fuel, 0 < size -> size <= lenN (H (kdf_round_input 1 z info)) ->
     kdf_read H (S fuel) 1 z info size = firstn (N.to_nat size) (H (kdf_round_input 1 z info))).
Proof.
  split; [exact kdf_info_injective|]. split; [exact kdf_round_input_injective|exact kdf_read_one_round].
Qed.

(* ---------------------------------------------------------------- ACME (https/acme/jws.go, crypto.go) *)
(* key authorization = token '.' base64url(thumbprint): splitting at the dot recovers both parts
   (tokens are base64url text and contain no dot), so it determines token and thumbprint *)
Theorem c16_acme_key_authorization :
  (forall token thumb, no_dot token -> split_dot (key_authorization token thumb) = [token; b64url_encode thumb]) /\
  (forall t th t' th', no_dot t -> no_dot t' -> wf_bytes th -> wf_bytes th' ->
     key_authorization t th = key_authorization t' th' -> t = t' /\ th = th').
Proof. split; [exact key_authorization_split|exact key_authorization_injective]. Qed.

(* the request signContent/post sends (flattened JSON of a JWS whose PROTECTED header carries alg,
   the account jwk and the nonce; encoding/json of the header as an oracle pair): it parses back to
   the content and one signature over exactly those protected bytes; the merged header yields the
   nonce, alg and jwk that were signed; and a request with any other nonce has another signing input *)
Theorem c16_acme_request hdr_enc hdr_dec sign :
  (forall h, hdr_dec (hdr_enc h) = Some h) -> (forall h, wf_bytes (hdr_enc h) /\ hdr_enc h <> []) ->
  (forall m, wf_bytes (sign m)) ->
  forall alg jwk nonce content, wf_bytes content ->
  let h := acme_header alg jwk nonce in
  let s := {| ps_prot := hdr_enc h; ps_phdr := Some h; ps_hdr := None; ps_sig := sign (signing_input (hdr_enc h) content) |} in
  parse_jws_full hdr_dec (jws_full (acme_request hdr_enc sign alg jwk nonce content)) = Ok (content, [s]) /\
  hget (psig_merged s) n_nonce = nonce /\ hget (psig_merged s) n_alg = alg /\ hget (psig_merged s) n_jwk = jwk /\
  (forall nonce', nonce' <> nonce ->
     signing_input (hdr_enc (acme_header alg jwk nonce')) content <> signing_input (hdr_enc h) content).
Proof.
  intros R W S alg jwk nonce content Wc h s.
  split; [exact (acme_request_parses hdr_enc hdr_dec R W sign S alg jwk nonce content Wc)|].
  destruct (acme_merged_fields hdr_enc alg jwk nonce) as (A & B & C).
  unfold s, psig_merged in *. cbn [ps_phdr ps_hdr] in *. repeat split; try assumption.
  intros n' NE. exact (acme_nonce_bound hdr_enc hdr_dec R W alg jwk nonce n' content Wc NE).
Qed.

(* ECDH-ES family, decrypt side (ecDecrypterSigner.decryptKey): which header member feeds which KDF
   field.  Exactly the four algorithm names of the family are accepted; PartyUInfo is the header's
   apu and PartyVInfo its apv, AS GIVEN and in that order; direct agreement names the key by enc
   and takes the content cipher's key size, the key-wrapping variants name it by alg with 16/24/32
   bytes; and two headers that differ in apu or in apv hash different OtherInfo (so an object from
   a producer that sets them decrypts only if both are used, each in its own field). *)
Theorem c16_ecdh_kdf_plumbing :
  (forall h ks, (exists p, ecdh_derive_input h ks = Ok p) <->
     (eh_alg h = name_ECDH_ES \/ eh_alg h = name_ECDH_ES_A128KW \/ eh_alg h = name_ECDH_ES_A192KW \/
      eh_alg h = name_ECDH_ES_A256KW)) /\
  (forall h ks id u v n, ecdh_derive_input h ks = Ok (id, u, v, n) ->
     u = eh_apu h /\ v = eh_apv h /\
     ((eh_alg h = name_ECDH_ES /\ id = eh_enc h /\ n = ks) \/
      (id = eh_alg h /\ ((eh_alg h = name_ECDH_ES_A128KW /\ n = 16) \/ (eh_alg h = name_ECDH_ES_A192KW /\ n = 24) \/
                         (eh_alg h = name_ECDH_ES_A256KW /\ n = 32))))) /\
  (forall alg enc u v u' v' ks oi,
     lenN alg < 4294967296 -> lenN enc < 4294967296 ->
     lenN u < 4294967296 -> lenN v < 4294967296 -> lenN u' < 4294967296 -> lenN v' < 4294967296 -> ks < 536870912 ->
     ecdh_otherinfo {| eh_alg := alg; eh_enc := enc; eh_apu := u; eh_apv := v |} ks = Ok oi ->
     ecdh_otherinfo {| eh_alg := alg; eh_enc := enc; eh_apu := u'; eh_apv := v' |} ks = Ok oi ->
     u = u' /\ v = v').
Proof. split; [exact ecdh_family_accepted|]. split; [exact ecdh_derive_input_spec|exact ecdh_otherinfo_injective]. Qed.

(* ---------------------------------------------------------------- end to end, primitives idealised *)
(* IDEALISATION (hypothesis ideal): under the right key exactly the produced (signing input,
   signature) pair verifies.  Then sign -> CompactSerialize -> ParseSigned -> Verify returns the
   payload, and ANY other triple of decoded fields (protected, payload, signature) -- in
   particular every single-bit flip of any of them -- makes Verify return an error; a key under
   which nothing verifies gives an error. *)
Theorem c16_roundtrip_sym_jws verify prot payload sig :
  wf_bytes prot -> wf_bytes payload -> wf_bytes sig ->
  (forall m s, verify m s = true <-> m = signing_input prot payload /\ s = sig) ->
  bind (parse_jws_compact (jws_compact {| js_prot := prot; js_payload := payload; js_sig := sig |}) true)
       (jws_verify verify) = Ok payload.
Proof. exact (jws_roundtrip verify prot payload sig). Qed.

Theorem c16_tamper_sym_jws verify prot payload sig :
  wf_bytes prot -> wf_bytes payload ->
  (forall m s, verify m s = true <-> m = signing_input prot payload /\ s = sig) ->
  forall o', wf_jws o' -> o' <> {| js_prot := prot; js_payload := payload; js_sig := sig |} ->
  jws_verify verify o' = Err e_crypto.
Proof. exact (jws_tamper verify prot payload sig). Qed.

Theorem c16_other_key_jws verify_other :
  (forall m s, verify_other m s = false) -> forall o', jws_verify verify_other o' = Err e_crypto.
Proof. exact (jws_other_key verify_other). Qed.

(* IDEALISATION: only the produced encrypted key unwraps (to the content key), and under the
   content key exactly the produced (IV, ciphertext||tag, AAD) opens (to the plaintext); the
   primitives do not panic on a nonce of the right size.  Then encrypt -> CompactSerialize ->
   ParseEncrypted -> Decrypt returns the plaintext; any change of protected header, encrypted
   key, IV, AAD or of ciphertext||tag gives an error, never a panic.  (For dir and ECDH-ES the
   unwrap step is c16_direct_key_management: the encrypted key must be empty.) *)
Theorem c16_roundtrip_sym_jwe unwrapk open ns prot ek iv ct tag aad cek plaintext :
  wf_jwe {| je_prot := prot; je_key := ek; je_iv := iv; je_ct := ct; je_tag := tag |} ->
  prot <> [] -> lenN iv = ns ->
  (forall k c, unwrapk k = Ok c <-> k = ek /\ c = cek) ->
  (forall i c a p, open cek i c a = Ok p <-> i = iv /\ c = ct ++ tag /\ a = aad_input prot aad /\ p = plaintext) ->
  bind (parse_jwe_compact (jwe_compact {| je_prot := prot; je_key := ek; je_iv := iv; je_ct := ct; je_tag := tag |}) 1)
       (fun o' => jwe_decrypt unwrapk open ns o' aad) = Ok plaintext.
Proof. exact (jwe_roundtrip unwrapk open ns prot ek iv ct tag aad cek plaintext). Qed.

Theorem c16_tamper_sym_jwe unwrapk open ns prot ek iv ct tag aad cek plaintext :
  wf_jwe {| je_prot := prot; je_key := ek; je_iv := iv; je_ct := ct; je_tag := tag |} ->
  (forall k c, unwrapk k = Ok c <-> k = ek /\ c = cek) ->
  (forall k s, unwrapk k <> Panic s) ->
  (forall i c a p, open cek i c a = Ok p <-> i = iv /\ c = ct ++ tag /\ a = aad_input prot aad /\ p = plaintext) ->
  (forall k i c a s, lenN i = ns -> open k i c a <> Panic s) ->
  wf_aad aad ->
  (forall o' aad', wf_bytes (je_prot o') -> wf_aad aad' ->
     je_prot o' <> prot \/ je_key o' <> ek \/ je_iv o' <> iv \/ je_ct o' ++ je_tag o' <> ct ++ tag \/ aad' <> aad ->
     jwe_decrypt unwrapk open ns o' aad' = Err e_crypto) /\
  (* field-wise form (bit flips keep lengths): any different quintuple with a ciphertext of the same length *)
  (forall o', wf_bytes (je_prot o') -> length (je_ct o') = length ct ->
     o' <> {| je_prot := prot; je_key := ek; je_iv := iv; je_ct := ct; je_tag := tag |} ->
     jwe_decrypt unwrapk open ns o' aad = Err e_crypto).
Proof.
  intros W U UT O OT WA. split.
  - exact (jwe_tamper unwrapk open ns prot ek iv ct tag aad cek plaintext W U UT O OT WA).
  - exact (jwe_tamper_fields unwrapk open ns prot ek iv ct tag aad cek plaintext W U UT O OT WA).
Qed.

(* dir and ECDH-ES (fix 0437f8a): the key-management step is "the encrypted key must be empty";
   it satisfies the unwrap idealisation outright, so c16_roundtrip_sym_jwe / c16_tamper_sym_jwe
   apply to those modes with ek = [] -- in particular ADDING an encrypted key is rejected *)
Theorem c16_direct_key_management cek :
  (forall k c, unwrap_direct cek k = Ok c <-> k = [] /\ c = cek) /\ (forall k s, unwrap_direct cek k <> Panic s).
Proof. split; [exact (unwrap_direct_ideal cek)|exact (unwrap_direct_total cek)]. Qed.

(* The CBC-HMAC AEAD itself, built on an idealised MAC only (the only valid (message, tag) pair
   under the MAC key is the produced one): Open succeeds only on the produced AAD, IV,
   ciphertext and tag -- the tag is compared over its full length and covers all three. *)
Theorem c16_tamper_cbc_hmac hm cbcdec tb aad0 iv0 ct0 tag0 :
  lenN aad0 < 2305843009213693952 ->
  (forall m t, tag_of (hm m) tb = Ok t -> m = mac_input aad0 iv0 ct0 /\ t = tag0) ->
  forall aad iv ct tag p,
  length iv = length iv0 -> lenN tag = tb -> lenN tag0 = tb -> lenN aad < 2305843009213693952 ->
  cbc_open hm cbcdec tb iv (ct ++ tag) aad = Ok p ->
  aad = aad0 /\ iv = iv0 /\ ct = ct0 /\ tag = tag0.
Proof. exact (cbc_tamper hm cbcdec tb aad0 iv0 ct0 tag0). Qed.

(* documented non-change: ciphertext and tag are concatenated before the AEAD sees them, so
   moving the boundary between the two members (not a bit flip) is the same input *)
Theorem c16_ct_tag_boundary unwrapk open ns p k i c t x a :
  jwe_decrypt unwrapk open ns {| je_prot := p; je_key := k; je_iv := i; je_ct := c ++ [x]; je_tag := t |} a =
  jwe_decrypt unwrapk open ns {| je_prot := p; je_key := k; je_iv := i; je_ct := c; je_tag := x :: t |} a.
Proof. exact (jwe_ct_tag_boundary unwrapk open ns p k i c t x a). Qed.

(* ---------------------------------------------------------------- histories on one object *)
(* In the model a signed / encrypted object is a persistent value.  Whatever operation is applied
   -- Verify / Decrypt with the right or a wrong key, CompactSerialize, FullSerialize, parse and
   use, the caller overwriting the slices it passed in or got back -- the objects are unchanged;
   hence every result of a history is a function of the objects as created and of that one
   operation: all serializations of an object are identical, and the right key returns exactly
   the payload every time.  (Trivial here; the harness runs the same histories on the
   implementation, kind 30, where aliasing between the object, the caller's slices and the
   primitives' buffers would break exactly this.) *)
Theorem c16_history_persistent :
  (forall objs op, fst (hist_step objs op) = objs) /\
  (forall objs ops, hist_run objs ops = map (fun op => snd (hist_step objs op)) ops) /\
  (forall o, hist_obs o 3 = SL [SZ 3; SZ 0; SB (hobj_payload o)] /\
             hist_obs o 4 = SL [SZ 4; SZ 1] /\
             hist_obs o 1 = SL [SZ 1; SB (hobj_compact o)] /\
             hist_obs o 2 = SL (SZ 2 :: hobj_members o) /\
             hist_obs o 6 = SL [SZ 6; SZ 0; SB (hobj_payload o)] /\
             hist_obs o 10 = SL [SZ 10; SZ 0; SB (hobj_payload o); SZ 0; SB (hobj_payload o)] /\
             hist_obs o 11 = SL [SZ 11; SZ 1; SZ 0; SB (hobj_payload o)]).
Proof. split; [exact hist_step_persistent|]. split; [exact hist_run_pointwise|exact hist_obs_spec]. Qed.

(* ---------------------------------------------------------------- totality (imported by C07) *)
Theorem jose_b64_total s : forall p, b64url_decode_r s <> Panic p.
Proof. exact (b64url_decode_r_total s). Qed.

Theorem jose_unpad_total b bs : forall p, unpad_buffer b bs <> Panic p.
Proof. exact (unpad_total b bs). Qed.

Theorem jose_keyunwrap_total D ct : forall p, key_unwrap D ct <> Panic p.
Proof. exact (key_unwrap_total D ct). Qed.

Theorem jose_compact_parse_total :
  (forall s j p, parse_jws_compact s j <> Panic p) /\ (forall s h p, parse_jwe_compact s h <> Panic p).
Proof. split; [exact parse_jws_compact_total|exact parse_jwe_compact_total]. Qed.

(* aeadContentCipher.decrypt: the stdlib AEAD precondition len(iv) = NonceSize is established by
   the guard, so decrypt never panics, for every IV the peer sends; instance for CBC-HMAC *)
Theorem jose_aead_decrypt_total ns open iv ct tag aad :
  (forall i c a s, lenN i = ns -> open i c a <> Panic s) ->
  forall s, aead_decrypt ns open iv ct tag aad <> Panic s.
Proof. exact (aead_decrypt_total ns open iv ct tag aad). Qed.

Theorem jose_cbc_decrypt_total hm cbcdec tb iv ct tag aad :
  (forall m, tb <= lenN (hm m)) ->
  forall s, aead_decrypt block_size (cbc_open hm cbcdec tb) iv ct tag aad <> Panic s.
Proof. exact (cbc_decrypt_total hm cbcdec tb iv ct tag aad). Qed.

Theorem jose_ecdsa_split_total sig ks : forall s, ecdsa_split sig ks <> Panic s.
Proof. exact (ecdsa_split_total sig ks). Qed.

(* ---------------------------------------------------------------- the code before the fixes *)
(* each guard is necessary: without it the model reaches the panic the harness reproduced on
   the pinned tree (fix commits 6f35876, ef84a03, 958d470) *)
Theorem c16_unpad_unguarded_refuted : unpad_buffer_g false [] 16 = Panic 1.
Proof. exact unpad_unguarded_refuted. Qed.
Theorem c16_keyunwrap_unguarded_refuted D :
  key_unwrap_g 0 D [] = Panic 7 /\ key_unwrap_g 0 D default_iv = Ok [].
Proof. split; [exact (key_unwrap_unguarded_refuted D)|exact (key_unwrap_unguarded_bare_icv D)]. Qed.
Theorem c16_nonce_unguarded_refuted :
  aead_decrypt_g false 12 (fun _ _ _ => Ok []) (repeatN 0 11) [] [] [] = Panic 6 /\
  cbc_open (fun _ => repeatN 0 32) (fun _ x => x) 16 [1; 2; 3] (repeatN 0 16) [] = Panic 5.
Proof. split; [exact aead_decrypt_unguarded_refuted|exact cbc_open_short_nonce_panics]. Qed.

(* ---------------------------------------------------------------- non-vacuity *)
(* RFC 7515 A.1 header and a payload: the compact text parses back; RFC 3394 4.1 vector shape:
   a 16-byte key under the identity "cipher" wraps to 24 bytes and unwraps *)
Example c16_compact_nonvacuous :
  let o := {| js_prot := [123; 34; 97; 108; 103; 34; 58; 34; 72; 83; 50; 53; 54; 34; 125];
              js_payload := [0; 255; 16]; js_sig := [1; 2; 3; 4; 5] |} in
  wf_jws o /\ parse_jws_compact (jws_compact o) true = Ok o /\
  jws_compact o = [101; 121; 74; 104; 98; 71; 99; 105; 79; 105; 74; 73; 85; 122; 73; 49; 78; 105; 74; 57; 46;
                   65; 80; 56; 81; 46; 65; 81; 73; 68; 66; 65; 85].
Proof. vm_compute. repeat split; repeat constructor. Qed.

Example c16_keywrap_nonvacuous :
  let E := fun x : bytes => x in
  (forall x, length x = 16%nat -> E (E x) = x) /\
  key_unwrap E (match key_wrap E (repeatN 7 16) with Ok o => o | _ => [] end) = Ok (repeatN 7 16) /\
  lenN (match key_wrap E (repeatN 7 16) with Ok o => o | _ => [] end) = 24.
Proof. split; [reflexivity|]. vm_compute. auto. Qed.

Example c16_pkcs7_nonvacuous :
  pad_buffer [1; 2; 3] 16 = [1; 2; 3; 13; 13; 13; 13; 13; 13; 13; 13; 13; 13; 13; 13; 13] /\
  pad_buffer (repeatN 9 16) 16 = repeatN 9 16 ++ repeatN 16 16 /\
  unpad_buffer [1; 2; 3; 13; 13; 13; 13; 13; 13; 13; 13; 13; 13; 13; 13; 12] 16 = Err e_pad.
Proof. vm_compute. auto. Qed.

Example c16_fixed_width_nonvacuous :
  ecdsa_sig 1 258 4 = Ok [0; 0; 0; 1; 0; 0; 1; 2] /\ ecdsa_split [0; 0; 0; 1; 0; 0; 1; 2] 4 = Ok (1, 258).
Proof. vm_compute. auto. Qed.

Print Assumptions c16_b64.
Print Assumptions c16_b64_unpadded.
Print Assumptions c16_compact_jws.
Print Assumptions c16_compact_jwe.
Print Assumptions c16_json_members.
Print Assumptions c16_json_jws.
Print Assumptions c16_json_jwe.
Print Assumptions c16_header_merge.
Print Assumptions c16_multi_signature.
Print Assumptions c16_acme_key_authorization.
Print Assumptions c16_acme_request.
Print Assumptions c16_compact_part_count.
Print Assumptions c16_verifier_signing_input.
Print Assumptions c16_signing_input_injective.
Print Assumptions c16_aad_injective.
Print Assumptions c16_mac_input_injective.
Print Assumptions c16_pkcs7.
Print Assumptions c16_cbc_seal_open.
Print Assumptions c16_keywrap.
Print Assumptions c16_keywrap_loop.
Print Assumptions c16_keywrap_icv.
Print Assumptions c16_glue_sign_table.
Print Assumptions c16_glue_ecdsa.
Print Assumptions c16_glue_sign_then_verify.
Print Assumptions c16_glue_verify_ignores_curve.
Print Assumptions c16_direct_key_management.
Print Assumptions c16_fixed_width.
Print Assumptions c16_thumbprint_template.
Print Assumptions c16_kdf_layout.
Print Assumptions c16_ecdh_kdf_plumbing.
Print Assumptions c16_roundtrip_sym_jws.
Print Assumptions c16_tamper_sym_jws.
Print Assumptions c16_other_key_jws.
Print Assumptions c16_roundtrip_sym_jwe.
Print Assumptions c16_tamper_sym_jwe.
Print Assumptions c16_tamper_cbc_hmac.
Print Assumptions c16_ct_tag_boundary.
Print Assumptions c16_history_persistent.
Print Assumptions jose_b64_total.
Print Assumptions jose_unpad_total.
Print Assumptions jose_keyunwrap_total.
Print Assumptions jose_compact_parse_total.
Print Assumptions jose_aead_decrypt_total.
Print Assumptions jose_cbc_decrypt_total.
Print Assumptions jose_ecdsa_split_total.
Print Assumptions c16_unpad_unguarded_refuted.
Print Assumptions c16_keyunwrap_unguarded_refuted.
Print Assumptions c16_nonce_unguarded_refuted.
Print Assumptions c16_compact_nonvacuous.
Print Assumptions c16_keywrap_nonvacuous.
Print Assumptions c16_pkcs7_nonvacuous.
Print Assumptions c16_fixed_width_nonvacuous.
