(* C10 -- FLV audio/video tag bodies round-trip through the packagers.
   Property theorems only; every proof is `exact <lemma>` or a short composition.

   Vocabulary (Model/Flv.v): [audio_enc]/[audio_dec] and [video_enc]/[video_dec] are the
   packagers' Encode/Decode; [aframe] = (SoundFormat, SoundRate, SoundSize, SoundType, Trait,
   AudioLevel, Raw), [vframe] = (CodecID, FrameType, Trait, CTS, Raw).  aAAC/aOpus/tSR/tAL/
   vAVC/vHEVC and the rate tables come from the translator-generated Gen/Gen_flv.v.
   The sub-byte packing of the first byte is a genuine bit-or in the model; the statements
   about it are established by exhaustive evaluation over the whole finite domain. *)
From Verif Require Import Lib.Base Lib.Sx Model.Flv Proofs.Flv Proofs.FlvPack.
From Verif Require Import Gen.Gen_flv.
Open Scope N_scope.

(* The audio frames the round trip quantifies over, spelled out:
     a_fmt < 16, a_size < 2, a_type < 2 (the field widths), and
     AAC  : rate < 4, level = 0, any trait byte, any payload;
     Opus : rate is carried only in the optional rate byte -- with the SR flag any uint8 code
            (8/12/16/24/48 included), without it rate = 0; level likewise any uint16 with the
            AL flag and 0 without; any trait byte (all flag subsets), any payload;
     other: rate < 4, trait = 0, level = 0 (these formats have no such fields) and at least one
            payload byte (Decode refuses bodies shorter than 2 bytes). *)
Theorem c10_audio_rt f : wf_aframe f -> audio_dec (audio_enc f) = Ok f.
Proof. exact (audio_dec_enc f). Qed.

(* the unfolded guard, so that the statement can be read without Proofs/FlvPack.v *)
Theorem c10_audio_guard f :
  wf_aframe f <->
  a_fmt f < 16 /\ a_size f < 2 /\ a_type f < 2 /\
  (if a_fmt f =? aAAC then a_rate f < 4 /\ a_level f = 0
   else if a_fmt f =? aOpus then
     (if has_flag (a_trait f) tSR then a_rate f < 256 else a_rate f = 0) /\
     (if has_flag (a_trait f) tAL then a_level f < 65536 else a_level f = 0)
   else a_rate f < 4 /\ a_trait f = 0 /\ a_level f = 0 /\ a_raw f <> []).
Proof. reflexivity. Qed.

(* Video: all 16 x 16 (frame type, codec id); AVC/HEVC: any trait byte, 0 <= CTS < 2^24, any
   payload; other codecs: trait = 0, CTS = 0 and at least 4 payload bytes (Decode refuses
   bodies shorter than 5 bytes). *)
Theorem c10_video_rt f : wf_vframe f -> video_dec (video_enc f) = Ok f.
Proof. exact (video_dec_enc f). Qed.

Theorem c10_video_guard f :
  wf_vframe f <->
  v_ftype f < 16 /\ v_codec f < 16 /\
  (if is_avc_hevc (v_codec f) then (0 <= v_cts f < 16777216)%Z
   else v_trait f = 0 /\ v_cts f = 0%Z /\ 4 <= lenN (v_raw f)).
Proof. reflexivity. Qed.

(* outside the 24-bit range the composition time comes back reduced modulo 2^24 (the int32 is
   written as its low three bytes and not sign-extended on reading) -- for every int32 *)
Theorem c10_video_cts_mod cd ft tr cts raw : ft < 16 -> cd < 16 -> is_avc_hevc cd = true ->
  video_dec (video_enc (mk_vframe cd ft tr cts raw)) = Ok (mk_vframe cd ft tr (cts mod 16777216)%Z raw).
Proof. exact (video_dec_enc_cts cd ft tr cts raw). Qed.

(* The codec id and frame type readable in the body's first byte are the frame's:
   audio -- for every format, EVERY uint8 rate code (so no Opus rate can reach the format
   nibble), size and channel bit; the rate field reads rate mod 4, and 0 for Opus *)
Theorem c10_first_byte_audio f : a_fmt f < 16 -> a_rate f < 256 -> a_size f < 2 -> a_type f < 2 ->
  exists b rest, audio_enc f = b :: rest /\ b < 256 /\
    (b / 16) mod 16 = a_fmt f /\ (b / 2) mod 2 = a_size f /\ b mod 2 = a_type f /\
    (b / 4) mod 4 = (if a_fmt f =? aOpus then 0 else a_rate f mod 4).
Proof. exact (audio_first_byte f). Qed.

Theorem c10_first_byte_video f : v_ftype f < 16 -> v_codec f < 16 ->
  exists b rest, video_enc f = b :: rest /\ b < 256 /\ (b / 16) mod 16 = v_ftype f /\ b mod 16 = v_codec f.
Proof. exact (video_first_byte f). Qed.

(* Every canonical body the decoder accepts re-encodes to the same bytes.  Audio: canonical
   means that an Opus body keeps the two rate bits of its first byte (unused for Opus) zero;
   every other accepted byte string is canonical.  Video: every accepted body. *)
Theorem c10_canonical_reenc_audio b f :
  wf_bytes b -> canonical_abody b -> audio_dec b = Ok f -> audio_enc f = b.
Proof. exact (audio_enc_dec b f). Qed.

Theorem c10_canonical_reenc_video b f : wf_bytes b -> video_dec b = Ok f -> video_enc f = b.
Proof. exact (video_enc_dec b f). Qed.

(* Rate tables, over the bodies of ToHz/OpusToHz as translated from the source on this run:
   every defined code converts to the frequency its definition names, the codes are
   0..3 and 8/12/16/24/48 *)
Theorem c10_rates :
  (to_hz (cN flv_AudioSamplingRate5kHz) = Some 5512%Z /\
   to_hz (cN flv_AudioSamplingRate11kHz) = Some 11025%Z /\
   to_hz (cN flv_AudioSamplingRate22kHz) = Some 22050%Z /\
   to_hz (cN flv_AudioSamplingRate44kHz) = Some 44100%Z) /\
  (opus_to_hz (cN flv_AudioSamplingRateNB8kHz) = Some 8000%Z /\
   opus_to_hz (cN flv_AudioSamplingRateMB12kHz) = Some 12000%Z /\
   opus_to_hz (cN flv_AudioSamplingRateWB16kHz) = Some 16000%Z /\
   opus_to_hz (cN flv_AudioSamplingRateSWB24kHz) = Some 24000%Z /\
   opus_to_hz (cN flv_AudioSamplingRateFB48kHz) = Some 48000%Z) /\
  (flv_AudioSamplingRate5kHz, flv_AudioSamplingRate11kHz, flv_AudioSamplingRate22kHz, flv_AudioSamplingRate44kHz)
    = (0, 1, 2, 3)%Z /\
  (flv_AudioSamplingRateNB8kHz, flv_AudioSamplingRateMB12kHz, flv_AudioSamplingRateWB16kHz,
   flv_AudioSamplingRateSWB24kHz, flv_AudioSamplingRateFB48kHz) = (8, 12, 16, 24, 48)%Z.
Proof. exact (conj rates_flv (conj rates_opus rate_codes)). Qed.

(* the rate/channel helpers never panic over the whole uint8 range (None = index out of range) *)
Theorem c10_helpers_total v : v < 256 ->
  to_hz v <> None /\ opus_to_hz v <> None /\ rate_from v <> None /\ rate_opus_from v <> None
  /\ channels_from v <> None.
Proof. exact (helpers_total v). Qed.

(* the decoders never panic, on any input *)
Theorem flv_audio_dec_total bs x : wf_bytes bs -> audio_dec bs <> Panic x.
Proof. exact (FlvPack.flv_audio_dec_total bs x). Qed.
Theorem flv_video_dec_total bs x : wf_bytes bs -> video_dec bs <> Panic x.
Proof. exact (FlvPack.flv_video_dec_total bs x). Qed.

(* Histories on one AudioPackager / VideoPackager ([prun]: Encode and Decode calls in any
   order and mix of codecs, state passed along; the Go structs are empty): every result is a
   function of its own call, and the results of earlier calls are unaffected by later calls.
   Trivial in the model, where values are persistent -- the end-of-history correspondence run
   (all returned tags and frames kept, inputs mutated after the call, compared only after the
   last call) is what shows the implementation does not alias or reuse result storage. *)
Theorem c10_history_pointwise st ops : prun st ops = map (fun o => snd (pstep tt o)) ops.
Proof. exact (prun_map st ops). Qed.

Theorem c10_history_unaffected st ops later :
  firstn (length ops) (prun st (ops ++ later)) = prun st ops.
Proof. exact (prun_prefix st ops later). Qed.

(* The sharing Decode has today, stated exactly: the decoded Raw is the tail of the tag given
   to Decode (the Go code returns a sub-slice); what precedes it is [prefix_before].  A caller
   flipping the decoded Raw can therefore reach at most that tail of its own tag buffer. *)
Theorem c10_decode_raw_is_tail_audio b f :
  audio_dec b = Ok f -> b = prefix_before b (a_raw f) ++ a_raw f.
Proof. exact (audio_dec_raw_suffix b f). Qed.
Theorem c10_decode_raw_is_tail_video b f :
  video_dec b = Ok f -> b = prefix_before b (v_raw f) ++ v_raw f.
Proof. exact (video_dec_raw_suffix b f). Qed.

(* non-vacuity and regression witnesses *)
Example c10_audio_rt_example :
  let f := mk_aframe aOpus 24 1 1 14 513 [7; 8] in
  wf_aframe f /\ audio_enc f = [211; 14; 24; 2; 1; 7; 8].    (* d3: Opus stays format 13 *)
Proof. cbv zeta. split; [|vm_compute; reflexivity]. vm_compute. repeat split; discriminate || reflexivity. Qed.

Example c10_video_rt_example :
  let f := mk_vframe vHEVC 1 1 16777215%Z [9] in wf_vframe f /\ video_enc f = [28; 1; 255; 255; 255; 9].
Proof. cbv zeta. split; [|vm_compute; reflexivity]. vm_compute. repeat split; discriminate || reflexivity. Qed.

(* the guards are needed: short bodies of the other formats are refused, not mis-decoded *)
Example c10_short_bodies_refused :
  audio_dec (audio_enc (mk_aframe 2 3 1 1 0 0 [])) = Err eDataNotEnough /\
  video_dec (video_enc (mk_vframe 2 1 0 0%Z [1; 2; 3])) = Err eDataNotEnough.
Proof. split; vm_compute; reflexivity. Qed.

(* a non-canonical Opus body (rate bits set) decodes but re-encodes with the bits cleared *)
Example c10_noncanonical_opus :
  exists f, audio_dec [215; 0; 5] = Ok f /\ audio_enc f = [211; 0; 5].
Proof. eexists. split; vm_compute; reflexivity. Qed.

Print Assumptions c10_audio_rt.
Print Assumptions c10_audio_guard.
Print Assumptions c10_video_rt.
Print Assumptions c10_video_guard.
Print Assumptions c10_video_cts_mod.
Print Assumptions c10_first_byte_audio.
Print Assumptions c10_first_byte_video.
Print Assumptions c10_canonical_reenc_audio.
Print Assumptions c10_canonical_reenc_video.
Print Assumptions c10_history_pointwise.
Print Assumptions c10_history_unaffected.
Print Assumptions c10_decode_raw_is_tail_audio.
Print Assumptions c10_decode_raw_is_tail_video.
Print Assumptions c10_rates.
Print Assumptions c10_helpers_total.
Print Assumptions flv_audio_dec_total.
Print Assumptions flv_video_dec_total.
Print Assumptions c10_audio_rt_example.
Print Assumptions c10_video_rt_example.
Print Assumptions c10_short_bodies_refused.
Print Assumptions c10_noncanonical_opus.
