(* C12 -- AVC record, sample, NALU (stub; theorems follow) *)
From Verif Require Import Lib.Base Lib.Sx Lib.Bitfield Model.Avc.
Open Scope N_scope.

Theorem c12_stub : nalu_unmarshal [] = Err 1.
Proof. reflexivity. Qed.

Print Assumptions c12_stub.
