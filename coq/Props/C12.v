(* C12 -- AVC configuration records, samples and NAL units round-trip in ISO layout.
   Property theorems only; every proof is `exact <lemma>` or a short composition.

   Model: Model/Avc.v (transcribed from avc/avc.go after the fixes 44286ef reserved bits and
   cd951da sample length check).  Vocabulary:
     nalu = (nal_ref_idc, nal_unit_type, payload);  nalu_marshal / nalu_unmarshal
     sample_marshal lsm1 ns / sample_unmarshal lsm1 have data    AVCSample with lengthSizeMinusOne = lsm1;
                     [have] = the NALUs already in the receiver; result (NALUs afterwards, Ok tt | Err code)
     rec_marshal r / rec_unmarshal st data                      AVCDecoderConfigurationRecord; [st] = the receiver before
     spec_nalu_bytes, spec_record, spec_sample                   independent ISO/IEC 14496-10 7.3.1 and 14496-15
                     5.2.4.1.1 / 5.3.4.2 writers given as (value, width) bit-field tables (Model/Avc.v); parameter
                     sets and NAL units are opaque byte strings there
     split_nalu b    the (ref, type, payload) reading of NAL unit bytes b, forbidden bit dropped *)
From Verif Require Import Lib.Base Lib.Sx Lib.Bitfield Model.Avc Proofs.AacBits Proofs.Avc.
From Verif Require Import Gen.Gen_avc.
Open Scope N_scope.

(* NAL units, all 256 header bytes b and any payload: the reader takes nal_ref_idc from bits
   6..5 and nal_unit_type from bits 4..0; re-marshalling clears exactly the forbidden_zero_bit,
   so the encoding is reproduced (is canonical) iff that bit is 0.  The empty string is refused. *)
Theorem c12_nalu b d :
  b < 256 ->
  nalu_unmarshal (b :: d) = Ok (mk_nalu ((b / 32) mod 4) (b mod 32) d) /\
  nalu_marshal (mk_nalu ((b / 32) mod 4) (b mod 32) d) = (b mod 128) :: d /\
  (nalu_marshal (mk_nalu ((b / 32) mod 4) (b mod 32) d) = b :: d <-> b < 128).
Proof.
  intros H. split; [reflexivity|].
  assert (E : nalu_marshal (mk_nalu ((b / 32) mod 4) (b mod 32) d) = (b mod 128) :: d).
  { rewrite nalu_marshal_eq. cbn [nref ntype ndata]. rewrite reenc_byte by exact H. reflexivity. }
  split; [exact E|]. rewrite E. split.
  - intros Q. inversion Q as [Q']. pose proof (N.mod_upper_bound b 128). lia.
  - intros Q. rewrite N.mod_small by exact Q. reflexivity.
Qed.

Theorem c12_nalu_empty : nalu_unmarshal [] = Err 1.
Proof. reflexivity. Qed.

(* every NAL unit value (ref < 4, type < 32, any payload) round-trips, and its bytes are the ISO
   14496-10 7.3.1 layout forbidden_zero_bit(1)=0, nal_ref_idc(2), nal_unit_type(5), payload *)
Theorem c12_nalu_rt n :
  nref n < 4 -> ntype n < 32 ->
  nalu_unmarshal (nalu_marshal n) = Ok n /\ nalu_marshal n = spec_nalu_bytes n.
Proof.
  intros Hr Ht. split; [apply nalu_rt; split; assumption|]. symmetry. apply spec_nalu_is_marshal. split; assumption.
Qed.

(* Samples: for each NAL length size 1..4 (lsm1 = 0..3) and every list of NAL units whose
   size 1 + |payload| is below 256^(lsm1+1): the marshalled sample is the ISO 5.3.4.2 layout
   (big-endian NALUnitLength of lsm1+1 bytes before each unit) and unmarshalling it appends
   exactly those units to the receiver's list (fresh receiver: have = []). *)
Theorem c12_sample_rt lsm1 ns have :
  lsm1 < 4 ->
  Forall (fun n => (nref n < 4 /\ ntype n < 32) /\ 1 + lenN (ndata n) < 256 ^ (lsm1 + 1)) ns ->
  sample_marshal lsm1 ns = spec_sample lsm1 (map spec_nalu_bytes ns) /\
  sample_unmarshal lsm1 have (sample_marshal lsm1 ns) = (have ++ ns, Ok tt).
Proof.
  intros Hl Hns. split; [exact (sample_marshal_spec lsm1 ns Hl Hns)|exact (sample_rt lsm1 ns have Hl Hns)].
Qed.

(* a conformant sample written by the independent writer (units non-empty, shorter than
   256^(lsm1+1)) is read back unit by unit *)
Theorem c12_sample_iso_read lsm1 nbs have :
  lsm1 < 4 -> Forall (fun nb => nb <> [] /\ lenN nb < 256 ^ (lsm1 + 1)) nbs ->
  sample_unmarshal lsm1 have (spec_sample lsm1 nbs) = (have ++ map split_nalu nbs, Ok tt).
Proof.
  intros Hl Hn. unfold sample_unmarshal. replace (u8 lsm1) with lsm1 by (unfold u8; lia).
  rewrite (sample_read_spec lsm1 nbs Hl Hn) by lia. rewrite rev_involutive. reflexivity.
Qed.

(* ... and a canonical sample (every unit non-empty, forbidden_zero_bit 0, shorter than 256^(lsm1+1))
   is reproduced by marshalling what it unmarshals to *)
Theorem c12_sample_canonical_reenc lsm1 (nbs : list bytes) :
  lsm1 < 4 -> Forall (fun nb => exists x t, nb = x :: t /\ x < 128 /\ lenN nb < 256 ^ (lsm1 + 1)) nbs ->
  sample_unmarshal lsm1 [] (spec_sample lsm1 nbs) = (map split_nalu nbs, Ok tt) /\
  sample_marshal lsm1 (map split_nalu nbs) = spec_sample lsm1 nbs.
Proof.
  intros Hl F. split; [|exact (sample_canonical_reenc lsm1 nbs Hl F)].
  unfold sample_unmarshal. replace (u8 lsm1) with lsm1 by (unfold u8; lia).
  rewrite sample_read_spec; [reflexivity|exact Hl| |lia].
  eapply Forall_impl; [|exact F]. intros nb (x & t & -> & _ & H). split; [discriminate|exact H].
Qed.

(* NALU.Size is the number of marshalled bytes *)
Theorem c12_nalu_size n : lenN (nalu_marshal n) = nalu_size n.
Proof. exact (nalu_size_marshal n). Qed.

(* Configuration records: profile, compatibility, level (and version) any byte, NAL length
   size 1..4, up to 31 SPS and 255 PPS, each of 1..65535 bytes (1 + |payload|).
   Layout: the marshalled bytes are, byte for byte, the ISO/IEC 14496-15 5.2.4.1.1 record
   written by the independent writer, reserved bits '111111' and '111' included. *)
Theorem c12_iso_layout r :
  r_ver r < 256 -> r_prof r < 256 -> r_compat r < 256 -> r_level r < 256 -> r_lsm1 r < 4 ->
  countN (r_sps r) <= 31 -> countN (r_pps r) <= 255 ->
  Forall (fun n => (nref n < 4 /\ ntype n < 32) /\ 1 + lenN (ndata n) <= 65535) (r_sps r) ->
  Forall (fun n => (nref n < 4 /\ ntype n < 32) /\ 1 + lenN (ndata n) <= 65535) (r_pps r) ->
  rec_marshal r = spec_record (r_ver r) (r_prof r) (r_compat r) (r_level r) (r_lsm1 r)
                              (map spec_nalu_bytes (r_sps r)) (map spec_nalu_bytes (r_pps r)).
Proof. intros. apply rec_marshal_spec; try assumption; lia. Qed.

(* the first six bytes explicitly: version, profile, compatibility, level, 0xfc|lsm1, 0xe0|numSPS *)
Theorem c12_iso_layout_head ver prof compat level lsm1 (sps pps : list bytes) :
  ver < 256 -> prof < 256 -> compat < 256 -> level < 256 -> lsm1 < 4 -> countN sps <= 31 -> countN pps <= 255 ->
  spec_record ver prof compat level lsm1 sps pps =
  [ver; prof; compat; level; 252 + lsm1; 224 + countN sps] ++ spec_sets sps ++ [countN pps] ++ spec_sets pps.
Proof. intros. apply spec_record_bytes; try assumption; lia. Qed.

(* Round trip, on a receiver in ANY state [st] and with ANY bytes [ext] after the record: the
   scalar fields are overwritten and the parameter sets are APPENDED to the receiver's lists
   (c12_unmarshal_appends); on a fresh receiver (rec0 = NewAVCDecoderConfigurationRecord())
   the result is the record itself (c12_record_rt). *)
Theorem c12_unmarshal_appends st r ext :
  r_ver r < 256 -> r_prof r < 256 -> r_compat r < 256 -> r_level r < 256 -> r_lsm1 r < 4 ->
  countN (r_sps r) <= 31 -> countN (r_pps r) <= 255 ->
  Forall (fun n => (nref n < 4 /\ ntype n < 32) /\ 1 + lenN (ndata n) <= 65535) (r_sps r) ->
  Forall (fun n => (nref n < 4 /\ ntype n < 32) /\ 1 + lenN (ndata n) <= 65535) (r_pps r) ->
  rec_unmarshal st (rec_marshal r ++ ext) =
  (mk_rec (r_ver r) (r_prof r) (r_compat r) (r_level r) (r_lsm1 r) (r_sps st ++ r_sps r) (r_pps st ++ r_pps r), Ok tt).
Proof. intros. apply rec_rt; try assumption; lia. Qed.

Theorem c12_record_rt r :
  r_ver r < 256 -> r_prof r < 256 -> r_compat r < 256 -> r_level r < 256 -> r_lsm1 r < 4 ->
  countN (r_sps r) <= 31 -> countN (r_pps r) <= 255 ->
  Forall (fun n => (nref n < 4 /\ ntype n < 32) /\ 1 + lenN (ndata n) <= 65535) (r_sps r) ->
  Forall (fun n => (nref n < 4 /\ ntype n < 32) /\ 1 + lenN (ndata n) <= 65535) (r_pps r) ->
  rec_unmarshal rec0 (rec_marshal r) = (r, Ok tt).
Proof.
  intros. rewrite <- (app_nil_r (rec_marshal r)). rewrite rec_rt by (try assumption; lia).
  destruct r; reflexivity.
Qed.

(* ISO reader: a record written by the independent writer -- parameter sets any non-empty
   byte strings of at most 65535 bytes -- followed by any bytes (e.g. the High-profile
   extension fields of the 2012 edition, which the library ignores) is read back to the same
   values: each parameter set as (bits 6..5, bits 4..0, rest) of its bytes. *)
Theorem c12_iso_read st ver prof compat level lsm1 (sps pps : list bytes) ext :
  ver < 256 -> prof < 256 -> compat < 256 -> level < 256 -> lsm1 < 4 -> countN sps <= 31 -> countN pps <= 255 ->
  Forall (fun nb => nb <> [] /\ lenN nb <= 65535) sps -> Forall (fun nb => nb <> [] /\ lenN nb <= 65535) pps ->
  rec_unmarshal st (spec_record ver prof compat level lsm1 sps pps ++ ext) =
  (mk_rec ver prof compat level lsm1 (r_sps st ++ map split_nalu sps) (r_pps st ++ map split_nalu pps), Ok tt).
Proof.
  intros Hv Hp Hc Hl Hs Hns Hnp Fs Fp.
  apply rec_read_spec; try assumption; lia.
Qed.

(* Canonical re-encoding: unmarshalling a canonical encoding (written by the ISO writer, every
   NAL unit with forbidden_zero_bit 0) and marshalling the result reproduces it (trailing
   bytes after the record are not part of it and are dropped). *)
Theorem c12_canonical_reenc ver prof compat level lsm1 (sps pps : list bytes) ext r :
  ver < 256 -> prof < 256 -> compat < 256 -> level < 256 -> lsm1 < 4 -> countN sps <= 31 -> countN pps <= 255 ->
  Forall (fun nb => exists x t, nb = x :: t /\ x < 128 /\ lenN nb <= 65535) sps ->
  Forall (fun nb => exists x t, nb = x :: t /\ x < 128 /\ lenN nb <= 65535) pps ->
  rec_unmarshal rec0 (spec_record ver prof compat level lsm1 sps pps ++ ext) = (r, Ok tt) ->
  rec_marshal r = spec_record ver prof compat level lsm1 sps pps.
Proof.
  intros Hv Hp Hc Hl Hs Hns Hnp Fs Fp E.
  apply (rec_canonical_reenc ver prof compat level lsm1 sps pps ext r); try assumption; lia.
Qed.

(* Inversion: whatever well-formed byte string the record reader accepts (fresh receiver) IS an
   ISO 5.2.4.1.1 record up to the six reserved bits of byte 4, the three of byte 5 and trailing
   bytes: four scalar bytes, d4, d5, (d5 mod 32) length-prefixed non-empty SPS, a PPS count,
   that many PPS, then [ext]; the values read are those fields.  And marshalling the result
   writes the canonical form of the input: reserved bits set, every forbidden_zero_bit cleared,
   [ext] dropped -- so every canonical input is reproduced exactly. *)
Theorem c12_reader_inversion data r :
  wf_bytes data -> rec_unmarshal rec0 data = (r, Ok tt) ->
  exists d4 d5 (sps pps : list bytes) ext,
    data = [r_ver r; r_prof r; r_compat r; r_level r; d4; d5] ++ spec_sets sps ++ [countN pps] ++ spec_sets pps ++ ext /\
    d4 < 256 /\ d5 < 256 /\ r_lsm1 r = d4 mod 4 /\ countN sps = d5 mod 32 /\ countN pps < 256 /\
    Forall (fun nb => nb <> [] /\ lenN nb <= 65535) sps /\ Forall (fun nb => nb <> [] /\ lenN nb <= 65535) pps /\
    r_sps r = map split_nalu sps /\ r_pps r = map split_nalu pps /\
    r_ver r < 256 /\ r_prof r < 256 /\ r_compat r < 256 /\ r_level r < 256.
Proof. exact (rec_unmarshal_inv data r). Qed.

Theorem c12_reenc_canonicalises data r :
  wf_bytes data -> rec_unmarshal rec0 data = (r, Ok tt) ->
  exists d4 d5 (sps pps : list bytes) ext,
    data = [r_ver r; r_prof r; r_compat r; r_level r; d4; d5] ++ spec_sets sps ++ [countN pps] ++ spec_sets pps ++ ext /\
    rec_marshal r = [r_ver r; r_prof r; r_compat r; r_level r; 252 + d4 mod 4; 224 + d5 mod 32]
                    ++ spec_sets (map clear_forbidden sps) ++ [countN pps] ++ spec_sets (map clear_forbidden pps).
Proof. exact (rec_reenc_canonicalises data r). Qed.

(* The same for the sample reader (every NAL length size 1..4, fresh receiver) and the NAL unit
   reader: a well-formed byte string they accept IS the ISO 5.3.4.2 layout for that length size
   -- units non-empty and shorter than 256^(lsm1+1), nothing left over -- read as those units;
   re-marshalling writes it back with every forbidden_zero_bit cleared, i.e. reproduces every
   canonical input exactly. *)
Theorem c12_sample_reader_inversion lsm1 data ns :
  lsm1 < 4 -> wf_bytes data -> sample_unmarshal lsm1 [] data = (ns, Ok tt) ->
  exists nbs : list bytes,
    data = spec_sample lsm1 nbs /\ Forall (fun nb => nb <> [] /\ lenN nb < 256 ^ (lsm1 + 1)) nbs /\
    ns = map split_nalu nbs /\ sample_marshal lsm1 ns = spec_sample lsm1 (map clear_forbidden nbs).
Proof. exact (sample_reenc_canonicalises lsm1 data ns). Qed.

Theorem c12_nalu_reader_inversion data n :
  wf_bytes data -> nalu_unmarshal data = Ok n ->
  (exists x, data = x :: ndata n /\ nref n = (x / 32) mod 4 /\ ntype n = x mod 32) /\
  nalu_marshal n = clear_forbidden data.
Proof. intros W E. split; [exact (nalu_unmarshal_inv data n E)|exact (nalu_reenc data n W E)]. Qed.

(* HISTORIES AND KEPT RESULTS.  NALU, record and sample objects are plain values (avc_obj in slots):
   UnmarshalBinary stores what it parsed (appending to the lists), the caller may assign any field
   (obj_update: header fields and Data of a NALU object or of the idx-th unit of a list, append,
   list := nil, the scalar fields), MarshalBinary writes the current field values; nothing is
   remembered from earlier calls and results are values (the harness keeps every returned slice,
   overwrites replaced Data slices, marshals other objects -- also from a second goroutine --
   and re-reads all results after the last operation).
   After ANY sequence of operations on any number of objects, MarshalBinary of the object in slot
   k returns the marshalling of its CURRENT value v and changes no object; when v is within the
   property's ranges that is, byte for byte, the ISO layout of the current field values. *)
Theorem c12_history_marshal s ops k v :
  slot_get (fst (avc_run s ops)) k = Some v ->
  avc_run s (ops ++ [AMarshal k]) = (fst (avc_run s ops), snd (avc_run s ops) ++ [SL [SZ 0; SB (obj_marshal v)]]) /\
  (obj_in_range v -> obj_marshal v = obj_spec v).
Proof. intros H. split; [exact (avc_history_marshal s ops k v H)|exact (obj_marshal_spec v)]. Qed.

(* two objects marshalled in one step (concurrently in the implementation): each result is its own
   object's marshalling *)
Theorem c12_history_marshal2 s ops k1 k2 v1 v2 :
  slot_get (fst (avc_run s ops)) k1 = Some v1 -> slot_get (fst (avc_run s ops)) k2 = Some v2 ->
  avc_run s (ops ++ [AMarshal2 k1 k2]) =
  (fst (avc_run s ops), snd (avc_run s ops) ++ [SL [SZ 0; SB (obj_marshal v1); SB (obj_marshal v2)]]).
Proof. exact (avc_history_marshal2 s ops k1 k2 v1 v2). Qed.

(* a field assignment replaces the object's value by the pure update of it, and every operation
   leaves all other objects as they were *)
Theorem c12_history_update s op v v' :
  is_update op = true -> slot_get s (op_slot op) = Some v -> obj_update v op = Some v' ->
  avc_step s op = (slot_set s (op_slot op) v', SL [SZ 0]).
Proof. exact (avc_step_update s op v v'). Qed.

Theorem c12_history_objects_independent s op k' :
  k' <> op_slot op -> slot_get (fst (avc_step s op)) k' = slot_get s k'.
Proof. exact (avc_step_other s op k'). Qed.

(* the remembered-slice shape: unmarshal 65 19, replace Data by a slice of the same length, marshal *)
Example c12_history_witness :
  snd (avc_run [] [ANew 0 2 0; AUnmarshal 0 [101; 25]; AMarshal 0; ASetNalu 0 (mk_nalu 3 5 [238]); AMarshal 0]) =
  [SL [SZ 0]; SL [SZ 0; SL [SZ 3; SZ 5; SB [25]]]; SL [SZ 0; SB [101; 25]]; SL [SZ 0]; SL [SZ 0; SB [101; 238]]].
Proof. vm_compute. reflexivity. Qed.

(* Totality: no byte string makes a reader panic, for any receiver state and -- for the sample
   reader -- any length size 1..256 (lsm1 any uint8; cd951da); the sample loop's fuel is never
   the reason for stopping. *)
Theorem avc_nalu_dec_total data s : nalu_unmarshal data <> Panic s.
Proof. exact (nalu_total data s). Qed.
Theorem avc_record_dec_total st data s : snd (rec_unmarshal st data) <> Panic s.
Proof. exact (rec_unmarshal_total st data s). Qed.
Theorem avc_sample_dec_total lsm1 have data s : snd (sample_unmarshal lsm1 have data) <> Panic s.
Proof. unfold sample_unmarshal. apply sample_loop_total. Qed.
Theorem avc_sample_dec_fuel lsm1 have data : snd (sample_unmarshal lsm1 have data) <> Err 100.
Proof. unfold sample_unmarshal. apply sample_loop_fuel; [unfold u8; lia|lia]. Qed.

(* the generated bodies of the enum String helpers return a string for every integer *)
Theorem avc_enum_strings_total v :
  (exists s, avc_NALUType_String v = Ok s) /\ (exists s, avc_AVCProfile_String v = Ok s) /\
  (exists s, avc_AVCLevel_String v = Ok s).
Proof. split; [apply nalutype_string_total|split; [apply avcprofile_string_total|apply avclevel_string_total]]. Qed.

(* ---- non-vacuity and regression witnesses ---- *)
(* the record of DESIGN.md section 5 item 15: bytes 4,5 are ff e1 (were 03 01 before 44286ef) *)
Example c12_reserved_bits_witness :
  rec_marshal (mk_rec 1 100 0 31 3 [mk_nalu 3 7 [1; 2]] []) = [1; 100; 0; 31; 255; 225; 0; 3; 103; 1; 2; 0] /\
  rec_unmarshal rec0 [1; 100; 0; 31; 255; 225; 0; 3; 103; 1; 2; 0] = (mk_rec 1 100 0 31 3 [mk_nalu 3 7 [1; 2]] [], Ok tt) /\
  rec_unmarshal rec0 [1; 100; 0; 31; 3; 1; 0; 3; 103; 1; 2; 0] = (mk_rec 1 100 0 31 3 [mk_nalu 3 7 [1; 2]] [], Ok tt).
Proof. vm_compute. repeat split; reflexivity. Qed.

Example c12_sample_nonvacuous :
  sample_marshal 1 [mk_nalu 3 5 [9]; mk_nalu 0 6 []] = [0; 2; 101; 9; 0; 1; 6] /\
  sample_unmarshal 1 [] [0; 2; 101; 9; 0; 1; 6] = ([mk_nalu 3 5 [9]; mk_nalu 0 6 []], Ok tt) /\
  snd (sample_unmarshal 7 [] [128; 0; 0; 0; 0; 0; 0; 0; 1]) = Err 9.
Proof. vm_compute. repeat split; reflexivity. Qed.

Example c12_appends_nonvacuous :
  rec_unmarshal (mk_rec 1 66 0 30 3 [mk_nalu 3 7 [5]] [mk_nalu 3 8 [6]]) [1; 77; 0; 40; 253; 225; 0; 1; 103; 1; 0; 1; 104] =
  (mk_rec 1 77 0 40 1 [mk_nalu 3 7 [5]; mk_nalu 3 7 []] [mk_nalu 3 8 [6]; mk_nalu 3 8 []], Ok tt).
Proof. vm_compute. reflexivity. Qed.

(* the bounds of the property are sharp: a 32nd SPS, a 65536-byte parameter set, or a NAL unit of
   256 bytes under a 1-byte length field do not round-trip (counters and lengths wrap) *)
Example c12_bounds_sharp :
  let n := mk_nalu 3 7 [] in
  fst (rec_unmarshal rec0 (rec_marshal (mk_rec 1 66 0 30 3 (repeat n 32) []))) <> mk_rec 1 66 0 30 3 (repeat n 32) [] /\
  sample_unmarshal 0 [] (sample_marshal 0 [mk_nalu 3 5 (repeat 0 255)]) <> ([mk_nalu 3 5 (repeat 0 255)], Ok tt).
Proof. vm_compute. split; discriminate. Qed.

Print Assumptions c12_nalu.
Print Assumptions c12_sample_canonical_reenc.
Print Assumptions c12_nalu_size.
Print Assumptions c12_bounds_sharp.
Print Assumptions c12_nalu_empty.
Print Assumptions c12_nalu_rt.
Print Assumptions c12_sample_rt.
Print Assumptions c12_sample_iso_read.
Print Assumptions c12_iso_layout.
Print Assumptions c12_iso_layout_head.
Print Assumptions c12_unmarshal_appends.
Print Assumptions c12_record_rt.
Print Assumptions c12_iso_read.
Print Assumptions c12_canonical_reenc.
Print Assumptions c12_reader_inversion.
Print Assumptions c12_reenc_canonicalises.
Print Assumptions c12_history_marshal.
Print Assumptions c12_history_marshal2.
Print Assumptions c12_history_update.
Print Assumptions c12_history_objects_independent.
Print Assumptions c12_history_witness.
Print Assumptions c12_sample_reader_inversion.
Print Assumptions c12_nalu_reader_inversion.
Print Assumptions avc_nalu_dec_total.
Print Assumptions avc_record_dec_total.
Print Assumptions avc_sample_dec_total.
Print Assumptions avc_sample_dec_fuel.
Print Assumptions avc_enum_strings_total.
Print Assumptions c12_reserved_bits_witness.
Print Assumptions c12_sample_nonvacuous.
Print Assumptions c12_appends_nonvacuous.
