(* C08 -- I/O failures surface as errors that keep their root cause.
   Property theorems only; every proof is `exact <lemma>` or a short composition.

   Vocabulary.  Error values are identified by small numbers (Lib/Err.v): id_EOF = io.EOF,
   id_UnexpectedEOF = io.ErrUnexpectedEOF, id_ShortWrite = io.ErrShortWrite, others = injected
   transport errors.  A transport under a reader is a `stream` (Lib/IO.v): a list of segments, one per
   Read call, `Data b` | `Fault e` (this and every later call fails with e; the end of the list is a
   clean io.EOF) | `Last b e` (the last bytes arrive together with the error).  `flat s = (b, t)`: the
   stream delivers exactly the bytes b and then ends with t -- so "the transport ends or fails after k
   bytes of the wire w with error t" is `flat s = (firstn k w, t)`, for EVERY segmentation.
   A transport under a writer is `wtr_new (Some i) m term`: Write call number i accepts only the first
   m bytes (all but one at most when term = None: a short write without error) and reports term. *)
From Coq Require Import String.   (* first, so that List.length etc. from Lib.Base take precedence *)
From Verif Require Import Lib.Base Lib.Sx Lib.Err Lib.IO Model.ErrorsPkg Model.Faults.
From Verif Require Import Proofs.ErrorsPkg Proofs.FaultsIO Proofs.Faults Proofs.FaultsFlv Proofs.FaultsWrite Proofs.FaultsBufw Proofs.FaultsBufwPeer Proofs.FaultsTransient Proofs.FaultsEntry.
From Verif Require Model.Flv Proofs.Flv.
From Verif Require Gen.Gen_errors.
From Verif Require Model.RtmpChunk Proofs.RtmpChunk Proofs.RtmpChunkRT Proofs.FaultsRtmpChunk.
From Verif Require Model.FaultsRtmp Proofs.FaultsRtmpG Proofs.FaultsLens Proofs.FaultsTheirBytes.
Open Scope N_scope.

(* ================================ the errors package ================================
   An error value is a root (any error without a Cause method: io.EOF, a custom type, what
   errors.New/Errorf return) under any number of withMessage / withStack layers; `nest s ops`
   applies the wrapping calls ops (WithStack, Wrap, Wrapf, WithMessage, in any order and number)
   to s, the last one outermost. *)

(* For every nesting of the constructors over a root, Cause recovers exactly that root
   (same identity, same text) ... *)
Theorem c08_errors_cause id m ops :
  e_Cause (nest (Some (Root id m)) ops) = Some (Root id m).
Proof. exact (nest_root_cause id m ops). Qed.

(* ... also when the start value is itself already wrapped (what the I/O paths do: each
   caller adds its layer): the cause of the result is the cause of the start value, and
   it is an error without a Cause method. *)
Theorem c08_errors_cause_any x ops :
  e_Cause (nest (Some x) ops) = Some (cause x) /\ is_root (cause x) = true.
Proof. split; [exact (nest_any_cause x ops)|exact (cause_is_root x)]. Qed.

(* The root may itself be a wrapper -- *net.OpError, *os.PathError, what fmt.Errorf("%w") or
   errors.Join return, any type with Unwrap() error / Unwrap() []error (returning another error, nil
   or itself): as long as it has no Cause method it IS the root cause, errors.Cause never digs into
   the transport's own error (RootU id m kind inner; kind and inner are what Unwrap yields). *)
Theorem c08_errors_cause_wrapper_root id m kind inner ops :
  e_Cause (nest (Some (RootU id m kind inner)) ops) = Some (RootU id m kind inner).
Proof. exact (nest_rootU_cause id m kind inner ops). Qed.

(* In general: for every nesting over any error WITHOUT a Cause method, cause = that error. *)
Theorem c08_errors_cause_no_causer r ops :
  is_root r = true -> e_Cause (nest (Some r) ops) = Some r.
Proof. intros H. rewrite (nest_any_cause r ops). now rewrite (is_root_cause r H). Qed.

(* A foreign type that implements the documented causer interface (Cause() error) is unwound,
   like the package's own layers: the cause is the cause of what its Cause method returns. *)
Theorem c08_errors_cause_foreign_causer id m inner ops :
  e_Cause (nest (Some (RootC id m inner)) ops) = Some (cause inner) /\ is_root (cause inner) = true.
Proof. split; [exact (nest_rootC_cause id m inner ops)|exact (cause_is_root inner)]. Qed.

(* Error() of the result is the messages of the layers, outermost first, then the root's own
   text, joined by ": " (WithStack contributes no message). *)
Theorem c08_errors_message id m ops :
  option_map e_Error (nest (Some (Root id m)) ops) = Some (join msg_sep (op_msgs ops ++ [m])).
Proof. exact (nest_root_message id m ops). Qed.

Theorem c08_errors_message_any x ops :
  option_map e_Error (nest (Some x) ops) = Some (join msg_sep (op_msgs ops ++ chain x)) /\
  message x = join msg_sep (chain x).
Proof. split; [exact (nest_any_message x ops)|exact (message_chain x)]. Qed.

(* Wrapping nil yields nil, wrapping a non-nil error never yields nil -- for one call and for
   every nesting. *)
Theorem c08_errors_nil s ops : nest s ops = None <-> s = None.
Proof. exact (nest_nil_iff s ops). Qed.

Theorem c08_errors_nil_op e o : apply_op e o = None <-> e = None.
Proof. exact (apply_op_nil_iff e o). Qed.

(* The model above is a transcription of this source (regenerated from /repo/errors/errors.go on
   every run by tools/repo2coq/gen_faults.go: the whitespace-normalised bodies of the ten functions
   and the separator literal of withMessage.Error).  When the source is edited this theorem stops
   compiling and the check falls back to searching a failing input with the harness. *)
Theorem c08_errors_source :
  Gen_errors.errors_withMessage_sep = msg_sep /\
  Gen_errors.errors_src_New = "{ return &fundamental{msg: message, stack: callers()} }"%string /\
  Gen_errors.errors_src_Errorf = "{ return &fundamental{msg: fmt.Sprintf(format, args...), stack: callers()} }"%string /\
  Gen_errors.errors_src_WithStack = "{ if err == nil { return nil } return &withStack{err, callers()} }"%string /\
  Gen_errors.errors_src_Wrap = "{ if err == nil { return nil } err = &withMessage{cause: err, msg: message} return &withStack{err, callers()} }"%string /\
  Gen_errors.errors_src_Wrapf = "{ if err == nil { return nil } err = &withMessage{cause: err, msg: fmt.Sprintf(format, args...)} return &withStack{err, callers()} }"%string /\
  Gen_errors.errors_src_WithMessage = "{ if err == nil { return nil } return &withMessage{cause: err, msg: message} }"%string /\
  Gen_errors.errors_src_withStack_Cause = "{ return w.error }"%string /\
  Gen_errors.errors_src_withMessage_Cause = "{ return w.cause }"%string /\
  Gen_errors.errors_src_withMessage_Error = "{ return w.msg + "": "" + w.cause.Error() }"%string /\
  Gen_errors.errors_src_Cause = "{ type causer interface{ Cause() error } for err != nil { cause, ok := err.(causer) if !ok { break } err = cause.Cause() } return err }"%string.
Proof. repeat split; reflexivity. Qed.

(* non-vacuity: Wrapf(WithStack(Wrap(io.EOF, "read")), "chunk %d", 7) *)
Example c08_errors_example :
  let e := nest (Some (Root id_EOF [69;79;70]))
                [OpWrap [114;101;97;100]; OpWithStack; OpWrapf [PLit [99;32]; PDec 7]] in
  e_Cause e = Some (Root id_EOF [69;79;70]) /\
  option_map e_Error e = Some [99;32;55;58;32;114;101;97;100;58;32;69;79;70].
Proof. vm_compute. auto. Qed.

(* ================================ the transport ================================
   "However the transport splits the stream": io.ReadFull and io.CopyN, on the transport directly
   or through a bufio.Reader, cannot tell two streams with the same flattening apart -- same bytes
   returned or same error, and the remaining streams again flatten alike.  (bufio_sound,
   read_full_sound, copy_n_sound in Proofs/FaultsIO.v state the same for any reader that returns
   its data in order and its error last.) *)
Theorem c08_read_segs_concat n a1 a2 s1 s2 : 0 < a1 -> 0 < a2 -> flat s1 = flat s2 ->
  same_result flat flat (read_full stream tr_read n s1) (read_full stream tr_read n s2) /\
  same_result flat flat (copy_n stream tr_read a1 n s1) (copy_n stream tr_read a2 n s2) /\
  same_result flat bt_flat (read_full stream tr_read n s1)
              (read_full _ (br_read stream tr_read) n (bufr_new s2)).
Proof. exact (read_segs_concat n a1 a2 s1 s2). Qed.

(* the stdlib rules themselves, on (b, t) = the bytes still to come and the terminal error:
   ReadFull of n bytes: Ok when n <= len b; t when nothing is left; ErrUnexpectedEOF when some but
   too few bytes are left and the stream ends cleanly, t otherwise.  CopyN: Ok or t. *)
Theorem c08_read_full_rule n s :
  match read_full_flat n (flat s) with
  | Ok (x, f') => exists s', read_full stream tr_read n s = Ok (x, s') /\ flat s' = f'
  | Err e => read_full stream tr_read n s = Err e
  | Panic _ => False
  end.
Proof.
  pose proof (read_full_sound stream tr_read flat (fun _ => True) transport_sound n s I) as H.
  destruct (read_full_flat n (flat s)) as [[x f]|e|p]; [|exact H|exact H].
  destruct H as (s' & H1 & H2 & _). exists s'. auto.
Qed.

(* ================================ FLV demuxer ================================
   For every header flags, every tag list (type < 256, timestamp < 2^32, body < 2^24), every cut
   offset k, every terminal error t (id_EOF for a cut stream, else the injected error) and every
   stream that delivers the first k bytes of the file and then t: the session ReadHeader,
   (ReadTagHeader, ReadTag)* returns exactly `flv_expect hv ha tags k` and then fails with t itself
   (the demuxer reads with io.CopyN and returns its error unwrapped: a cut is always io.EOF).
   flv_expect is a prefix of the file's items (header, then per tag its header and its body), and
   it contains exactly as many items as end within the first k bytes: nothing truncated,
   duplicated or fabricated, and never an incomplete item without the error. *)
Theorem c08_flv_read hv ha tags fuel s k t :
  Forall Proofs.Flv.wf_tag tags -> (length tags < fuel)%nat ->
  flat s = (firstn (N.to_nat k) (Model.Flv.mux hv ha tags), t) ->
  flv_read_session stream tr_read fuel s = (flv_expect hv ha tags k, t) /\
  length (flv_expect hv ha tags k) = count_le (flv_ends tags) k /\
  exists rest, flv_items hv ha tags = flv_expect hv ha tags k ++ rest.
Proof.
  intros Hwf Hfuel Hf. split; [exact (flv_read_transport_cut hv ha tags fuel s k t Hwf Hfuel Hf)|].
  split; [exact (flv_expect_count hv ha tags k)|exact (flv_expect_prefix hv ha tags k)].
Qed.

(* the same over any reader that is sound in the sense of Proofs/FaultsIO.v (e.g. a bufio.Reader
   the caller put in between) *)
Theorem c08_flv_read_any_reader S rd fl inv hv ha tags fuel st k t :
  sound rd fl inv -> Forall Proofs.Flv.wf_tag tags -> (length tags < fuel)%nat -> inv st ->
  fl st = (firstn (N.to_nat k) (Model.Flv.mux hv ha tags), t) ->
  flv_read_session S rd fuel st = (flv_expect hv ha tags k, t).
Proof. intros Hs. exact (flv_read_session_cut S rd fl inv Hs hv ha tags fuel st k t). Qed.

(* non-vacuity: a file with two tags cut inside the second body, delivered in odd pieces *)
Example c08_flv_read_example :
  let tags := [Model.Flv.mk_tag 9 5 [1;2;3]; Model.Flv.mk_tag 8 70000 [7;7;7;7;7]] in
  let w := Model.Flv.mux true false tags in
  lenN w = 51 /\
  flv_read_session stream tr_read 3
    [Data (firstn 5 w); Data []; Data (firstn 40 (skipn 5 w)); Last (firstn 2 (skipn 45 w)) 4]
  = ([IHeader 1 true false; ITagHeader 9 3 5; ITagBody [1;2;3]; ITagHeader 8 5 70000], 4).
Proof. vm_compute. auto. Qed.

(* ================================ FLV muxer ================================
   The failure of Write call number i has a shape: it accepts m bytes of the p it was given (0, some,
   or all of them: (0, e), (0 < n < len p, e), (len p, e)) and reports the error `term`, or it is a
   short write without error (term = None: n < len p, nil); and it is STICKY (every later Write
   fails) or TRANSIENT (sticky = false: the following Writes succeed again).  For every shape:
   A fault at Write call number i: the operations before the one that issues call i succeed, that
   operation returns exactly the transport's error (io.ErrShortWrite for a short write without
   error), and the peer has received a prefix of the fault-free file: the first i writes and the
   accepted part of write i.  With no fault in reach everything succeeds and the peer has the file. *)
Theorem c08_flv_write sticky hv ha tags i m term :
  let w0 := wtr_new_s sticky (Some i) m term in
  let calls := Model.Flv.mux_writes hv ha tags in
  if i <? N.of_nat (length calls) then
    exists w, flv_write_session hv ha tags w0 = (ops_before (flv_wops hv ha tags) i, Some (wt_err w0), w) /\
      wt_received w = received_at m term calls i /\
      exists rest, Model.Flv.mux hv ha tags = wt_received w ++ rest
  else
    exists w, flv_write_session hv ha tags w0 = (N.of_nat (1 + length tags), None, w) /\
      wt_received w = Model.Flv.mux hv ha tags.
Proof. exact (flv_write_fault sticky hv ha tags i m term). Qed.

Example c08_flv_write_example :
  let tags := [Model.Flv.mk_tag 9 5 [1;2;3]; Model.Flv.mk_tag 8 6 []] in
  let '(n, e, w) := flv_write_session true true tags (wtr_new (Some 2) 1 (Some 4)) in
  n = 1 /\ e = Some 4 /\ lenN (wt_received w) = 13 + 11 + 1.
Proof. vm_compute. auto. Qed.

(* ================================ RTMP read path (partial) ================================
   The read path as a read plan: the handshake (3 x io.CopyN on the raw transport) and, through
   bufio.Reader, per chunk the basic header bytes, the message header, the extended timestamp and
   the payload part (io.ReadFull / binary.Read), grouped into items (c0, c1, c2, one item per
   message, and the attempt to read a further message).  For every stream, however segmented, that
   delivers k bytes and then t, the session returns `plan_outcome`: *)
Theorem c08_rtmp_read_partial hs ms s b t : flat s = (b, t) ->
  rtmp_read_session hs ms s =
  let (n, e) := plan_outcome (rtmp_plan hs ms) (lenN b) t 0 in
  (n, match e with Some x => x | None => 1000 end).
Proof. exact (rtmp_read_session_spec hs ms s b t). Qed.

(* plan_outcome is computed directly from the plan (cumulative sizes), and for long wires the
   correspondence run uses exactly that instead of simulating the transport for every cut offset;
   it is the session's result for every segmentation the harness can ask for: *)
Theorem c08_rtmp_read_outcome_is_session hs ms k t sizes tog :
  rtmp_read_session hs ms (mk_stream (repeat 0 (N.to_nat k)) sizes t tog) = rtmp_read_outcome hs ms k t.
Proof. exact (rtmp_read_outcome_ok hs ms k t sizes tog). Qed.

(* ... where plan_outcome satisfies the statement of C08 for any plan:
   exactly the items that end within the first a bytes are returned; the next one fails with the
   terminal error t, or with ErrUnexpectedEOF when t = EOF ... *)
Theorem c08_plan_items pre it post a t :
  plan_size pre <= a -> a < plan_size pre + item_size it ->
  exists e, plan_outcome (pre ++ it :: post) a t 0 = (N.of_nat (length pre), Some e) /\
            (e = t \/ (t = id_EOF /\ e = id_UnexpectedEOF)).
Proof. intros H1 H2. destruct (plan_outcome_spec pre it post a t 0 H1 H2) as (e & H & He). exists e. now rewrite N.add_0_l in H. Qed.

(* ... precisely which one: a stream that ends exactly between two items (or before the first)
   ends with t itself -- a clean io.EOF for a cut; one byte or more into an io.ReadFull it is
   io.ErrUnexpectedEOF ... *)
Theorem c08_plan_boundary pre o ops post t : 0 < rop_size o ->
  plan_outcome (pre ++ (o :: ops) :: post) (plan_size pre) t 0 = (N.of_nat (length pre), Some t).
Proof. intros H. rewrite (plan_outcome_boundary pre o ops post t 0 H). now rewrite N.add_0_l. Qed.

Theorem c08_plan_inside pre n0 ops post a :
  plan_size pre < a -> a < plan_size pre + n0 ->
  plan_outcome (pre ++ (RF n0 :: ops) :: post) a id_EOF 0 = (N.of_nat (length pre), Some id_UnexpectedEOF).
Proof. intros H1 H2. rewrite (plan_outcome_inside pre n0 ops post a 0 H1 H2). now rewrite N.add_0_l. Qed.

(* ... and with at most the whole wire delivered the RTMP session always ends with such an error *)
Theorem c08_rtmp_read_always_error hs ms k t : k <= rtmp_wire_len hs ms ->
  exists e, snd (plan_outcome (rtmp_plan hs ms) k t 0) = Some e /\
            (e = t \/ (t = id_EOF /\ e = id_UnexpectedEOF)).
Proof. exact (rtmp_plan_always_error hs ms k t). Qed.

(* non-vacuity: one 300-byte message on chunk stream 3 (12-byte header, 128+1+128+1+44): cut right
   after the message -> clean EOF with the message returned; cut between basic header and message
   header -> EOF, one byte later -> ErrUnexpectedEOF; an injected error 4 inside the payload -> 4 *)
Example c08_rtmp_read_example :
  let ms := [mk_rmsg 0 3 9 1000 300 0] in
  let run k t := rtmp_read_session false ms [Data (repeat 0 (N.to_nat k)); Fault t] in
  rtmp_wire_len false ms = 314 /\
  run 314 id_EOF = (1, id_EOF) /\ run 1 id_EOF = (0, id_EOF) /\ run 2 id_EOF = (0, id_UnexpectedEOF) /\
  run 141 id_EOF = (0, id_EOF) /\ run 200 4 = (0, 4).
Proof. vm_compute. auto 10. Qed.

(* ================================ RTMP read path, cut stream, data-dependent reader ================
   Over the rtmpchunk builder's model of ReadMessage (Model/RtmpChunk.v: basic header, message
   header, extended timestamp, payload assembled per chunk stream, Set Chunk Size applied on arrival;
   its transport ends with a clean EOF): for every list of well-formed messages written by
   WriteMessage with the chunk sizes in force, every cut offset k <= length of the wire and every
   segmentation of the first k bytes, the read loop returns exactly the first n messages, where n is
   the number of messages whose bytes lie wholly within the first k, and then fails with io.EOF or
   io.ErrUnexpectedEOF -- never another error, never a panic, never an incomplete message.
   (Which of the two, and injected errors: c08_rtmp_read_partial.) *)
Theorem c08_rtmp_read_cut ms c s fuel k :
  Forall Proofs.RtmpChunkRT.wf_msg ms -> 0 < c -> Model.RtmpChunk.in_chunk s = c ->
  Proofs.RtmpChunkRT.all_idle s -> (length ms < fuel)%nat ->
  Forall (fun m => (length (Model.RtmpChunk.m_payload m) + length ms < fuel)%nat) ms ->
  exists ws, Model.RtmpChunk.write_all c ms = map Ok ws /\
    forall i, k <= lenN (concat ws) -> Proofs.RtmpChunk.flat i = firstn (N.to_nat k) (concat ws) ->
     exists n e, Model.RtmpChunk.read_all fuel s i [] = (firstn n ms, e) /\
       (e = Model.RtmpChunk.E_EOF \/ e = Model.RtmpChunk.E_UEOF) /\ (n <= length ms)%nat /\
       lenN (concat (firstn n ws)) <= k /\
       ((n < length ms)%nat -> k < lenN (concat (firstn (S n) ws))).
Proof. intros W Hc Hin Hidle Hf Hfs. exact (Proofs.FaultsRtmpChunk.session_cut_segmented ms W c s fuel k Hc Hin Hidle Hf Hfs). Qed.

(* ================================ RTMP read path: the data-dependent reader on the faulting transport =====
   Model/FaultsRtmp.v is the rtmpchunk builder's chunk reader with its transport as a parameter
   (bodies verbatim); over their own transport it IS their reader: *)
Theorem c08_rtmp_reader_is_theirs fuel s i acc :
  Model.FaultsRtmp.g_read_all Model.RtmpChunk.inp Model.RtmpChunk.stake fuel s i acc
  = Model.RtmpChunk.read_all fuel s i acc.
Proof. exact (Proofs.FaultsRtmpG.g_read_all_theirs fuel s i acc). Qed.

(* Composed with the faulting transport of Lib/IO.v (handshake: three io.CopyN on the raw
   transport; then bufio.Reader and the read loop, `io_session`):  for every list of well-formed
   messages written by their WriteMessage model (wire = hsb ++ concat ws, hsb the 3073 handshake
   bytes when hs), every cut offset k <= length of the wire, every terminal error t (id_EOF for a cut,
   else the injected error, reported at whichever Read call comes after the k-th byte) and EVERY
   segmentation of the first k bytes into transport reads:
     - the session returns the handshake parts and exactly the first n - 3 messages (n items in all),
     - then fails with code io_code e,
   where (n, e) is what the read plan computed from the message list yields (`plan_outcome` of
   `rtmp_plan`, the very plan of c08_rtmp_read_partial, which the correspondence run executes against
   the real Protocol) -- so n is the number of items wholly inside the first k bytes, e is t or, for
   a cut inside an io.ReadFull, io.ErrUnexpectedEOF, exactly as c08_plan_items / c08_plan_boundary /
   c08_plan_inside / c08_rtmp_read_always_error say.  (io_code: EOF -> their E_EOF, ErrUnexpectedEOF ->
   their E_UEOF, any other transport error e -> 1000 + e; never one of their protocol errors.) *)
Theorem c08_rtmp_read (hs : bool) ms fuel str (hsb : bytes) k t :
  Forall Proofs.RtmpChunkRT.wf_msg ms -> (length ms < fuel)%nat ->
  Forall (fun m => (length (Model.RtmpChunk.m_payload m) + length ms < fuel)%nat) ms ->
  lenN hsb = (if hs then 3073 else 0) ->
  exists ws, Model.RtmpChunk.write_all Model.RtmpChunk.DEFCHUNK ms = map Ok ws /\
    (k <= lenN (hsb ++ concat ws) -> flat str = (firstn (N.to_nat k) (hsb ++ concat ws), t) ->
     exists n e,
       plan_outcome (rtmp_plan hs (map Proofs.FaultsRtmpG.rmsg_of ms)) k t 0 = (n, Some e) /\
       Model.FaultsRtmp.io_session hs fuel str =
         (N.min n (if hs then 3 else 0), firstn (N.to_nat (n - (if hs then 3 else 0))) ms,
          Model.FaultsRtmp.io_code e)).
Proof. exact (Proofs.FaultsRtmpG.io_session_spec hs ms fuel str hsb k t). Qed.

(* non-vacuity: one 300-byte video message on chunk stream 3 written by their WriteMessage model,
   cut after 200 bytes delivered in 7-byte pieces with the injected error 4 arriving with the last
   piece: no message, error 1000+4; cut exactly after the whole message: the message, then EOF (1) *)
Example c08_rtmp_read_example2 :
  let m := Model.RtmpChunk.mkmsg 3 1000 9 1 (repeat 7 300) in
  let w := match Model.RtmpChunk.write_message 128 m with Ok (w, _) => w | _ => [] end in
  lenN w = 314 /\
  Model.FaultsRtmp.io_session false 400 (mk_stream (firstn 200 w) [7] 4 true) = (0, [], 1004) /\
  Model.FaultsRtmp.io_session false 400 (mk_stream w [7] id_EOF false) = (0, [m], 1).
Proof. vm_compute. auto. Qed.

(* the plan covers exactly the bytes of the wire: "k <= length of the wire" above is
   "k <= size of the plan" *)
Theorem c08_rtmp_plan_size ms c ws :
  Forall Proofs.RtmpChunkRT.wf_msg ms -> 0 < c -> Model.RtmpChunk.write_all c ms = map Ok ws ->
  lenN (concat ws) = plan_size (Proofs.FaultsRtmpG.sess_plan c ms) /\
  Proofs.FaultsRtmpG.sess_plan c ms = msgs_plan c (map Proofs.FaultsRtmpG.rmsg_of ms).
Proof.
  intros W Hc Hw. split; [exact (Proofs.FaultsRtmpG.session_size ms W c ws Hc Hw)|exact (Proofs.FaultsRtmpG.sess_plan_is_msgs_plan ms W c Hc)].
Qed.

(* ================================ RTMP write path (partial) ================================
   The write path as the operations it performs: the handshake writes (one io.Copy each on the raw
   transport) and, per WriteMessage, the io.Copy of c0/c3 headers and payload parts into the
   bufio.Writer followed by Flush (`rtmp_wops`: the pieces; their content is irrelevant here).
   For EVERY transport fault (any call index, any number of accepted bytes, an error or a short
   write without error) the session ends in one of two ways (`session_ok`):
   - no error: every operation succeeded, the transport is intact and the peer has received exactly
     the bytes of all operations;
   - error e after n operations: e is the transport's error (io.ErrShortWrite for a short write),
     the n operations that succeeded are completely on the peer's side, of operation n+1 the peer
     has a (possibly empty) prefix, and nothing beyond -- so the peer sees a prefix of the fault-free
     wire, and a fault that hit is never swallowed: the operation during which the transport broke is
     the one that returns the error (bufio's sticky error surfaces at the latest in the Flush that
     ends the operation). *)
Theorem c08_rtmp_write_partial hs ms fa m term :
  let w0 := wtr_new fa m term in
  let '(n, oe, w) := rtmp_write_session hs ms w0 in
  match oe with
  | None => n = N.of_nat (length (rtmp_wops hs ms)) /\ wt_failed w = false /\
            wt_received w = concat (concat (rtmp_wops hs ms))
  | Some e => e = wt_err w0 /\ wt_failed w = true /\
              exists k, n = N.of_nat k /\ (k < length (rtmp_wops hs ms))%nat /\
              exists pre rest,
                wt_received w = concat (concat (firstn k (rtmp_wops hs ms))) ++ pre /\
                concat (concat (firstn (S k) (rtmp_wops hs ms))) = wt_received w ++ rest
  end.
Proof.
  intros w0. pose proof (rtmp_write_session_spec hs ms fa m term) as H. cbn zeta in H. fold w0 in H.
  destruct (rtmp_write_session hs ms w0) as [[n oe] w]. unfold session_ok in H.
  destruct oe as [e|]; cbn [app] in H; exact H.
Qed.

(* WHICH operation fails, as a function of the write-call index i (handshake writes included):
   the run over the transport failing at call i and the run over the transport that never fails are
   in lock step until the fault-free run issues its call number i.  `free_done i hs ms` counts, in the
   fault-free run, the operations (c0, c1, c2, then one per message) that are complete before that
   call; `free_calls` is the number of transport writes of the whole fault-free session.  The faulty
   session completes exactly free_done operations, and it ends without error iff the fault index
   lies beyond the last write. *)
Theorem c08_rtmp_write_which hs ms i m term :
  let '(n, oe, w) := rtmp_write_session hs ms (wtr_new (Some i) m term) in
  n = free_done i hs ms m term /\
  (oe = None <-> free_calls hs ms m term <= i).
Proof. exact (rtmp_write_session_which hs ms i m term). Qed.

(* ... and what the peer then holds: exactly the first i transport writes of the fault-free run
   and the accepted part of write number i (received_at, as in c08_flv_write); w0 is the transport at
   the end of the fault-free session, rev (wt_peer w0) its list of writes *)
Theorem c08_rtmp_write_peer hs ms i m term :
  let '(n, oe, w) := rtmp_write_session hs ms (wtr_new (Some i) m term) in
  let w0 := snd (rtmp_write_session hs ms (wtr_new None m term)) in
  n = free_done i hs ms m term /\
  (oe = None <-> wt_calls w0 <= i) /\
  (oe <> None ->
   wt_received w = received_at (wt_m w) (wt_term w) (rev (wt_peer w0)) i /\ i < wt_calls w0).
Proof. exact (rtmp_write_session_peer hs ms i m term). Qed.

(* non-vacuity: handshake + a 300-byte message: 3 + 1 transport writes; fault at call 2 (c2) and 3 *)
Example c08_rtmp_write_which_example :
  let ms := [mk_rmsg 0 3 9 1000 300 0] in
  free_calls true ms 0 None = 4 /\ free_done 2 true ms 0 None = 2 /\ free_done 3 true ms 0 None = 3 /\
  free_done 4 true ms 0 None = 4.
Proof. vm_compute. auto. Qed.

(* FAULT SHAPES on the write side.  The faulty Write call accepts m bytes of what it is given and
   reports e: (0, e), (0 < n < len p, e), (len p, e); and it is sticky or TRANSIENT (sticky = false:
   the Write calls after it succeed again).  For every shape that reports an error the session has
   the same outcome as with the sticky transport of c08_rtmp_write_which / c08_rtmp_write_peer: the
   operation during which a Write returned the error returns that error -- bufio.Writer records it and
   writes nothing further in that operation, io.Copy returns it at once -- the operations before it
   succeeded, and the peer holds the same bytes.  (A short write WITHOUT an error, term = None, breaks
   the io.Writer contract: the sticky case is covered by the theorems above, cause io.ErrShortWrite;
   for the transient one the model is only run against the implementation -- bufio.Writer may then
   legitimately write the remainder and succeed.) *)
Theorem c08_rtmp_write_shapes sticky hs ms i m e :
  let '(n, oe, w) := rtmp_write_session hs ms (wtr_new_s sticky (Some i) m (Some e)) in
  let '(ns, oes, ws) := rtmp_write_session hs ms (wtr_new (Some i) m (Some e)) in
  n = ns /\ oe = oes /\ wt_received w = wt_received ws /\
  n = free_done i hs ms m (Some e) /\
  (oe = None <-> free_calls hs ms m (Some e) <= i) /\
  (oe <> None -> oe = Some e).
Proof. exact (rtmp_write_session_shapes sticky hs ms i m e). Qed.

(* EVERY PUBLIC WRITE ENTRY POINT.  An operation of a session goes through WriteMessage, or through
   WritePacket with a packet of any kind (connect, createStream, their responses, call, publish, play,
   SetChunkSize, WindowAcknowledgementSize, SetPeerBandwidth, UserControl).  Model/Faults.v transcribes
   WritePacket: marshal, register the transaction of a request (ConnectAppPacket / CreateStreamPacket
   with tid > 0 and a command name), WriteMessage, and on failure roll the registration back and return
   the WriteMessage error with one more layer.  Whatever the mix of entry points, the session has the
   outcome of the WriteMessage-only session over the same messages: same number of completed
   operations, same error, same transport -- the registration and its roll-back never touch the
   result of the write. *)
Theorem c08_rtmp_write_entry_points hs ops w :
  let '(n, oe, w', t) := rtmp_write_session_e hs ops w in
  rtmp_write_session hs (map snd ops) w = (n, oe, w').
Proof. exact (rtmp_write_session_e_proj hs ops w). Qed.

(* c08_rtmp_write_which / c08_rtmp_write_shapes restated over such operation lists: for every fault
   shape that reports an error e (sticky or transient, any number m of accepted bytes) at transport
   Write call i, the session completes exactly free_done i operations, it ends without error iff the
   fault index lies beyond the last write of the fault-free session, and the error it returns is e;
   for a sticky transport also when the faulty call is a short write without error (term = None). *)
Theorem c08_rtmp_write_which_entry_points sticky hs ops i m e :
  let ms := map snd ops in
  let '(n, oe, w, t) := rtmp_write_session_e hs ops (wtr_new_s sticky (Some i) m (Some e)) in
  n = free_done i hs ms m (Some e) /\
  (oe = None <-> free_calls hs ms m (Some e) <= i) /\
  (oe <> None -> oe = Some e).
Proof.
  intros ms. pose proof (rtmp_write_session_e_proj hs ops (wtr_new_s sticky (Some i) m (Some e))) as P.
  destruct (rtmp_write_session_e hs ops _) as [[[n oe] w] t].
  pose proof (rtmp_write_session_shapes sticky hs ms i m e) as Q. fold ms in P. rewrite P in Q.
  destruct (rtmp_write_session hs ms (wtr_new (Some i) m (Some e))) as [[ns oes] ws].
  destruct Q as (_ & _ & _ & Q1 & Q2 & Q3). auto.
Qed.

Theorem c08_rtmp_write_which_entry_points_sticky hs ops i m term :
  let ms := map snd ops in
  let '(n, oe, w, t) := rtmp_write_session_e hs ops (wtr_new (Some i) m term) in
  n = free_done i hs ms m term /\ (oe = None <-> free_calls hs ms m term <= i).
Proof.
  intros ms. pose proof (rtmp_write_session_e_proj hs ops (wtr_new (Some i) m term)) as P.
  destruct (rtmp_write_session_e hs ops _) as [[[n oe] w] t].
  pose proof (rtmp_write_session_which hs ms i m term) as Q. fold ms in P. rewrite P in Q. exact Q.
Qed.

(* The roll-back: when the session ends with an error during a WritePacket of a request, that
   request's transaction id is not registered afterwards (the operation that failed is number
   n - 3 resp. n of the list; t = [] when the handshake failed); without an error the transactions are
   exactly the registrations of the requests, in order. *)
Theorem c08_rtmp_write_rollback hs ops w :
  let '(n, oe, w', t) := rtmp_write_session_e hs ops w in
  (oe <> None ->
   t = [] \/
   exists e m, nth_error ops (N.to_nat (n - hs_count hs)) = Some (e, m) /\ hs_count hs <= n /\
               forall x, request_tid e = Some x -> ~ In x (map fst t)) /\
  (oe = None -> t = registered (map fst ops) []).
Proof.
  pose proof (rtmp_write_session_e_rollback hs ops w) as P.
  pose proof (rtmp_write_session_e_registered hs ops w) as Q.
  destruct (rtmp_write_session_e hs ops w) as [[[n oe] w'] t]. split; assumption.
Qed.

(* non-vacuity: handshake, connect (tid 1, 35-byte payload), createStream (tid 2), a 300-byte message
   through WriteMessage.  Fault at transport write 4 (the flush of createStream): 4 operations
   succeeded, WritePacket(createStream) returns the injected error 4, and only the connect request is
   still registered; fault at write 5: the message fails, both requests stay registered. *)
Example c08_rtmp_write_entry_points_example :
  let ops := [(ViaPacket 0 1 true, pkt_msg 0 1 true 5); (ViaPacket 1 2 true, pkt_msg 1 2 true 0);
              (ViaMessage, mk_rmsg 0 3 9 1000 300 0)] in
  (let '(n, e, w, t) := rtmp_write_session_e true ops (wtr_new (Some 4) 0 (Some 4)) in
   n = 4 /\ e = Some 4 /\ t = [(1, 0)]) /\
  (let '(n, e, w, t) := rtmp_write_session_e true ops (wtr_new_s false (Some 5) 7 (Some 4)) in
   n = 5 /\ e = Some 4 /\ map fst t = [2; 1]).
Proof. vm_compute. auto. Qed.

(* The same over the rtmpchunk builder's WRITER: `their_wops` are the pieces WriteMessage copies into
   the bufio.Writer, as slices of their wire (c0 header, payload part, c3 header, payload part, ...):
   concatenated per message they are exactly the byte strings ws of `write_all`.  For every message
   list and every fault (call index i, accepted bytes m, error or short write):
   - the outcome obeys session_ok over THEIR bytes: the first n messages are completely on the peer's
     side, of message n+1 a prefix, nothing else -- the peer sees a prefix of their wire; the error is
     the transport's;
   - n and error/no error are the functions of i of c08_rtmp_write_which;
   - the executable model session (zero bytes of the sizes computed from the message list, the one the
     correspondence run executes against the real Protocol) gives the same n, the same error and the
     same number of received bytes: the buffered writer depends on its pieces only through their
     lengths (Proofs/FaultsLens.v), and the sizes agree (their_wops_sizes). *)
Theorem c08_rtmp_write ms i m term ws :
  Forall Proofs.RtmpChunkRT.wf_msg ms ->
  Model.RtmpChunk.write_all Model.RtmpChunk.DEFCHUNK ms = map Ok ws ->
  let ops := Proofs.FaultsTheirBytes.their_wops Model.RtmpChunk.DEFCHUNK ms in
  let wf := wtr_new (Some i) m term in
  let '(n, oe, b) := rtmp_write_ops ops (bufw_new wf) 0 in
  map (@concat N) ops = ws /\
  session_ok [] ops 0 n oe (wt_err wf) (bw_under b) /\
  n = free_done i false (map Proofs.FaultsRtmpG.rmsg_of ms) m term /\
  (oe = None <-> free_calls false (map Proofs.FaultsRtmpG.rmsg_of ms) m term <= i) /\
  (let '(n', oe', w') := rtmp_write_session false (map Proofs.FaultsRtmpG.rmsg_of ms) wf in
   n' = n /\ oe' = oe /\ lenN (wt_received w') = lenN (wt_received (bw_under b))).
Proof. exact (Proofs.FaultsTheirBytes.their_write_full ms i m term ws). Qed.

(* and no spurious failure: on a transport that never fails every operation succeeds and the peer
   has the whole wire *)
Theorem c08_rtmp_write_no_fault hs ms m term :
  let '(n, oe, w) := rtmp_write_session hs ms (wtr_new None m term) in
  oe = None /\ n = N.of_nat (length (rtmp_wops hs ms)) /\
  wt_received w = concat (concat (rtmp_wops hs ms)).
Proof. exact (rtmp_write_session_no_fault hs ms m term). Qed.

(* the same for any sequence of operations through a bufio.Writer (pieces of any content),
   starting from a writer with nothing buffered on an intact transport *)
Theorem c08_bufio_write_ops ops b n : clean b -> bw_buf b = [] ->
  let '(n', oe, b') := rtmp_write_ops ops b n in
  session_ok (wt_received (bw_under b)) ops n n' oe (wt_err (bw_under b)) (bw_under b').
Proof. exact (rtmp_write_ops_cases ops b n). Qed.

(* non-vacuity: a 300-byte message (pieces 12,128,1,128,1,44) after the handshake; fault at the
   4th transport write (the Flush of the message) accepting 100 bytes: 3 operations succeeded, the
   4th reports the injected error 4, the peer has the handshake and 100 bytes of the message *)
Example c08_rtmp_write_example :
  let ms := [mk_rmsg 0 3 9 1000 300 0] in
  let '(n, e, w) := rtmp_write_session true ms (wtr_new (Some 3) 100 (Some 4)) in
  n = 3 /\ e = Some 4 /\ lenN (wt_received w) = 3073 + 100 /\
  lenN (concat (concat (rtmp_wops true ms))) = 3073 + 314.
Proof. vm_compute. auto. Qed.

Print Assumptions c08_errors_cause.
Print Assumptions c08_errors_cause_any.
Print Assumptions c08_errors_cause_wrapper_root.
Print Assumptions c08_errors_cause_no_causer.
Print Assumptions c08_errors_cause_foreign_causer.
Print Assumptions c08_errors_message.
Print Assumptions c08_errors_message_any.
Print Assumptions c08_errors_nil.
Print Assumptions c08_errors_nil_op.
Print Assumptions c08_errors_source.
Print Assumptions c08_read_segs_concat.
Print Assumptions c08_read_full_rule.
Print Assumptions c08_flv_read.
Print Assumptions c08_flv_read_any_reader.
Print Assumptions c08_flv_write.
Print Assumptions c08_rtmp_read_partial.
Print Assumptions c08_rtmp_read_outcome_is_session.
Print Assumptions c08_plan_items.
Print Assumptions c08_plan_boundary.
Print Assumptions c08_plan_inside.
Print Assumptions c08_rtmp_read_always_error.
Print Assumptions c08_rtmp_read_cut.
Print Assumptions c08_rtmp_reader_is_theirs.
Print Assumptions c08_rtmp_read.
Print Assumptions c08_rtmp_plan_size.
Print Assumptions c08_rtmp_write_partial.
Print Assumptions c08_rtmp_write_which.
Print Assumptions c08_rtmp_write_peer.
Print Assumptions c08_rtmp_write_shapes.
Print Assumptions c08_rtmp_write_entry_points.
Print Assumptions c08_rtmp_write_which_entry_points.
Print Assumptions c08_rtmp_write_which_entry_points_sticky.
Print Assumptions c08_rtmp_write_rollback.
Print Assumptions c08_rtmp_write.
Print Assumptions c08_rtmp_write_no_fault.
Print Assumptions c08_bufio_write_ops.
