(* C08 -- I/O failures surface as errors that keep their root cause.
   Property theorems only; every proof is `exact <lemma>` or a short composition. *)
From Verif Require Import Lib.Base Lib.Sx Lib.Err Model.ErrorsPkg Proofs.ErrorsPkg.

(* ---------------- the errors package ----------------
   An error value is a root (any error without a Cause method: io.EOF, a custom type, what
   errors.New/Errorf return) under any number of withMessage / withStack layers; `nest s ops`
   applies the wrapping calls ops (WithStack, Wrap, Wrapf, WithMessage, in any order and number)
   to s, the last one outermost. *)

(* For every nesting of the constructors over a root, Cause recovers exactly that root
   (same identity, same text) ... *)
Theorem c08_errors_cause id m ops :
  e_Cause (nest (Some (Root id m)) ops) = Some (Root id m).
Proof. exact (nest_root_cause id m ops). Qed.

(* ... also when the start value is itself already wrapped (what the I/O paths do: each
   caller adds its layer): the cause of the result is the cause of the start value, and
   it is an error without a Cause method. *)
Theorem c08_errors_cause_any x ops :
  e_Cause (nest (Some x) ops) = Some (cause x) /\ is_root (cause x) = true.
Proof. split; [exact (nest_any_cause x ops)|exact (cause_is_root x)]. Qed.

(* Error() of the result is the messages of the layers, outermost first, then the root's own
   text, joined by ": " (WithStack contributes no message). *)
Theorem c08_errors_message id m ops :
  option_map e_Error (nest (Some (Root id m)) ops) = Some (join msg_sep (op_msgs ops ++ [m])).
Proof. exact (nest_root_message id m ops). Qed.

Theorem c08_errors_message_any x ops :
  option_map e_Error (nest (Some x) ops) = Some (join msg_sep (op_msgs ops ++ chain x)) /\
  message x = join msg_sep (chain x).
Proof. split; [exact (nest_any_message x ops)|exact (message_chain x)]. Qed.

(* Wrapping nil yields nil, wrapping a non-nil error never yields nil -- for one call and for
   every nesting. *)
Theorem c08_errors_nil s ops : nest s ops = None <-> s = None.
Proof. exact (nest_nil_iff s ops). Qed.

Theorem c08_errors_nil_op e o : apply_op e o = None <-> e = None.
Proof. exact (apply_op_nil_iff e o). Qed.

(* non-vacuity: Wrapf(WithStack(Wrap(io.EOF, "read")), "chunk %d", 7) *)
Example c08_errors_example :
  let e := nest (Some (Root id_EOF [69;79;70]%N))
                [OpWrap [114;101;97;100]%N; OpWithStack; OpWrapf [PLit [99;32]%N; PDec 7]] in
  e_Cause e = Some (Root id_EOF [69;79;70]%N) /\
  option_map e_Error e = Some [99;32;55;58;32;114;101;97;100;58;32;69;79;70]%N.
Proof. vm_compute. auto. Qed.

Print Assumptions c08_errors_cause.
Print Assumptions c08_errors_cause_any.
Print Assumptions c08_errors_message.
Print Assumptions c08_errors_message_any.
Print Assumptions c08_errors_nil.
Print Assumptions c08_errors_nil_op.
