(* C13 -- WebSocket messages arrive intact, in order, on an RFC 6455-valid wire.
   Property theorems only.  Model: Model/WsWrite.v (conn.go write path, compression.go truncWriter,
   mask.go, prepared.go) and, in the same file, an independent RFC 6455 / 7692 frame parser
   [rfc_parse], validity predicate [rfc_valid] and reassembly [messages].

   Scripts ([item], [wr] in Proofs/WsWriteSession.v) are what an application does with the write
   API: NextWriter + any sequence of Write / WriteString / ReadFrom (any reader behaviour) /
   interleaved WriteControl + Close, the WriteMessage helper (server fast path with the "extra"
   bypass included), and WriteControl between messages.  [run_items] runs them through the model
   functions that the harness cases are run through ([script_is_step_op]). *)
From Verif Require Import Lib.Base Lib.Sx Model.WsWrite.
From Verif Require Import Proofs.WsWrite Proofs.WsWriteFrame Proofs.WsWriteSession Proofs.WsWriteZ Proofs.WsWritePrepared Proofs.WsWriteScript.
Open Scope N_scope.

(* ---- c13_wire_valid: connections without per-message compression ----
   For EVERY role (client masks with whatever keys the oracle stream [ks] yields, server does
   not), EVERY write buffer size B >= 1 (blen = B + maxFrameHeaderSize >= 15), EVERY sequence
   of messages of any size, EVERY mix of the write APIs and EVERY partition into partial writes:
   no call fails, the bytes put on the transport parse completely under the independent parser,
   the frames satisfy [rfc_valid] (known opcodes, RSV bits clear, mask bit by role, MINIMAL
   length form, control frames final and <= 125 bytes, FIN/continuation sequencing, wire ends
   between messages), and reassembling the parsed frames yields exactly the messages written, in
   order, with their types (this is c13_roundtrip for the independent reassembly [messages]). *)
Theorem c13_wire_valid c ks its :
  15 <= blen c < big -> Forall (fun k : bytes => length k = 4%nat) ks -> Forall item_ok its ->
  exists s', run_items c (init_cst false ks) its = Ok (s', eOK) /\
  exists fs, rfc_parse (wire_of s') = Some fs /\ rfc_valid (srv c) false fs = true /\
             messages fs = Some (concat (map item_msgs its)).
Proof. exact (wire_valid_uncompressed c ks its). Qed.

(* non-vacuity: a client with a 16-byte buffer, a fragmented text message written through
   Write / WriteControl / ReadFrom / WriteString, a pong, and a 200-byte WriteMessage *)
Theorem c13_wire_valid_instance :
  let c := mkC false (16 + 14) in
  let its := [IMsg 1 [WrWrite [104;105]; WrCtl 9 [1]; WrReadFrom (repeat 7 40) [3; 0] true; WrString []];
              ICtl 10 []; IWriteMessage 2 (repeat 9 200)] in
  Forall item_ok its /\
  match run_items c (init_cst false [[1;2;3;4]]) its with
  | Ok (s', e) => e = 0 /\ match rfc_parse (wire_of s') with
                           | Some fs => rfc_valid false false fs = true /\ (4 <= length fs)%nat
                           | None => False end
  | _ => False
  end.
Proof. exact wire_valid_instance. Qed.

(* ---- c13_wire_valid_scripts: the same with prepared messages and their frame cache ----
   [pms] are the session's PreparedMessage values; [PP i] is WritePreparedMessage(pms[i]) at any
   point between messages, any number of times (the first send under the connection's
   (role, compression, level) key computes and caches the frame -- on a client a fragmented run
   of 4096-byte frames masked with freshly drawn keys --, later sends replay the cached bytes);
   [PI it] is any item of c13_wire_valid.  Same conclusion. *)
Theorem c13_wire_valid_scripts c pms ks xs :
  15 <= blen c < big -> Forall (fun k : bytes => length k = 4%nat) ks -> Forall (pitem_ok pms) xs ->
  exists s', run_pitems c pms (init_cst false ks) xs = Ok (s', eOK) /\
  exists fs, rfc_parse (wire_of s') = Some fs /\ rfc_valid (srv c) false fs = true /\
             messages fs = Some (concat (map (pitem_msgs pms) xs)).
Proof. intros Hb. exact (wire_valid_scripts c pms Hb ks xs). Qed.

Theorem c13_wire_valid_scripts_instance :
  let c := mkC false (16 + 14) in
  let pms := [(2, repeat 5 5000)] in
  let xs := [PP 0; PI (IWriteMessage 1 [104; 105]); PP 0] in
  Forall (pitem_ok pms) xs /\
  match run_pitems c pms (init_cst false [[1;2;3;4]; [5;6;7;8]; [9;9;9;9]]) xs with
  | Ok (s', e) => e = 0 /\ match rfc_parse (wire_of s') with
                           | Some fs => rfc_valid false false fs = true /\ length fs = 5%nat
                                        /\ option_map (@length _) (messages fs) = Some 3%nat
                           | None => False end
  | _ => False
  end.
Proof. exact scripts_instance. Qed.

(* the same from any fresh connection state: whatever the 14-byte header area in front of the
   write buffer holds initially (on a server it holds the first bytes of the handshake response,
   written through the same buffer) and whatever the compression level field *)
Theorem c13_wire_valid_any_header c h ks l its :
  15 <= blen c < big -> length h = 14%nat ->
  Forall (fun k : bytes => length k = 4%nat) ks -> Forall item_ok its ->
  exists s', run_items c (cst0 (mkM h [] maxHdr 0 false ks [] 0) false l) its = Ok (s', eOK) /\
  exists fs, rfc_parse (wire_of s') = Some fs /\ rfc_valid (srv c) false fs = true /\
             messages fs = Some (concat (map item_msgs its)).
Proof. exact (wire_valid_any_header c h ks l its). Qed.

(* ---- prepared messages (keys without compression) ----
   [seg_ok role v msgs]: v is a closed run of valid frames that reassembles to msgs.
   PreparedMessage.frame(key) -- WriteMessage on a scratch connection with the default buffer,
   so the client variant is fragmented at 4096 bytes -- is such a run carrying exactly the
   message, for every size; the first WritePreparedMessage under a key computes, caches and
   sends it; every later one sends the cached bytes and draws no mask key; both leave the
   connection in the between-messages invariant [SInv] from which c13_wire_valid's induction
   continues (SInv c s ds dn: the wire so far is the encoding of the frame list ds, valid, closed,
   reassembling to dn). *)
Theorem c13_prepared_frame is_srv l t p ks :
  data_type t -> lenN p < big -> Forall (fun k : bytes => length k = 4%nat) ks ->
  exists v ks', prepared_frame is_srv false l t p ks [] [] = Ok (v, ks', eOK) /\
    seg_ok is_srv v [(t, false, p)] /\ Forall (fun k : bytes => length k = 4%nat) ks'.
Proof. exact (prepared_frame_ok is_srv l t p ks). Qed.

Theorem c13_prepared_first c s ds dn idx t p :
  SInv c s ds dn -> data_type t -> lenN p < big ->
  pfind (idx, srv c, false, lvl s) (pcache s) = None ->
  exists s' ds' v, do_prepared c s idx t p [] [] = Ok (s', eOK) /\ SInv c s' ds' (dn ++ [(t, false, p)]) /\
    seg_ok (srv c) v [(t, false, p)] /\ pcache s' = ((idx, srv c, false, lvl s), v) :: pcache s /\ lvl s' = lvl s.
Proof. exact (do_prepared_miss c s ds dn idx t p). Qed.

Theorem c13_prepared_again c s ds dn idx t p v :
  SInv c s ds dn -> data_type t ->
  pfind (idx, srv c, false, lvl s) (pcache s) = Some v -> seg_ok (srv c) v [(t, false, p)] ->
  exists s' ds', do_prepared c s idx t p [] [] = Ok (s', eOK) /\ SInv c s' ds' (dn ++ [(t, false, p)]) /\
    pcache s' = pcache s /\ keys (mw s') = keys (mw s) /\ lvl s' = lvl s.
Proof. exact (do_prepared_hit c s ds dn idx t p v). Qed.

(* WriteJSON on the same invariant: NextWriter(TextMessage) + one Write of the encoder's output
   [enc] (encoding/json is an oracle) + Close, as the harness op 7 runs it *)
Theorem c13_write_json c s ds dn enc : 15 <= blen c < big -> SInv c s ds dn -> lenN enc < big ->
  exists s' ds', step_op c [] s (SL [SZ 7; SB enc; SL []; SL []]) = Ok (s', eOK)
                 /\ SInv c s' ds' (dn ++ [(1, false, enc)]).
Proof. exact (write_json_ok c s ds dn enc). Qed.

(* what SInv means for an observer of the wire *)
Theorem c13_invariant_meaning c s ds dn : SInv c s ds dn ->
  exists fs, rfc_parse (wire_of s) = Some fs /\ rfc_valid (srv c) false fs = true /\ messages fs = Some dn.
Proof. exact (SInv_final c s ds dn). Qed.

(* ---- c13_wire_valid_compressed: permessage-deflate negotiated and enabled ----
   compress/flate is an oracle: a message is described by the chunks the flate writer handed to
   the truncWriter during each Write and during Close (fw.Flush); the only assumption is that
   the whole stream ends with the sync-flush marker 00 00 ff ff ([zitem_ok]).  For every role,
   buffer size, chunking and message sequence: no call fails (in particular the
   "unexpected bytes at end of flate stream" check passes), the wire is [rfc_valid] with RSV1 on
   exactly the first frame of every data message, and every message's reassembled payload is
   its flate stream minus the last four bytes. *)
Theorem c13_wire_valid_compressed c ks its :
  15 <= blen c < big -> Forall (fun k : bytes => length k = 4%nat) ks -> Forall zitem_ok its ->
  exists s', run_zitems c (init_cst true ks) its = Ok (s', eOK) /\
  exists fs, rfc_parse (wire_of s') = Some fs /\ rfc_valid (srv c) true fs = true /\
             messages fs = Some (concat (map zitem_msgs its)).
Proof. exact (wire_valid_compressed c ks its). Qed.

(* ... and appending 00 00 ff ff to that payload (RFC 7692 7.2.2, what the read side's
   tail re-insertion does) inflates to the message, for any inflate/deflate pair with the
   sync-flush law (Section hypothesis, discharged here by the caller: no axiom). *)
Theorem c13_roundtrip_compressed
  (inflate : bytes -> option bytes) (deflate_of : bytes -> bytes -> Prop)
  (law : forall data stream, deflate_of data stream ->
           exists body, stream = body ++ flate_tail /\ inflate (body ++ flate_tail) = Some data)
  data stream :
  deflate_of data stream -> inflate (zbody stream ++ flate_tail) = Some data.
Proof. exact (compressed_roundtrip inflate deflate_of law data stream). Qed.

(* ---- c13_flush_frame: one flushFrame call = one RFC frame, header in front of the data ----
   For every state with a 14-byte header area (contents arbitrary: stale bytes of earlier frames
   or of the handshake response never reach the wire), buffered data d and server-side extra e:
   the transport receives exactly [enc_frame] of d ++ e -- FIN as requested, RSV1 = the compress
   flag, the writer's opcode, the 7-bit / 16-bit / 64-bit length form chosen minimally, and on a
   client the fresh key followed by the masked payload -- and a non-final flush resets the
   writer to an empty buffer with opcode continuation and RSV1 cleared. *)
Theorem c13_flush_frame c w (final : bool) extra :
  good w -> op_ok (ftype w) ->
  (is_control (ftype w) = true -> final = true /\ lenN (buffered w ++ extra) <= 125) ->
  (srv c = false -> extra = []) ->
  lenN (buffered w ++ extra) < 9223372036854775808 ->
  exists w', flush_frame c w final extra = Ok (w', eOK) /\
    wire w' = wire w ++ enc_frame (srv c) final (cflag w) (ftype w) (next_key w) (buffered w ++ extra) /\
    keys w' = (if srv c then keys w else snd (pop_key (keys w))) /\
    length (hdr w') = 14%nat /\
    werrc w' = (if ftype w =? opClose then eCloseSent else 0) /\
    (final = false -> rbuf w' = [] /\ pos w' = maxHdr /\ ftype w' = opCont /\ cflag w' = false).
Proof. exact (flush_ok c w final extra). Qed.

(* the independent parser reads every such frame back (all three length forms, both roles) *)
Theorem c13_parse_encoded is_srv (fin z : bool) op key pl rest :
  op_ok op -> length key = 4%nat -> lenN pl < 9223372036854775808 ->
  parse_one (enc_frame is_srv fin z op key pl ++ rest) = Some (abs_frame is_srv fin z op key pl, rest).
Proof. exact (parse_enc is_srv fin z op key pl rest). Qed.

(* ---- c13_trunc: truncWriter ----
   every chunking of a stream of at least four bytes: everything but the last four bytes reaches
   the underlying writer, in order; exactly the last four are retained; shorter streams emit
   nothing. *)
Theorem c13_trunc chunks :
  let s := concat chunks in
  let r := tw_run tw0 chunks in
  (4 <= length s)%nat ->
  concat (snd r) = firstn (length s - 4) s /\ tp (fst r) = skipn (length s - 4) s /\ tn (fst r) = 4.
Proof. exact (trunc_writer_spec chunks). Qed.

Theorem c13_trunc_short chunks :
  let s := concat chunks in
  let r := tw_run tw0 chunks in
  (length s < 4)%nat ->
  concat (snd r) = [] /\ tn (fst r) = N.of_nat (length s) /\ firstn (length s) (tp (fst r)) = s.
Proof. exact (trunc_writer_short chunks). Qed.

(* ---- c13_mask_involutive: masking ---- *)
Theorem c13_mask_involutive k pos b : mask_from k pos (mask_from k pos b) = b.
Proof. exact (mask_from_involutive k b pos). Qed.

(* the word-at-a-time loop of mask.go (any alignment of the buffer, any starting position)
   computes the byte-at-a-time definition and returns (pos + len) & 3 *)
Theorem c13_mask_words align k pos b :
  mask_words align k pos b = (mask_from k pos b, (pos + lenN b) mod 4).
Proof. exact (mask_words_spec align k pos b). Qed.

(* the rotating-key variant the executable model runs is the same function *)
Theorem c13_mask_fast k pos b : length k = 4%nat -> mask_fast k pos b = mask_from k pos b.
Proof. exact (mask_fast_spec k pos b). Qed.

Print Assumptions c13_wire_valid.
Print Assumptions c13_wire_valid_instance.
Print Assumptions c13_wire_valid_scripts.
Print Assumptions c13_wire_valid_scripts_instance.
Print Assumptions c13_wire_valid_any_header.
Print Assumptions c13_prepared_frame.
Print Assumptions c13_prepared_first.
Print Assumptions c13_prepared_again.
Print Assumptions c13_write_json.
Print Assumptions c13_invariant_meaning.
Print Assumptions c13_wire_valid_compressed.
Print Assumptions c13_roundtrip_compressed.
Print Assumptions c13_flush_frame.
Print Assumptions c13_parse_encoded.
Print Assumptions c13_trunc.
Print Assumptions c13_trunc_short.
Print Assumptions c13_mask_involutive.
Print Assumptions c13_mask_words.
Print Assumptions c13_mask_fast.
