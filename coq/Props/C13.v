(* C13 -- WebSocket messages arrive intact, in order, on an RFC 6455-valid wire.
   Property theorems only.  Model: Model/WsWrite.v (conn.go write path, compression.go truncWriter,
   mask.go, prepared.go) and, in the same file, an independent RFC 6455 / 7692 frame parser
   [rfc_parse], validity predicate [rfc_valid], reassembly [messages] and event list [events]
   (data messages and control frames, in wire order, with their payloads).

   Operations ([op], Proofs/WsWriteOps.v) are the calls of the write API, one constructor each:
   NextWriter (which, as prepWrite does, first closes a writer the application left open),
   Write / WriteString / ReadFrom (any reader behaviour), Close, WriteMessage (server fast path
   with the "extra" bypass, or NextWriter+Write+Close), WriteJSON, WritePreparedMessage (frame
   cache per (message, role, compression, level)), WriteControl (ping/pong, also between two
   writes of a message), SetCompressionLevel, EnableWriteCompression.  compress/flate and
   encoding/json are oracles: operations carry the chunks the flate writer handed to the
   truncWriter during the call and the encoder's output.  [run_op] is the model function the
   harness cases run through ([c13_ops_are_harness_ops]).

   [spec_run] is the specification: pure bookkeeping over the operations (which writer is open,
   what was written to it, whether the next message is compressed, which prepared frames exist)
   that yields the list of events the peer is entitled to see, or None if the application
   misuses the API (Write without a writer, a control frame over 125 bytes, an unknown message
   type, a flate stream that does not end in 00 00 ff ff, an argument of 2^62 bytes ...). *)
From Verif Require Import Lib.Base Lib.Sx Model.WsWrite.
From Verif Require Import Lib.WsSha1 Gen.Gen_websocket.
From Verif Require Import Proofs.WsWrite Proofs.WsWriteFrame Proofs.WsWriteSession Proofs.WsWriteOps Proofs.WsWriteHandshake Proofs.WsWriteFail.
Open Scope N_scope.

(* ---- c13_wire_valid ----
   For EVERY role (client masks with whatever keys the oracle stream [ks] yields, server does
   not), with permessage-deflate negotiated or not ([pmd]), EVERY write buffer size B >= 1
   (blen = B + maxFrameHeaderSize >= 15), EVERY admissible sequence of operations -- every
   message size, every mix of the write APIs, every partition into partial writes, compression
   switched on and off and its level changed between messages, writers left open and closed
   implicitly, prepared messages sent any number of times -- that ends with no writer open:
   no call fails; the bytes put on the transport parse completely under the independent parser;
   the frames satisfy [rfc_valid] (known opcodes, RSV2/3 clear, RSV1 only with the extension and
   only on the first frame of a message, never on control frames, mask bit by role, MINIMAL
   length form, control frames final and <= 125 bytes, FIN/continuation sequencing, the wire
   ends between messages); the event list of the parsed frames -- data messages (type,
   compressed?, payload) and control frames (opcode, payload) interleaved in wire order -- is
   exactly the specification's; in particular [messages] returns the data messages written,
   in order (c13_roundtrip for the independent reassembly).  For a compressed message the
   payload is its flate stream minus the trailing 00 00 ff ff (see c13_roundtrip_compressed). *)
Theorem c13_wire_valid c pmd pms ks os sp' evs :
  15 <= blen c < big -> Forall (fun k : bytes => length k = 4%nat) ks ->
  spec_run pmd pms spec0 os = Some (sp', evs) -> sp_ph sp' = SClosed ->
  exists s', run_oplist c pms (init_cst pmd ks) os = Ok (s', eOK) /\
  exists fs, rfc_parse (wire_of s') = Some fs /\ rfc_valid (srv c) pmd fs = true /\
             events fs = Some evs /\ messages fs = Some (filter data_event evs).
Proof. exact (wire_valid_ops c pmd pms ks os sp' evs). Qed.

(* one step of it: the invariant [GInv] ties the model state to the specification state *)
Theorem c13_step_refines c pmd pms s sp dn o sp' evs :
  15 <= blen c < big -> GInv c pmd pms s sp dn -> spec_step pmd pms sp o = Some (sp', evs) ->
  exists s', run_op c pms s o = Ok (s', eOK) /\ GInv c pmd pms s' sp' (dn ++ evs).
Proof. intros Hb. exact (step_refines c pmd pms Hb s sp dn o sp' evs). Qed.

Theorem c13_ops_are_harness_ops c pms s o : step_op c pms s (sx_of_op o) = run_op c pms s o.
Proof. exact (run_op_is_step_op c pms s o). Qed.

(* non-vacuity: a client with a 16-byte buffer; a binary message left open (with a ping between
   its writes) and closed by the next WriteMessage; a 65-byte text message in five frames;
   WriteJSON; a prepared message sent twice (second time from the cache); a pong *)
Theorem c13_wire_valid_instance :
  let c := mkC false (16 + 14) in
  let os := [ONext 2 []; OWrite [1;2;3] []; OCtl 9 [7];
             OWriteMessage 1 (repeat 65 40) [] [] [];
             OEnable false; OJson [91;93;10] [] [] []; OPrepared 0 [] []; OPrepared 0 [] []; OCtl 10 []] in
  match spec_run false [(1, [104;105])] spec0 os with
  | Some (sp', evs) =>
      sp_ph sp' = SClosed /\
      evs = [(9, false, [7]); (2, false, [1;2;3]); (1, false, repeat 65 40); (1, false, [91;93;10]);
             (1, false, [104;105]); (1, false, [104;105]); (10, false, [])] /\
      match run_oplist c [(1, [104;105])] (init_cst false [[1;2;3;4]]) os with
      | Ok (s', e) => e = 0 /\ option_map (fun fs => events fs) (rfc_parse (wire_of s')) = Some (Some evs)
      | _ => False
      end
  | None => False
  end.
Proof. exact ops_instance. Qed.

(* what the receiver does with a compressed payload (RFC 7692 7.2.2, the read side's tail
   re-insertion): appending 00 00 ff ff inflates to the message, for any inflate/deflate pair
   with the sync-flush law (a hypothesis discharged by the caller: no axiom) *)
Theorem c13_roundtrip_compressed
  (inflate : bytes -> option bytes) (deflate_of : bytes -> bytes -> Prop)
  (law : forall data stream, deflate_of data stream ->
           exists body, stream = body ++ flate_tail /\ inflate (body ++ flate_tail) = Some data)
  data stream :
  deflate_of data stream -> inflate (zbody stream ++ flate_tail) = Some data.
Proof.
  intros H. destruct (law data stream H) as (body & -> & Hi). rewrite zbody_app. exact Hi.
Qed.

(* ---- c13_accept_key: the opening handshake ----
   [compute_accept_key] is computeAcceptKey with an executable Gallina SHA-1 and base64
   (Lib/WsSha1.v, cross-checked against crypto/sha1 / encoding/base64 by the correspondence run
   on random keys) and the GUID regenerated from util.go; it is RFC 6455's value (same GUID), it
   maps the section 1.3 example key to the example answer, and the two ends of the library
   agree for EVERY key: whenever Upgrade accepts a request, Dial accepts the answer, and both
   sides switch permessage-deflate on or off together. *)
Theorem c13_accept_key :
  websocket_keyGUID = rfc_guid /\
  (forall key, compute_accept_key key = rfc_accept key) /\
  compute_accept_key [100;71;104;108;73;72;78;104;98;88;66;115;90;83;66;117;98;50;53;106;90;81;61;61]
  = [115;51;112;80;76;77;66;105;84;120;97;81;57;107;89;71;122;122;104;90;82;98;75;43;120;79;111;61] /\
  (forall u q r, response_of (upgrade_decide u q) = Some r ->
     client_decide (rq_key q) r = (0, uc_comp u && mem_bytes pmd_name (rq_exts q))) /\
  (forall key r, rs_101 r = true -> rs_upg r = true -> rs_conn r = true ->
     (fst (client_decide key r) <> 1 <-> rs_accept r = compute_accept_key key)).
Proof.
  split; [exact guid_is_rfc|]. split; [exact accept_is_rfc|]. split; [exact accept_rfc_example|].
  split; [exact handshake_agrees|exact client_accepts_iff].
Qed.

(* Upgrader.Upgrade's decision table against RFC 6455 section 4.2.1 / 4.2.2 and RFC 7692
   section 5: soundness (an accepted request is a GET with Upgrade: websocket, Connection:
   Upgrade, version 13, a key and an acceptable origin; the answer carries the RFC's accept
   value, a subprotocol that the client offered and the server lists -- or none --, and the
   extension iff the client offered permessage-deflate and the server enables it),
   completeness, and the status of every refusal.  Not enforced by the code and therefore NOT
   claimed: the key decoding to 16 bytes (4.2.1 item 5) and the server_max_window_bits rule of
   RFC 7692 7.1.2.1 ([upgrade_lax_key]; inherited from upstream; the library's own client never
   sends such requests). *)
Theorem c13_upgrade_sound u q acc proto z : upgrade_decide u q = HAccept acc proto z ->
  rq_get q = true /\ rq_conn q = true /\ rq_upg q = true /\ rq_v13 q = true /\ rq_origin q = true /\
  rq_resp_ext q = false /\ rq_key q <> [] /\
  acc = rfc_accept (rq_key q) /\
  (forall sp, uc_protos u = Some sp ->
     proto = [] \/ (mem_bytes proto (rq_protos q) = true /\ mem_bytes proto sp = true)) /\
  (z = true <-> uc_comp u = true /\ mem_bytes pmd_name (rq_exts q) = true).
Proof. exact (upgrade_sound u q acc proto z). Qed.

Theorem c13_upgrade_complete u q :
  rq_get q = true -> rq_conn q = true -> rq_upg q = true -> rq_v13 q = true -> rq_origin q = true ->
  rq_resp_ext q = false -> rq_key q <> [] ->
  upgrade_decide u q = HAccept (rfc_accept (rq_key q)) (select_subprotocol u q)
                               (uc_comp u && mem_bytes pmd_name (rq_exts q)).
Proof. exact (upgrade_complete u q). Qed.

Theorem c13_upgrade_reject_status u q st : upgrade_decide u q = HReject st ->
  (st = 405 /\ rq_get q = false) \/ (st = 500 /\ rq_resp_ext q = true) \/ (st = 403 /\ rq_origin q = false) \/
  (st = 400 /\ (rq_conn q = false \/ rq_upg q = false \/ rq_v13 q = false \/ rq_key q = [])).
Proof. exact (upgrade_reject_status u q st). Qed.

(* ---- error paths: what holds after a transport write has failed ----
   The model has the transport fail at a chosen write ([wbudget]); [c13_wire_valid] is about
   transports that do not fail ([healthy]).  (1) A failing write latches the error, as
   writeFatal does.  (2) From then on EVERY operation -- any arguments, well-formed or not --
   leaves the bytes given to the transport exactly as they were: nothing is sent after the
   failure.  (3) NextWriter, Close, WriteMessage, WriteJSON, WritePreparedMessage and
   WriteControl report an error.  (4) What does NOT hold: "every later write fails".
   messageWriter.fatal tests `w.err != nil` where `w.err == nil` is meant, so the writer that
   saw the failure is never marked and a later Write/WriteString/ReadFrom on it that fits the
   buffer returns success although nothing will be sent ([c13_later_write_fails_refuted]:
   NextWriter ok, Write ok, Close = transport error, Write "ok", Close = error). *)
Theorem c13_transport_failure_latches w t bufs w' e : werrc w = 0 -> conn_write w t bufs = (w', e) ->
  e <> 0 -> e = eTransport /\ werrc w' = eTransport.
Proof. exact (transport_failure_latches w t bufs w' e). Qed.

Theorem c13_after_failure_nothing_sent c pms os s x :
  werrc (mw s) <> 0 -> run_oplist c pms s os = Ok x -> wire_of (fst x) = wire_of s.
Proof. exact (after_failure_wire c pms os s x). Qed.

Theorem c13_after_failure_reported c pms s o x : werrc (mw s) <> 0 -> run_op c pms s o = Ok x ->
  match o with
  | ONext _ _ | OClose _ | OWriteMessage _ _ _ _ _ | OJson _ _ _ _ | OCtl _ _ => snd x <> 0
  | OPrepared idx _ _ => nth_error pms (N.to_nat idx) <> None -> snd x <> 0
  | _ => True
  end.
Proof. exact (after_failure_reported c pms s o x). Qed.

Theorem c13_later_write_fails_refuted :
  codes_of (mkC false 30) [] (with_budget (init_cst false [[1;2;3;4]]) (Some 0))
           [ONext 1 []; OWrite [1] []; OClose []; OWrite [2] []; OClose []; ONext 1 []]
  = [0; 0; eTransport; 0; eTransport; eTransport].
Proof. exact later_write_fails_refuted. Qed.

(* ---- c13_flush_frame: one flushFrame call = one RFC frame, header in front of the data ----
   For every state with a 14-byte header area (contents arbitrary: stale bytes of earlier frames
   or of the handshake response never reach the wire), buffered data d and server-side extra e:
   the transport receives exactly [enc_frame] of d ++ e -- FIN as requested, RSV1 = the compress
   flag, the writer's opcode, the 7-bit / 16-bit / 64-bit length form chosen minimally, and on a
   client the fresh key followed by the masked payload -- and a non-final flush resets the
   writer to an empty buffer with opcode continuation and RSV1 cleared. *)
Theorem c13_flush_frame c w (final : bool) extra :
  good w -> op_ok (ftype w) ->
  (is_control (ftype w) = true -> final = true /\ lenN (buffered w ++ extra) <= 125) ->
  (srv c = false -> extra = []) ->
  lenN (buffered w ++ extra) < 9223372036854775808 ->
  exists w', flush_frame c w final extra = Ok (w', eOK) /\
    wire w' = wire w ++ enc_frame (srv c) final (cflag w) (ftype w) (next_key w) (buffered w ++ extra) /\
    keys w' = (if srv c then keys w else snd (pop_key (keys w))) /\
    length (hdr w') = 14%nat /\
    werrc w' = (if ftype w =? opClose then eCloseSent else 0) /\ wbudget w' = None /\
    (final = false -> rbuf w' = [] /\ pos w' = maxHdr /\ ftype w' = opCont /\ cflag w' = false).
Proof. exact (flush_ok c w final extra). Qed.

(* the independent parser reads every such frame back (all three length forms, both roles) *)
Theorem c13_parse_encoded is_srv (fin z : bool) op key pl rest :
  op_ok op -> length key = 4%nat -> lenN pl < 9223372036854775808 ->
  parse_one (enc_frame is_srv fin z op key pl ++ rest) = Some (abs_frame is_srv fin z op key pl, rest).
Proof. exact (parse_enc is_srv fin z op key pl rest). Qed.

(* PreparedMessage.frame(key): WriteMessage on a scratch connection with the default buffer (so
   the client variant is fragmented at 4096 bytes) is a closed run of valid frames carrying
   exactly the message, compressed or not *)
Theorem c13_prepared_frame is_srv cp l t p ks wch cch :
  data_type t -> lenN p < big -> Forall (fun k : bytes => length k = 4%nat) ks -> zcond cp wch cch ->
  exists v ks', prepared_frame is_srv cp l t p ks wch cch = Ok (v, ks', eOK) /\
    seg_ok cp is_srv v [(t, cp, payload_of cp p wch cch)] /\ Forall (fun k : bytes => length k = 4%nat) ks'.
Proof. exact (prepared_frame_ok is_srv cp l t p ks wch cch). Qed.

(* ---- c13_trunc: truncWriter ---- *)
Theorem c13_trunc chunks :
  let s := concat chunks in
  let r := tw_run tw0 chunks in
  (4 <= length s)%nat ->
  concat (snd r) = firstn (length s - 4) s /\ tp (fst r) = skipn (length s - 4) s /\ tn (fst r) = 4.
Proof. exact (trunc_writer_spec chunks). Qed.

Theorem c13_trunc_short chunks :
  let s := concat chunks in
  let r := tw_run tw0 chunks in
  (length s < 4)%nat ->
  concat (snd r) = [] /\ tn (fst r) = N.of_nat (length s) /\ firstn (length s) (tp (fst r)) = s.
Proof. exact (trunc_writer_short chunks). Qed.

(* ---- c13_mask_involutive: masking ---- *)
Theorem c13_mask_involutive k pos b : mask_from k pos (mask_from k pos b) = b.
Proof. exact (mask_from_involutive k b pos). Qed.

Theorem c13_mask_words align k pos b :
  mask_words align k pos b = (mask_from k pos b, (pos + lenN b) mod 4).
Proof. exact (mask_words_spec align k pos b). Qed.

Theorem c13_mask_fast k pos b : length k = 4%nat -> mask_fast k pos b = mask_from k pos b.
Proof. exact (mask_fast_spec k pos b). Qed.

Print Assumptions c13_wire_valid.
Print Assumptions c13_step_refines.
Print Assumptions c13_ops_are_harness_ops.
Print Assumptions c13_wire_valid_instance.
Print Assumptions c13_roundtrip_compressed.
Print Assumptions c13_accept_key.
Print Assumptions c13_upgrade_sound.
Print Assumptions c13_upgrade_complete.
Print Assumptions c13_upgrade_reject_status.
Print Assumptions c13_transport_failure_latches.
Print Assumptions c13_after_failure_nothing_sent.
Print Assumptions c13_after_failure_reported.
Print Assumptions c13_later_write_fails_refuted.
Print Assumptions c13_flush_frame.
Print Assumptions c13_parse_encoded.
Print Assumptions c13_prepared_frame.
Print Assumptions c13_trunc.
Print Assumptions c13_trunc_short.
Print Assumptions c13_mask_involutive.
Print Assumptions c13_mask_words.
Print Assumptions c13_mask_fast.
