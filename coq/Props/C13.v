(* C13 -- WebSocket messages arrive intact, in order, on an RFC 6455-valid wire. *)
From Verif Require Import Lib.Base Lib.Sx Model.WsWrite Proofs.WsWrite.
Open Scope N_scope.

Theorem c13_mask_involutive k pos b : mask_from k pos (mask_from k pos b) = b.
Proof. exact (mask_from_involutive k b pos). Qed.

Print Assumptions c13_mask_involutive.
