(* C19 -- HTTP API responses are a well-formed envelope the client half reads back.

   Model: Model/HttpApi.v.  [respond g cb p] is the response of the handler for payload p
   (Data value, SystemError, SystemComplexError, application error with Code(), any other
   error) to a request whose callback parameter is cb, with g = (Server variable, pid).
   encoding/json is an oracle: every theorem below quantifies over a marshaller [marshal]
   (object members to bytes) and the client's view of a body [parse_view], related only by
   the law [parse_marshal]: parsing a marshalled object gives its members back (integer codes
   up to float64 rounding, round53).  [wire] is the body on the wire, [api_request] what
   ApiRequest returns: (code, err != nil). *)
From Verif Require Import Lib.Base Lib.Sx Model.HttpApi Proofs.HttpApi.
From Coq Require Import String.
Open Scope Z_scope.

(* json_law marshal parse_view (Proofs/HttpApi.v) is the assumed law of encoding/json:
     forall m, all members marshalable -> parse_view (marshal m) = view_of_members m *)

(* the content types are the ones the property names (constants regenerated from http.go) *)
Theorem c19_content_types :
  ctype_str CtJson = "application/json"%string /\ ctype_str CtJs = "application/javascript"%string.
Proof. vm_compute. auto. Qed.

(* [core] success: any marshalable value -> 200, JSON content type (JavaScript with a callback),
   the configured Server header, body = the object {code 0, data v, server pid} (wrapped when a
   callback is given), and the client half reads it back as code 0 without error. *)
Theorem c19_success marshal parse_view (L : json_law marshal parse_view) g cb v merr :
  marshalable v = true ->
  respond g cb (PData v merr) =
    {| status := 200; ctyp := if is_nil cb then CtJson else CtJs; server := srv_name g; body := BEnv cb (envelope g v) |}
  /\ api_request marshal parse_view (respond g [] (PData v merr)) = (0, false).
Proof. intros H. split; [exact (success_resp g cb v merr H)|exact (success_client marshal parse_view L g v merr H)]. Qed.

(* [core] JSONP: with a non-empty callback every response that goes through jsonHandler (success
   and the three coded error kinds) has the same status, the JavaScript content type, and its
   wire body is callback ( the-JSON-of-the-plain-response ). *)
Theorem c19_jsonp marshal g cb p :
  cb <> [] -> via_json_handler p = true ->
  let r := respond g cb p in let r0 := respond g [] p in
  status r = status r0 /\ ctyp r = CtJs /\ ctyp r0 = CtJson /\ server r = srv_name g /\
  wire marshal (body r) = cb ++ [lparen] ++ wire marshal (body r0) ++ [rparen].
Proof. exact (jsonp_wrap marshal g cb p). Qed.

(* the same on the executable model: the complete body bytes compared with the implementation in
   the correspondence run are [wire] with the marshaller instantiated by the bytes encoding/json
   produced, and with a callback they are callback ( plain body ) byte for byte *)
Theorem c19_jsonp_bytes g cb p mb :
  cb <> [] -> via_json_handler p = true ->
  wire_exec mb (body (respond g cb p)) = cb ++ [40%N] ++ wire_exec mb (body (respond g [] p)) ++ [41%N]
  /\ (forall b, wire_exec mb b = wire (fun _ => mb) b).
Proof. intros H1 H2. split; [exact (wire_exec_jsonp g cb p mb H1 H2)|intros b; exact (wire_exec_wire mb b)]. Qed.

(* [core] coded errors: a system error answers {code c}, a complex error and an application
   error answer {code c, data message}, all with status 200; for every c <> 0 the client half
   reports an error, with the code itself whenever |c| < 2^53 (beyond that the JSON number
   passes through float64: round53 c, which is never 0). *)
Theorem c19_error_codes marshal parse_view (L : json_law marshal parse_view) g cb p c members :
  coded p c members ->
  respond g cb p = {| status := 200; ctyp := if is_nil cb then CtJson else CtJs; server := srv_name g; body := BEnv cb members |}
  /\ (c <> 0 -> api_request marshal parse_view (respond g [] p) = (round53 c, true) /\ round53 c <> 0)
  /\ (Z.abs c < 9007199254740992 -> round53 c = c).
Proof.
  intros H. split; [exact (coded_resp g cb p c members H)|]. split; [|apply round53_small].
  intros Hz. split; [exact (coded_client marshal parse_view L g p c members H Hz)|exact (round53_nonzero c Hz)].
Qed.

(* plain errors: the error's own status (default 500), text/plain, the text and a newline;
   whatever the text is -- also when it looks like a success envelope -- the client half
   reports an error as long as the declared status is an error or redirect status, 300 and up
   (fix 219c663; DESIGN 5 item 23).  Declared statuses below 200 are outside the model: net/http
   sends 1xx as an informational response followed by a final 200. *)
Theorem c19_plain_error marshal parse_view g cb st msg :
  respond g cb (PPlain st msg) =
    {| status := match st with Some s => s | None => 500 end; ctyp := CtText; server := srv_name g; body := BText (msg ++ [10%N]) |}
  /\ ((match st with Some s => 300 <= s | None => True end) ->
      snd (api_request marshal parse_view (respond g [] (PPlain st msg))) = true).
Proof. split; [reflexivity|exact (plain_client marshal parse_view g st msg)]. Qed.

(* [core] a value that cannot be marshalled (a channel, function, complex number, NaN or infinity
   anywhere inside) yields a whole error response -- status 500, the marshaller's error text --
   never a partial body, and the client half reports an error. *)
Theorem c19_unmarshalable marshal parse_view g cb v merr :
  marshalable v = false ->
  respond g cb (PData v merr) = {| status := 500; ctyp := CtText; server := srv_name g; body := BText (merr ++ [10%N]) |}
  /\ snd (api_request marshal parse_view (respond g [] (PData v merr))) = true.
Proof. intros H. split; [exact (unmarshalable_resp g cb v merr H)|exact (unmarshalable_client marshal parse_view g v merr H)]. Qed.

(* success and failure are never confused: every failure (unmarshalable value, non-zero code,
   plain error whose status is 300 or more, or the default 500) is reported as an error, every marshalable value as
   code 0 without error. *)
Theorem c19_never_confused marshal parse_view (L : json_law marshal parse_view) g p :
  (is_failure p -> snd (api_request marshal parse_view (respond g [] p)) = true) /\
  (forall v merr, p = PData v merr -> marshalable v = true ->
     api_request marshal parse_view (respond g [] p) = (0, false)).
Proof. exact (never_confused marshal parse_view L g p). Qed.

(* recorded finding plain-error-2xx-json: an error that itself declares a 2xx status and whose
   text the decoder reads as an object with code 0 is answered with that status and text, and
   the client half reads it as success. *)
Theorem c19_plain_2xx_refuted marshal parse_view g :
  exists st msg,
    200 <= st < 300 /\
    (status (respond g [] (PPlain (Some st) msg)) = st) /\
    (wire marshal (body (respond g [] (PPlain (Some st) msg))) = (msg ++ [10%N])%list) /\
    (parse_view (msg ++ [10%N]) = VCode 0 ->
     api_request marshal parse_view (respond g [] (PPlain (Some st) msg)) = (0, false)).
Proof. exact (plain_2xx_confused marshal parse_view g). Qed.

(* the executable client of the model (the one run against ApiRequest) is api_request *)
Theorem c19_client_model marshal parse_view (L : json_law marshal parse_view) r tv :
  (forall t, body r = BText t -> parse_view t = tv) ->
  (forall m, body r = BEnv [] m -> forallb (fun kv => marshalable (snd kv)) m = true) ->
  (forall cb m, body r = BEnv cb m -> cb = []) ->
  forall jtv, api_request marshal parse_view r = client (status r) (body_view (body r) tv jtv).
Proof. exact (api_request_abs marshal parse_view L r tv). Qed.

(* [core] the client's fetch (apiGet: http.Get + ioutil.ReadAll): however the transport splits the response
   body into reads -- 1 byte at a time, empty reads, the end arriving with or after the last
   bytes -- the client holds the concatenation, so two deliveries of the same body give the
   same ApiRequest result; the body fetched in the correspondence run is the wire body *)
Theorem c19_fetch segs1 segs2 dt1 dt2 :
  List.concat segs1 = List.concat segs2 -> fetch segs1 dt1 [] = fetch segs2 dt2 [].
Proof. exact (fetch_segmentation segs1 segs2 dt1 dt2). Qed.

Theorem c19_fetch_whole segs dt : fetch segs dt [] = List.concat segs.
Proof. exact (fetch_concat dt segs []). Qed.

Theorem c19_fetched_is_wire fx w got : fetched fx w = Some got -> got = w.
Proof. exact (fetched_wire fx w got). Qed.

(* overlapping responses: handlers are values; what is written for handler A is a function of A's
   own payload, whatever other handlers are built and served before A is written out (the
   implementation is run with responses overlapping in time and compared body by body) *)
Theorem c19_handlers_independent g (before : list sx) (sub : sx) (after : list sx) :
  nth (List.length before) (map (obs_sub g) (before ++ sub :: after)%list) bad_case = obs_sub g sub.
Proof. exact (overlap_independent g before sub after). Qed.

(* [core] the dispatch of Error(): the kind is decided by the error VALUE that was passed in.  A value
   that has a Code() method (and is not one of the two system types) is answered as an
   application error with its OWN code and text: status 200, {code c, data text} -- whatever
   else it implements (Status(), Cause(), Unwrap()) and whatever those return, since [dyn] has no
   such component; a value without Code() is a plain error with its own Status() or 500. *)
Theorem c19_error_dispatch marshal parse_view (L : json_law marshal parse_view) g cb d c :
  d_cplx d = None -> d_sys d = None -> d_code d = Some c ->
  respond g cb (kind_of d) =
    {| status := 200; ctyp := if is_nil cb then CtJson else CtJs; server := srv_name g;
       body := BEnv cb [(k_code, JInt c); (k_data, JStr (d_text d))] |}
  /\ (c <> 0 -> api_request marshal parse_view (respond g [] (kind_of d)) = (round53 c, true)).
Proof.
  intros A B C. pose proof (kind_of_coded d c A B C) as K. split.
  - exact (coded_resp g cb _ c _ K).
  - intros Hz. exact (coded_client marshal parse_view L g _ c _ K Hz).
Qed.

Theorem c19_error_dispatch_plain g cb d :
  d_cplx d = None -> d_sys d = None -> d_code d = None ->
  respond g cb (kind_of d) = plain_handler g (d_status d) (d_text d).
Proof. intros A B C. rewrite (kind_of_plain d A B C). reflexivity. Qed.

(* replaced Filter hooks (public variables of the package): with FilterData replaced, whatever
   object the hook returns is what is marshalled and sent -- with the status the object declares
   through HTTPStatus, 200 otherwise -- and the client half sees exactly that object: code
   missing / not a number / non-zero are errors, code 0 is success only under a 2xx status. *)
Theorem c19_filter_hook marshal parse_view (L : json_law marshal parse_view) g cb st m merr :
  members_marshalable m = true ->
  respond g cb (PRaw st m merr) =
    {| status := match st with Some s => s | None => 200 end; ctyp := if is_nil cb then CtJson else CtJs;
       server := srv_name g; body := BEnv cb m |}
  /\ api_request marshal parse_view (respond g [] (PRaw st m merr))
     = client (match st with Some s => s | None => 200 end) (view_of_members m).
Proof. intros H. split; [exact (raw_resp g cb st m merr H)|exact (raw_client marshal parse_view L g st m merr H)]. Qed.

(* the client half on a JSONP body: whenever the decoder refuses the text callback(json) -- it is
   not a JSON document -- ApiRequest reports an error *)
Theorem c19_client_jsonp st : client st VFail = (0, true).
Proof. reflexivity. Qed.

(* strings that are not valid UTF-8: what the decoder reads back is the string with every
   offending byte replaced by U+FFFD (utf8_fix, transcribed from unicode/utf8 and tied by the
   correspondence run); ASCII strings are unchanged *)
Theorem c19_utf8_ascii s : Forall (fun c => (c < 128)%N) s -> utf8_fix s = s.
Proof. exact (utf8_fix_ascii s). Qed.

(* WriteVersion (the version helper): for every version text the answer is the success envelope
   of the object {extra, major, minor, revision, signature = Server, version = the text}; for a
   text major.minor.revision-extra in plain decimal (each number fitting an int) the four
   members are those numbers.  Errors of strconv.Atoi are dropped by the code: a part that is
   not a number reads as 0 (examples in Proofs/HttpApi.v, ex_atoi). *)
Theorem c19_version g cb version :
  respond_version g cb version =
    {| status := 200; ctyp := if is_nil cb then CtJson else CtJs; server := srv_name g;
       body := BEnv cb (envelope g (version_value g version)) |}.
Proof. exact (success_resp g cb (version_value g version) [] (version_marshalable g version)). Qed.

Theorem c19_version_fields g ma mi re ex :
  is_num ma -> is_num mi -> is_num re -> is_num ex ->
  let version := ma ++ [46%N] ++ mi ++ [46%N] ++ re ++ [45%N] ++ ex in
  version_value g version =
    JObj [(k_extra, JInt (dval 0 ex)); (k_major, JInt (dval 0 ma)); (k_minor, JInt (dval 0 mi));
          (k_revision, JInt (dval 0 re)); (k_signature, JStr (srv_name g)); (k_version, JStr version)].
Proof. exact (version_fields g ma mi re ex). Qed.

(* non-vacuity of the hypotheses *)
Theorem c19_examples :
  marshalable ex_value = true /\ marshalable (JObj [([99]%N, JBad 0)]) = false /\
  marshalable (JNum 9221120237041090560) = false /\
  round53 9007199254740993 = 9007199254740992 /\ round53 (-7) = -7.
Proof. repeat split; vm_compute; reflexivity. Qed.

Print Assumptions c19_content_types.
Print Assumptions c19_success.
Print Assumptions c19_jsonp.
Print Assumptions c19_jsonp_bytes.
Print Assumptions c19_error_codes.
Print Assumptions c19_plain_error.
Print Assumptions c19_unmarshalable.
Print Assumptions c19_never_confused.
Print Assumptions c19_plain_2xx_refuted.
Print Assumptions c19_client_model.
Print Assumptions c19_fetch.
Print Assumptions c19_fetch_whole.
Print Assumptions c19_fetched_is_wire.
Print Assumptions c19_handlers_independent.
Print Assumptions c19_error_dispatch.
Print Assumptions c19_error_dispatch_plain.
Print Assumptions c19_filter_hook.
Print Assumptions c19_client_jsonp.
Print Assumptions c19_utf8_ascii.
Print Assumptions c19_version.
Print Assumptions c19_version_fields.
Print Assumptions c19_examples.
