(* C07 -- untrusted bytes never crash or stall a decoder; enum helpers are total.
   Property theorems only; every proof is `exact <lemma>`.

   Part 1: every enum / size helper whose body the translator regenerates from /repo
   (coq/Gen/Gen_<pkg>.v, tools/repo2coq/gen_funcs.go) never panics on ANY value of its
   underlying integer type (the bound 2^8 / 2^16 is the whole range of uint8 / uint16; helpers
   over `int` are proved for every integer).  `res` is Ok / Err / Panic; table indexing in the
   generated bodies goes through the checked accessor nth_chk, which yields Panic out of range
   (Example nth_chk_panics), so these statements are about the code's index expressions. *)
From Coq Require Import String.
From Verif Require Import Lib.Base Lib.Sx Lib.GoSem Model.Total Proofs.Total Proofs.TotalSem.
From Verif Require Import Gen.Gen_amf0 Gen.Gen_rtmp Gen.Gen_flv Gen.Gen_aac Gen.Gen_avc Gen.Gen_websocket.
Open Scope Z_scope.

Theorem c07_amf0_marker_String_total : forall v, 0 <= v < 2 ^ 8 -> forall s, amf0_marker_String v <> Panic s.
Proof. exact amf0_marker_String_total. Qed.

Theorem c07_amf0_Discovery_total : forall (p : list Z) s, amf0_Discovery p <> Panic s.
Proof. exact amf0_Discovery_total. Qed.

Theorem c07_rtmp_UserControl_Size_total : forall v s, rtmp_UserControl_Size v <> Panic s.
Proof. exact rtmp_UserControl_Size_total. Qed.

Theorem c07_rtmp_SetChunkSize_Size_total : forall u s, rtmp_SetChunkSize_Size u <> Panic s.
Proof. exact rtmp_SetChunkSize_Size_total. Qed.

Theorem c07_rtmp_WindowAcknowledgementSize_Size_total : forall u s, rtmp_WindowAcknowledgementSize_Size u <> Panic s.
Proof. exact rtmp_WindowAcknowledgementSize_Size_total. Qed.

Theorem c07_rtmp_SetPeerBandwidth_Size_total : forall u s, rtmp_SetPeerBandwidth_Size u <> Panic s.
Proof. exact rtmp_SetPeerBandwidth_Size_total. Qed.

Theorem c07_flv_TagType_String_total : forall v, 0 <= v < 2 ^ 8 -> forall s, flv_TagType_String v <> Panic s.
Proof. exact flv_TagType_String_total. Qed.

Theorem c07_flv_AudioChannels_String_total : forall v, 0 <= v < 2 ^ 8 -> forall s, flv_AudioChannels_String v <> Panic s.
Proof. exact flv_AudioChannels_String_total. Qed.

Theorem c07_flv_AudioSampleBits_String_total : forall v, 0 <= v < 2 ^ 8 -> forall s, flv_AudioSampleBits_String v <> Panic s.
Proof. exact flv_AudioSampleBits_String_total. Qed.

Theorem c07_flv_AudioSamplingRate_String_total : forall v, 0 <= v < 2 ^ 8 -> forall s, flv_AudioSamplingRate_String v <> Panic s.
Proof. exact flv_AudioSamplingRate_String_total. Qed.

Theorem c07_flv_AudioCodec_String_total : forall v, 0 <= v < 2 ^ 8 -> forall s, flv_AudioCodec_String v <> Panic s.
Proof. exact flv_AudioCodec_String_total. Qed.

Theorem c07_flv_VideoFrameType_String_total : forall v, 0 <= v < 2 ^ 8 -> forall s, flv_VideoFrameType_String v <> Panic s.
Proof. exact flv_VideoFrameType_String_total. Qed.

Theorem c07_flv_VideoCodec_String_total : forall v, 0 <= v < 2 ^ 8 -> forall s, flv_VideoCodec_String v <> Panic s.
Proof. exact flv_VideoCodec_String_total. Qed.

Theorem c07_flv_VideoFrameTrait_String_total : forall v, 0 <= v < 2 ^ 8 -> forall s, flv_VideoFrameTrait_String v <> Panic s.
Proof. exact flv_VideoFrameTrait_String_total. Qed.

Theorem c07_flv_AudioSamplingRate_ToHz_total : forall v, 0 <= v < 2 ^ 8 -> forall s, flv_AudioSamplingRate_ToHz_res v <> Panic s.
Proof. exact flv_AudioSamplingRate_ToHz_total. Qed.

Theorem c07_flv_AudioSamplingRate_OpusToHz_total : forall v, 0 <= v < 2 ^ 8 -> forall s, flv_AudioSamplingRate_OpusToHz_res v <> Panic s.
Proof. exact flv_AudioSamplingRate_OpusToHz_total. Qed.

Theorem c07_flv_AudioSamplingRate_From_total : forall v a, 0 <= v < 2 ^ 8 -> 0 <= a < 2 ^ 8 -> forall s, flv_AudioSamplingRate_From_res v a <> Panic s.
Proof. exact flv_AudioSamplingRate_From_total. Qed.

Theorem c07_flv_AudioSamplingRate_OpusFrom_total : forall v a, 0 <= v < 2 ^ 8 -> 0 <= a < 2 ^ 8 -> forall s, flv_AudioSamplingRate_OpusFrom_res v a <> Panic s.
Proof. exact flv_AudioSamplingRate_OpusFrom_total. Qed.

Theorem c07_flv_AudioChannels_From_total : forall v a, 0 <= v < 2 ^ 8 -> 0 <= a < 2 ^ 8 -> forall s, flv_AudioChannels_From_res v a <> Panic s.
Proof. exact flv_AudioChannels_From_total. Qed.

Theorem c07_aac_ObjectType_String_total : forall v, 0 <= v < 2 ^ 8 -> forall s, aac_ObjectType_String v <> Panic s.
Proof. exact aac_ObjectType_String_total. Qed.

Theorem c07_aac_ObjectType_ToProfile_total : forall v, 0 <= v < 2 ^ 8 -> forall s, aac_ObjectType_ToProfile v <> Panic s.
Proof. exact aac_ObjectType_ToProfile_total. Qed.

Theorem c07_aac_Profile_String_total : forall v, 0 <= v < 2 ^ 8 -> forall s, aac_Profile_String v <> Panic s.
Proof. exact aac_Profile_String_total. Qed.

Theorem c07_aac_Profile_ToObjectType_total : forall v, 0 <= v < 2 ^ 8 -> forall s, aac_Profile_ToObjectType v <> Panic s.
Proof. exact aac_Profile_ToObjectType_total. Qed.

Theorem c07_aac_SampleRateIndex_String_total : forall v, 0 <= v < 2 ^ 8 -> forall s, aac_SampleRateIndex_String v <> Panic s.
Proof. exact aac_SampleRateIndex_String_total. Qed.

Theorem c07_aac_SampleRateIndex_ToHz_total : forall v, 0 <= v < 2 ^ 8 -> forall s, aac_SampleRateIndex_ToHz v <> Panic s.
Proof. exact aac_SampleRateIndex_ToHz_total. Qed.

Theorem c07_aac_Channels_String_total : forall v, 0 <= v < 2 ^ 8 -> forall s, aac_Channels_String v <> Panic s.
Proof. exact aac_Channels_String_total. Qed.

Theorem c07_avc_NALUType_String_total : forall v, 0 <= v < 2 ^ 8 -> forall s, avc_NALUType_String v <> Panic s.
Proof. exact avc_NALUType_String_total. Qed.

Theorem c07_avc_AVCProfile_String_total : forall v, 0 <= v < 2 ^ 16 -> forall s, avc_AVCProfile_String v <> Panic s.
Proof. exact avc_AVCProfile_String_total. Qed.

Theorem c07_avc_AVCLevel_String_total : forall v, 0 <= v < 2 ^ 8 -> forall s, avc_AVCLevel_String v <> Panic s.
Proof. exact avc_AVCLevel_String_total. Qed.

Theorem c07_websocket_isControl_total : forall v s, websocket_isControl v <> Panic s.
Proof. exact websocket_isControl_total. Qed.

Theorem c07_websocket_isData_total : forall v s, websocket_isData v <> Panic s.
Proof. exact websocket_isData_total. Qed.

Theorem c07_websocket_isValidReceivedCloseCode_total : forall v s, websocket_isValidReceivedCloseCode v <> Panic s.
Proof. exact websocket_isValidReceivedCloseCode_total. Qed.

Theorem c07_websocket_isValidCompressionLevel_total : forall v s, websocket_isValidCompressionLevel v <> Panic s.
Proof. exact websocket_isValidCompressionLevel_total. Qed.

(* The AMF0 marker dispatch (amf0.Discovery) yields a value exactly for the nine markers the
   decoder implements and an error for every other first byte, whatever follows. *)
Theorem c07_amf0_Discovery_markers : forall m rest, 0 <= m < 2 ^ 8 ->
  exists a e, amf0_Discovery (m :: rest) = Ok (a, e) /\
    (e = false <-> In m [0; 1; 2; 3; 5; 6; 8; 9; 10]).
Proof. exact amf0_Discovery_markers. Qed.

(* rtmp UserControl.Size is 3, 6 or 10 for every 16-bit event type *)
Theorem c07_rtmp_UserControl_Size_values : forall v, 0 <= v < 2 ^ 16 ->
  exists n, rtmp_UserControl_Size v = Ok n /\ (n = 3 \/ n = 6 \/ n = 10).
Proof. exact rtmp_UserControl_Size_values. Qed.

(* The semantics the generated bodies are written in (Lib/GoSem.v) is Go's: an index expression
   panics exactly when the index is negative or not below the length, and yields the element
   otherwise; the fixed-width wraps land in the type's range and are the identity inside it. *)
Theorem c07_index_panics_iff : forall l i, nth_chk l i = Panic site_index <-> (i < 0 \/ len_Z l <= i).
Proof. exact nth_chk_panics_iff. Qed.
Theorem c07_index_in_range : forall l i, 0 <= i < len_Z l ->
  exists x, nth_chk l i = Ok x /\ nth_error l (Z.to_nat i) = Some x.
Proof. exact nth_chk_in_range. Qed.
Theorem c07_wrap_unsigned : forall w x, 0 <= w ->
  0 <= wrap_u w x < 2 ^ w /\ (0 <= x < 2 ^ w -> wrap_u w x = x).
Proof. intros w x Hw. split; [exact (wrap_u_range w x Hw)|exact (wrap_u_id w x)]. Qed.
Theorem c07_wrap_signed : forall w x, 1 <= w ->
  - 2 ^ (w - 1) <= wrap_s w x < 2 ^ (w - 1) /\ (- 2 ^ (w - 1) <= x < 2 ^ (w - 1) -> wrap_s w x = x).
Proof. intros w x Hw. split; [exact (wrap_s_range w x Hw)|exact (wrap_s_id w x Hw)]. Qed.

(* ------------------------------------------------------------------------------------------
   Part 2b: the linear-time clause, decoder by decoder.  The cost functions (Proofs/TotalCostDef.v)
   mirror the control structure of the decoder models: one step per loop iteration / call and one
   per byte examined or copied in it.  [lenN] is the length of a byte string.
   ------------------------------------------------------------------------------------------ *)
From Verif Require Import Proofs.TotalCostDef Proofs.TotalCost.
From Verif Require Model.Flv Model.Aac Model.Avc Model.Amf0 Model.RtmpChunk Model.JsonPlus.
Open Scope N_scope.

(* AVCSample.UnmarshalBinary, every length-size byte: at most 2 steps per input byte *)
Theorem c07_cost_linear_avc_sample : forall lsm1 data, CAvc.cost_sample lsm1 data <= 2 * lenN data + 1.
Proof. exact PAvc.cost_sample_linear. Qed.
(* AVCDecoderConfigurationRecord.UnmarshalBinary (both parameter-set loops) *)
Theorem c07_cost_linear_avc_record : forall data, CAvc.cost_record data <= 2 * lenN data + 1.
Proof. exact PAvc.cost_record_linear. Qed.
(* ADTS Decode repeated over the remainder, from every codec state and with any fuel *)
Theorem c07_cost_linear_adts_stream : forall fuel st data, CAac.cost_adts_stream fuel st data <= 2 * lenN data + 10.
Proof. exact PAac.cost_adts_stream_linear. Qed.
(* FLV demuxer over every segmented transport (data segments and faults): 2 steps per byte the
   transport holds, 1 per segment; and for a byte string handed over in one piece *)
Theorem c07_cost_linear_flv_demux : forall fuel s, CFlv.cost_demux fuel s <= 2 * CFlv.sbytes s + CFlv.ssegs s + 3.
Proof. exact PFlv.cost_demux_linear. Qed.
Theorem c07_cost_linear_flv_demux_bytes : forall fuel bs, CFlv.cost_demux fuel [Verif.Model.Flv.Data bs] <= 2 * lenN bs + 4.
Proof. exact PFlv.cost_demux_linear_bytes. Qed.
(* AMF0: every accepted byte string whose value is a scalar or a container of scalars (nesting
   depth <= 1); deeper nesting is the refuted case, c07_amf0_cost_refuted *)
Theorem c07_cost_linear_amf0_flat : forall bs v n,
  Verif.Model.Amf0.decode_fast bs = Ok (v, n) -> CAmf0.flat v = true -> CAmf0.cost_amf0 bs <= 2 * lenN bs.
Proof. exact PAmf0.cost_amf0_flat_linear. Qed.
(* RTMP Protocol.ReadMessage from every reader state: 4 steps per transport byte plus one payload
   buffer of the chunk size in force (it cannot change before the message completes) *)
Theorem c07_cost_linear_rtmp_read_message : forall fuel s i,
  CRtmp.cost_read_message fuel s i <= 4 * CRtmp.ibytes i + Verif.Model.RtmpChunk.in_chunk s + 1.
Proof. exact PRtmp.cost_read_message_linear. Qed.
(* JSON+ (after fix 73a5c57: firstMatch walks the window once and stops at the first start marker).
   ONE call of the split function is linear in the scanner window it is given ... *)
Theorem c07_cost_linear_jsonplus_split : forall data at_eof, CJson.cost_split data at_eof <= 5 * lenN data + 6.
Proof. exact PJson.cost_split_linear. Qed.
(* ... and a document held in one window is stripped in linear time, 6 steps per byte: a split call
   that delivers a token costs at most 4 steps per byte it advances over.  (Before the fix every
   token searched all four start markers through the whole window: quadratic, found by this kit,
   prompts/c07_finding_json.md.)  Not covered: a transport that delivers tiny reads makes
   bufio.Scanner re-run split on the whole pending token after every read. *)
Theorem c07_cost_linear_jsonplus_strip : forall d, CJson.cost_strip d <= 6 * lenN d + 6.
Proof. exact PJson.cost_strip_linear. Qed.
Close Scope N_scope.

(* ------------------------------------------------------------------------------------------
   Part 2: decoder totality.  The executable decoder models live in the Model files of the
   properties that own them; their `never Panic` theorems are restated here.  [wf_bytes] says
   every list element is < 256 (all a byte string can contain); fuel parameters are universally
   quantified, and out-of-fuel is an ordinary error excluded where the statement says so.
   Part 3 (last theorem): the linear-time clause, refuted for AMF0.
   ------------------------------------------------------------------------------------------ *)

From Verif Require Proofs.Amf0 Proofs.RtmpChunk Proofs.RtmpPacket Proofs.FlvTotal Proofs.FlvPack Proofs.Aac Proofs.Avc Proofs.WsReadProps Proofs.JsonPlusTotal Proofs.JoseFixed Proofs.JoseCipher Proofs.JoseWrap Proofs.Amf0Cost.

(* AMF0: Discovery + UnmarshalBinary of every value type, every nesting, every byte string (any fuel) *)
Theorem c07_amf0_dec_total :
    forall (fuel : nat) (p : bytes), wf_bytes p -> forall s : N, Amf0.dec fuel p <> Panic s.
Proof. exact Verif.Proofs.Amf0.amf0_dec_total. Qed.

(* RTMP chunk reader: ReadMessage from every reachable reader state on every input *)
Theorem c07_rtmp_read_total :
    forall (fuel : nat) (s : RtmpChunk.rstate) (i : RtmpChunk.inp) (p : N),
    RtmpChunk.rs_ok s -> RtmpChunk.read_message fuel s i <> Panic p.
Proof. exact Verif.Proofs.RtmpChunk.rtmp_read_total. Qed.

(* RTMP DecodeMessage (message type dispatch, AMF0 command name and transaction lookup, packet decoder) for every transaction table, type and payload *)
Theorem c07_rtmp_decode_message_total :
    forall (t : RtmpPacket.tx) (mt : N) (payload : bytes),
    RtmpPacket.np (fst (RtmpPacket.decode_message t mt payload)).
Proof. exact Verif.Proofs.RtmpPacket.decode_message_total. Qed.

(* every RTMP packet decoder (UnmarshalBinary) on every byte string *)
Theorem c07_rtmp_unmarshal_total :
    forall (r : RtmpPacket.pkt) (data : bytes), RtmpPacket.np (RtmpPacket.unmarshal r data).
Proof. exact Verif.Proofs.RtmpPacket.unmarshal_total. Qed.

(* FLV demuxer: header, tag headers and tags of every stream *)
Theorem c07_flv_demux_total :
    forall (fuel : nat) (s : Flv.stream) (x : N), FlvTotal.wf_stream s -> Flv.demux fuel s <> Panic x.
Proof. exact Verif.Proofs.FlvTotal.flv_demux_total. Qed.

(* FLV audio packager Decode *)
Theorem c07_flv_audio_dec_total :
    forall (bs : bytes) (x : N), wf_bytes bs -> Flv.audio_dec bs <> Panic x.
Proof. exact Verif.Proofs.FlvPack.flv_audio_dec_total. Qed.

(* FLV video packager Decode *)
Theorem c07_flv_video_dec_total :
    forall (bs : bytes) (x : N), wf_bytes bs -> Flv.video_dec bs <> Panic x.
Proof. exact Verif.Proofs.FlvPack.flv_video_dec_total. Qed.

(* ADTS Decode from every codec state *)
Theorem c07_aac_adts_dec_total :
    forall (st : Aac.asc) (data : bytes) (s : N), snd (Aac.adts_decode st data) <> Panic s.
Proof. exact Verif.Proofs.Aac.adts_decode_total. Qed.

(* ADTS Decode repeated over the remainder *)
Theorem c07_aac_adts_stream_total :
    forall (fuel : nat) (st : Aac.asc) (data : bytes) (acc : list (bytes * Aac.asc)) (s : N),
    snd (Aac.adts_stream fuel st data acc) <> Panic s.
Proof. exact Verif.Proofs.Aac.adts_stream_total. Qed.

(* AudioSpecificConfig.UnmarshalBinary *)
Theorem c07_aac_asc_dec_total :
    forall (st : Aac.asc) (data : bytes) (s : N), snd (Aac.asc_unmarshal st data) <> Panic s.
Proof. exact Verif.Proofs.Aac.asc_unmarshal_total. Qed.

(* AVCDecoderConfigurationRecord.UnmarshalBinary *)
Theorem c07_avc_record_dec_total :
    forall (st : Avc.avcrec) (data : bytes) (s : N), snd (Avc.rec_unmarshal st data) <> Panic s.
Proof. exact Verif.Proofs.Avc.rec_unmarshal_total. Qed.

(* AVCSample.UnmarshalBinary for every length size *)
Theorem c07_avc_sample_dec_total :
    forall (lsm1 : N) (have : list Avc.nalu) (data : bytes) (s : N),
    snd (Avc.sample_unmarshal lsm1 have data) <> Panic s.
Proof. exact Verif.Proofs.Avc.sample_unmarshal_total. Qed.

(* NALU.UnmarshalBinary *)
Theorem c07_avc_nalu_dec_total :
    forall (data : bytes) (s : N), Avc.nalu_unmarshal data <> Panic s.
Proof. exact Verif.Proofs.Avc.nalu_total. Qed.

(* WebSocket frame reader *)
Theorem c07_ws_read_total :
    forall (server : bool) (limit : Z) (extra : nat) (bs : bytes),
    wf_bytes bs ->
    limit < 9223372036854775808 ->
    (extra < 999)%nat -> forall s : N, WsRead.lib_session true server limit extra bs <> Panic s.
Proof. exact Verif.Proofs.WsReadProps.ws_read_total. Qed.

(* WebSocket frame reader, fixed and pinned behaviour, from every input *)
Theorem c07_ws_read_total_all :
    forall (fixed server : bool) (limit : Z) (extra : nat) (inp : bytes) (s : N),
    (extra < 999)%nat -> WsRead.lib_session fixed server limit extra inp <> Panic s.
Proof. exact Verif.Proofs.WsReadProps.ws_read_total_all. Qed.

(* JSON+ reader over every segmentation of the input: no panic and never out of fuel (it always returns) *)
Theorem c07_jsonplus_total :
    forall (segs : list bytes) (fin : N) (dt : bool),
    fin <> JsonPlus.E_FUEL ->
    (forall s : N, snd (JsonPlus.reader_dt segs fin dt) <> Panic s) /\
    snd (JsonPlus.reader_dt segs fin dt) <> Err JsonPlus.E_FUEL.
Proof. exact Verif.Proofs.JsonPlusTotal.jsonplus_total. Qed.

(* JSON+ comment stripping of a whole document *)
Theorem c07_jsonplus_strip_total :
    forall d : bytes,
    (forall s : N, snd (JsonPlus.strip d) <> Panic s) /\ snd (JsonPlus.strip d) <> Err JsonPlus.E_FUEL.
Proof. exact Verif.Proofs.JsonPlusTotal.strip_total. Qed.

(* JOSE base64URLDecode (padding arithmetic) *)
Theorem c07_jose_b64_total :
    forall (s : bytes) (p : N), Jose.b64url_decode_r s <> Panic p.
Proof. exact Verif.Proofs.JoseFixed.b64url_decode_r_total. Qed.

(* JOSE CBC unpadBuffer index arithmetic *)
Theorem c07_jose_unpad_total :
    forall (b : bytes) (bs s : N), Jose.unpad_buffer b bs <> Panic s.
Proof. exact Verif.Proofs.JoseCipher.unpad_total. Qed.

(* JOSE AES key unwrap of a peer-supplied key of every length, for every block function *)
Theorem c07_jose_keyunwrap_total :
    forall (D : bytes -> bytes) (ct : bytes) (s : N), Jose.key_unwrap D ct <> Panic s.
Proof. exact Verif.Proofs.JoseWrap.key_unwrap_total. Qed.

(* JOSE compact JWS split and decode *)
Theorem c07_jose_jws_compact_parse_total :
    forall (s : bytes) (j : bool) (p : N), Jose.parse_jws_compact s j <> Panic p.
Proof. exact Verif.Proofs.JoseFixed.parse_jws_compact_total. Qed.

(* JOSE compact JWE split and decode *)
Theorem c07_jose_jwe_compact_parse_total :
    forall (s : bytes) (h p : N), Jose.parse_jwe_compact s h <> Panic p.
Proof. exact Verif.Proofs.JoseFixed.parse_jwe_compact_total. Qed.

(* ALWAYS RETURNS: with fuel above the input length the AMF0 decoder never runs out of fuel (the fuel only makes the recursion structural) *)
Theorem c07_amf0_dec_returns :
    forall (fuel : nat) (p : list N), (length p < fuel)%nat -> Amf0.dec fuel p <> Err Amf0.E_FUEL.
Proof. exact Verif.Proofs.Amf0.amf0_dec_fuel. Qed.

(* ALWAYS RETURNS: the AVCSample loop consumes at least one byte per iteration *)
Theorem c07_avc_sample_returns :
    forall (fuel : nat) (k : N) (b : list N) (acc : list Avc.nalu),
    (1 <= k)%N -> (length b < fuel)%nat -> snd (Avc.sample_loop fuel k b acc) <> Err 100.
Proof. exact Verif.Proofs.Avc.sample_loop_fuel. Qed.

(* ALWAYS RETURNS: the FLV tag loop *)
Theorem c07_flv_tags_return :
    forall (fuel : nat) (s : Flv.stream) (acc : list Flv.tag) (e : N),
    (length (fst (Flv.flat s)) < fuel)%nat -> Flv.read_tags fuel s acc <> Err e.
Proof. exact Verif.Proofs.FlvTotal.read_tags_fuel. Qed.

(* LINEAR TIME IS REFUTED for AMF0 (known finding amf0-quadratic-nesting): for every slope k there is a well-formed byte string whose decoding cost -- method invocations, counting the Size() walk of the whole subtree that objectBase.unmarshal repeats after every decoded child -- exceeds k times its length (witness family 03 (00 01 61 03)^d (00 00 09)^(d+1), cost (d+1)^2 on 7d+4 bytes) *)
Theorem c07_amf0_cost_refuted :
    forall k : N, exists bs : bytes, wf_bytes bs /\ (Amf0Cost.cost_amf0 bs > k * lenN bs)%N.
Proof. exact Verif.Proofs.Amf0Cost.amf0_cost_quadratic_refuted. Qed.

(* Assumptions of EVERY theorem above, in one traversal: the tuple below mentions each of them, so the set
   printed is the union of their assumptions (one `Print Assumptions` per theorem costs 0.4 s each -- 20 s per
   check run for this file -- and prints the same line 74 times). *)
Definition c07_all_theorems :=
  (c07_amf0_marker_String_total,
  (c07_amf0_Discovery_total,
  (c07_rtmp_UserControl_Size_total,
  (c07_rtmp_SetChunkSize_Size_total,
  (c07_rtmp_WindowAcknowledgementSize_Size_total,
  (c07_rtmp_SetPeerBandwidth_Size_total,
  (c07_flv_TagType_String_total,
  (c07_flv_AudioChannels_String_total,
  (c07_flv_AudioSampleBits_String_total,
  (c07_flv_AudioSamplingRate_String_total,
  (c07_flv_AudioCodec_String_total,
  (c07_flv_VideoFrameType_String_total,
  (c07_flv_VideoCodec_String_total,
  (c07_flv_VideoFrameTrait_String_total,
  (c07_flv_AudioSamplingRate_ToHz_total,
  (c07_flv_AudioSamplingRate_OpusToHz_total,
  (c07_flv_AudioSamplingRate_From_total,
  (c07_flv_AudioSamplingRate_OpusFrom_total,
  (c07_flv_AudioChannels_From_total,
  (c07_aac_ObjectType_String_total,
  (c07_aac_ObjectType_ToProfile_total,
  (c07_aac_Profile_String_total,
  (c07_aac_Profile_ToObjectType_total,
  (c07_aac_SampleRateIndex_String_total,
  (c07_aac_SampleRateIndex_ToHz_total,
  (c07_aac_Channels_String_total,
  (c07_avc_NALUType_String_total,
  (c07_avc_AVCProfile_String_total,
  (c07_avc_AVCLevel_String_total,
  (c07_websocket_isControl_total,
  (c07_websocket_isData_total,
  (c07_websocket_isValidReceivedCloseCode_total,
  (c07_websocket_isValidCompressionLevel_total,
  (c07_amf0_Discovery_markers,
  (c07_rtmp_UserControl_Size_values,
  (c07_index_panics_iff,
  (c07_index_in_range,
  (c07_wrap_unsigned,
  (c07_wrap_signed,
  (c07_cost_linear_avc_sample,
  (c07_cost_linear_avc_record,
  (c07_cost_linear_adts_stream,
  (c07_cost_linear_flv_demux,
  (c07_cost_linear_flv_demux_bytes,
  (c07_cost_linear_amf0_flat,
  (c07_cost_linear_rtmp_read_message,
  (c07_cost_linear_jsonplus_split,
  (c07_cost_linear_jsonplus_strip,
  (c07_amf0_dec_total,
  (c07_rtmp_read_total,
  (c07_rtmp_decode_message_total,
  (c07_rtmp_unmarshal_total,
  (c07_flv_demux_total,
  (c07_flv_audio_dec_total,
  (c07_flv_video_dec_total,
  (c07_aac_adts_dec_total,
  (c07_aac_adts_stream_total,
  (c07_aac_asc_dec_total,
  (c07_avc_record_dec_total,
  (c07_avc_sample_dec_total,
  (c07_avc_nalu_dec_total,
  (c07_ws_read_total,
  (c07_ws_read_total_all,
  (c07_jsonplus_total,
  (c07_jsonplus_strip_total,
  (c07_jose_b64_total,
  (c07_jose_unpad_total,
  (c07_jose_keyunwrap_total,
  (c07_jose_jws_compact_parse_total,
  (c07_jose_jwe_compact_parse_total,
  (c07_amf0_dec_returns,
  (c07_avc_sample_returns,
  (c07_flv_tags_return,
  c07_amf0_cost_refuted))))))))))))))))))))))))))))))))))))))))))))))))))))))))))))))))))))))))).
Print Assumptions c07_all_theorems.
