(* C20 -- rate meters report the counter's growth over the last full window.
   Property theorems only; every proof is `exact <lemma>` or a short composition. *)
From Verif Require Import Lib.Base Lib.Sx Model.Kxps Proofs.Kxps.
From Verif Require Import Gen.Gen_kxps.
Open Scope Z_scope.

(* The window lengths in the code are the ones the property names (regenerated from newKxps). *)
Theorem c20_window_lengths :
  ival_ms (r10 k0) = 10000 /\ ival_ms (r30 k0) = 30000 /\ ival_ms (r300 k0) = 300000.
Proof. vm_compute. auto. Qed.

(* Every window, every reachable state, every next observation (t, c) with the meter already
   initialised: a window that is sampled in this step (its interval has elapsed and, for the
   30 s / 300 s windows, the shorter ones were sampled too -- the cascade) records (t, c) as
   its previous sample and reports exactly the int64 difference to the counter value of its
   own previous sample (0 if that is not positive); a window that is not sampled keeps its
   rate, previous-sample time and counter unchanged. *)
Theorem c20_window h t c :
  let k := run_hist h k0 in
  c <> 0 -> cnt (r10 k) <> 0 ->
  r10 (do_sample t c k) = (if fires10 t k then sampled t c (r10 k) else r10 k) /\
  r30 (do_sample t c k) = (if fires30 t k then sampled t c (r30 k) else r30 k) /\
  r300 (do_sample t c k) = (if fires300 t k then sampled t c (r300 k) else r300 k).
Proof. intros k Hc Hk. exact (do_sample_spec t c k Hc Hk). Qed.

(* ... and that reported difference is the counter's increase since the previous sample for
   every 64-bit counter pair less than 2^63 apart: c - c0 when it grew, 0 when it stalled or
   went backwards. *)
Theorem c20_rate_is_increase t c s :
  is_u64 c -> is_u64 (cnt s) -> Z.abs (c - cnt s) < two63 -> last s + ival s <= t ->
  step_s t c s = (mk_s (increase c (cnt s)) c t (ival s), true).
Proof. exact (step_fired_rate t c s). Qed.

(* counter wrap-around (2^64-5 -> 10) counts as the small positive increase it is *)
Theorem c20_wrap c c0 : is_u64 c -> is_u64 c0 -> c < c0 -> c - c0 + two64 < two63 ->
  zi64 (zu64 (c - c0)) = c - c0 + two64.
Proof. exact (diff_wrap c c0). Qed.

(* zero observations are ignored; the first non-zero one initialises all three windows *)
Theorem c20_zero_ignored t k : do_sample t 0 k = k.
Proof. exact (do_sample_zero t k). Qed.
Theorem c20_first t c k : c <> 0 -> cnt (r10 k) = 0 ->
  do_sample t c k = set_samples k (init_s t c (r10 k)) (init_s t c (r30 k)) (init_s t c (r300 k)).
Proof. exact (do_sample_first t c k). Qed.

(* For EVERY history of (time, counter) observations -- no monotonicity assumed, so stalls,
   resets, wrap-around and clock steps are included -- every reported numerator is in
   [0, 2^63) and every denominator is the window length: the float the code computes from
   them is finite and non-negative. *)
Theorem c20_nonneg_finite h :
  let k := run_hist h k0 in
  (0 <= rdiff (r10 k) < two63) /\ (0 <= rdiff (r30 k) < two63) /\ (0 <= rdiff (r300 k) < two63) /\
  ival_ms (r10 k) = 10000 /\ ival_ms (r30 k) = 30000 /\ ival_ms (r300 k) = 300000.
Proof.
  intros k. destruct (run_hist_inv h k0 k0_inv) as (A & B & C & I1 & I2 & I3). fold k in A, B, C, I1, I2, I3.
  unfold ival_ms. rewrite I1, I2, I3. repeat split; try apply A; try apply B; try apply C.
Qed.

(* average: either 0, or exactly (increase since first non-zero observation, elapsed ms) with
   both strictly positive *)
Theorem c20_average t c k d u k' :
  sample_average t c k = (k', (d, u)) ->
  (d = 0 /\ u = 0) \/
  (k' = k /\ c <> 0 /\ avg k <> 0 /\ d = zi64 (zu64 (c - avg k)) /\ 0 < d < two63 /\
   u = Z.quot (t - create k) ms_ns /\ 0 < u).
Proof. exact (sample_average_spec t c k d u k'). Qed.

Theorem c20_average_exact t c k :
  is_u64 c -> is_u64 (avg k) -> avg k <> 0 -> 0 < c - avg k < two63 -> ms_ns <= t - create k ->
  sample_average t c k = (k, (c - avg k, Z.quot (t - create k) ms_ns)).
Proof. exact (sample_average_exact t c k). Qed.

Theorem c20_average_first t c k : c <> 0 -> avg k = 0 ->
  avg (fst (sample_average t c k)) = c /\ create (fst (sample_average t c k)) = t /\
  snd (sample_average t c k) = (0, 0).
Proof. exact (sample_average_first t c k). Qed.

(* reading a rate is refused exactly when the meter is not started *)
Theorem c20_refused w k : read_rate w k = None <-> started k = false.
Proof. exact (read_rate_refused w k). Qed.

(* non-vacuity: a reachable, initialised state in which all three windows fire *)
Example c20_window_nonvacuous :
  let k := run_hist [(0, 5)] k0 in
  cnt (r10 k) <> 0 /\ fires300 (300000 * ms_ns) k = true.
Proof. vm_compute. split; [discriminate|reflexivity]. Qed.

Print Assumptions c20_window_lengths.
Print Assumptions c20_window.
Print Assumptions c20_rate_is_increase.
Print Assumptions c20_wrap.
Print Assumptions c20_zero_ignored.
Print Assumptions c20_first.
Print Assumptions c20_nonneg_finite.
Print Assumptions c20_average.
Print Assumptions c20_average_exact.
Print Assumptions c20_average_first.
Print Assumptions c20_refused.
