(* C03 -- RTMP packets survive encode, wire and decode with the right type (under construction). *)
From Verif Require Import Lib.Base Lib.Sx Model.Amf0 Model.RtmpPacket Proofs.RtmpPacket.
Open Scope N_scope.

Theorem c03_stub n : length (marshal (PSetChunkSize n)) = 4%nat.
Proof. exact (marshal_set_chunk_size_len n). Qed.

Print Assumptions c03_stub.
