(* C03 -- RTMP packets survive encode, wire and decode with the right type; transaction-id
   matching; typed wait.  Property theorems only; every proof is `exact <lemma>` or a short
   composition.  Model: Model/RtmpPacket.v (transcribed from rtmp/rtmp.go after the fix commits
   172f07d, acd03f7, 9789218), over the AMF0 model of C05 (Model/Amf0.v).

   Reading guide.  [pkt] has one constructor per packet type of the library; a float64
   (transaction id, stream id) is its 64-bit pattern; [marshal]/[psize]/[unmarshal r] are
   MarshalBinary/Size()/r.UnmarshalBinary; [receiver_for p] is the value the New...() constructor
   of p's type builds (what DecodeMessage unmarshals into); [wf_pkt p] says p is a packet of the
   property's quantifier: representable fields (strings <= 65535 bytes, arbitrary AMF0 trees with
   any keys), optional trailing fields present only after the preceding ones, connect with its
   fixed name and transaction id 1.0, user control data valid for the body width.
   [decode_message t mt payload] is DecodeMessage on an endpoint whose outstanding-request table
   is t; it returns the result and the table afterwards.
   Specification-level definitions used in the statements and not part of the model are in
   Proofs/RtmpPacketTx.v (request_like, is_control, is_response_name, cmd_name/cmd_tid, parse_spec,
   the abstract map amap / a_step / out_matches / refines, events ev / wf_ev / c_run / a_run,
   skips, traffic_msg, type_hit), Proofs/RtmpPacketWf.v (decode_seq, until_fail) and
   Proofs/RtmpPacketGen.v (parse_tbl, decode_tbl: interpreters of the generated tables). *)
From Coq Require Import String.
From Verif Require Import Lib.Base Lib.Sx Lib.GoSem Model.Amf0 Model.RtmpPacket.
From Verif Require Import Gen.Gen_rtmp Proofs.Amf0 Proofs.RtmpPacket Proofs.RtmpPacketTx Proofs.RtmpPacketGen Proofs.RtmpPacketWf.
From Verif Require Model.RtmpChunk Proofs.RtmpChunk Proofs.RtmpChunkRT.
From Verif Require Import Proofs.RtmpEndToEnd.
Open Scope N_scope.

(* The constants the statements below mention are the protocol's (regenerated from rtmp.go). *)
Theorem c03_constants :
  cConnect = string_bytes "connect" /\ cCreateStream = string_bytes "createStream" /\
  cPlay = string_bytes "play" /\ cPublish = string_bytes "publish" /\
  cResult = string_bytes "_result" /\ cError = string_bytes "_error" /\
  mtSetChunkSize = 1 /\ mtUserControl = 4 /\ mtWinAck = 5 /\ mtSetPeerBw = 6 /\
  mtAMF0Command = 20 /\ mtAMF3Command = 17 /\ mtAMF0Data = 18 /\ mtAMF3Data = 15 /\
  etFmsEvent0 = 26 /\ etSetBufferLength = 3.
Proof. repeat split; reflexivity. Qed.

(* ---- size: every packet, ALL field values (no well-formedness needed) ---- *)
Theorem c03_size p : lenN (marshal p) = psize p.
Proof. exact (marshal_size p). Qed.

(* ---- round trip: every well-formed packet unmarshals, on the receiver its constructor
   builds, to equal field values; re-marshalling reproduces the bytes and the size ---- *)
Theorem c03_roundtrip p : wf_pkt p = true ->
  unmarshal (receiver_for p) (marshal p) = Ok p.
Proof. exact (unmarshal_marshal p). Qed.

Theorem c03_remarshal p q : wf_pkt p = true -> unmarshal (receiver_for p) (marshal p) = Ok q ->
  marshal q = marshal p /\ psize q = psize p.
Proof. exact (remarshal p q). Qed.

(* User control, all 65536 event types: the body is 1 byte for the FMS event 0x1a, 8 bytes for
   SetBufferLength (3), 4 bytes otherwise; every data value valid for that width round-trips. *)
Theorem c03_user_control et d x : et < 65536 ->
  (if et =? 26 then d < 256 else d < 4294967296) ->
  (if et =? 3 then x < 4294967296 else x = 0) ->
  let p := PUserControl et d x in
  lenN (marshal p) = (if et =? 26 then 3 else if et =? 3 then 10 else 6) /\
  unmarshal new_user_control (marshal p) = Ok p.
Proof.
  intros He Hd Hx p. split.
  - rewrite marshal_size. cbn [psize p]. rewrite uc_size_spec.
    change etFmsEvent0 with 26. change etSetBufferLength with 3.
    destruct (N.eqb_spec et 26) as [->|]; [reflexivity|]. destruct (et =? 3); reflexivity.
  - apply (unmarshal_marshal p). cbn [wf_pkt p].
    change etFmsEvent0 with 26. change etSetBufferLength with 3.
    apply andb_true_iff; split; [apply andb_true_iff; split|].
    + apply N.ltb_lt; exact He.
    + destruct (et =? 26); apply N.ltb_lt; exact Hd.
    + destruct (et =? 3); [apply N.ltb_lt; exact Hx|apply N.eqb_eq; exact Hx].
Qed.

(* All uint32 control values. *)
Theorem c03_control_values n lt : n < 4294967296 -> lt < 256 ->
  unmarshal new_set_chunk_size (marshal (PSetChunkSize n)) = Ok (PSetChunkSize n) /\
  unmarshal new_win_ack (marshal (PWinAck n)) = Ok (PWinAck n) /\
  unmarshal new_set_peer_bw (marshal (PSetPeerBw n lt)) = Ok (PSetPeerBw n lt) /\
  marshal (PSetPeerBw n lt) = be4 n ++ [lt].
Proof.
  intros Hn Hl. apply N.ltb_lt in Hn. apply N.ltb_lt in Hl. repeat split.
  - apply (unmarshal_marshal (PSetChunkSize n)). exact Hn.
  - apply (unmarshal_marshal (PWinAck n)). exact Hn.
  - apply (unmarshal_marshal (PSetPeerBw n lt)). cbn [wf_pkt]. unfold wf_u32. rewrite Hn, Hl. reflexivity.
Qed.

(* ---- arbitrary input: what decodes is a well-formed packet and a fixed point ----
   For EVERY byte string (bytes < 256) that a packet unmarshaler accepts, on ANY receiver of that
   packet type, the result is a well-formed packet of the receiver's type, its Size() is at most
   the input length (trailing bytes are ignored, non-canonical booleans shrink nothing), and its
   own bytes decode to it again.  The same for whatever DecodeMessage returns, any table, any
   message type. *)
Theorem c03_decoded_wellformed r data p :
  wf_bytes data -> unmarshal r data = Ok p ->
  wf_pkt p = true /\ kind_of p = kind_of r /\ psize p <= lenN data.
Proof. exact (unmarshal_decoded r data p). Qed.

Theorem c03_decoded_fixed_point r data p :
  wf_bytes data -> unmarshal r data = Ok p ->
  unmarshal r (marshal p) = Ok p /\ psize p <= lenN data.
Proof. exact (unmarshal_fixed_point r data p). Qed.

(* ---- reused receivers: UnmarshalBinary overwrites ----
   [unmarshal old data] is UnmarshalBinary(data) on a packet object that currently holds [old]
   (a constructed value or the result of an earlier decode).  For every packet type the result
   -- value or error -- is independent of [old]: only the receiver's type matters (rtmp.go
   e5abd50 clears Args / ExtraData, 9789218 the optional command object, amf0 8324535 replaces
   an object's properties; before e5abd50 a reused call/connect packet kept the Args and a
   reused user control the ExtraData of the previous message).  Consequently k payloads decoded
   one after the other into ONE object give, step by step, exactly what a fresh packet gives for
   each payload, up to the first failure. *)
Theorem c03_unmarshal_overwrites old old' data :
  kind_of old = kind_of old' -> unmarshal_into old data = unmarshal_into old' data.
Proof. exact (unmarshal_overwrites old old' data). Qed.

Theorem c03_reuse_is_fresh r0 ds r : Forall wf_bytes ds -> kind_of r = kind_of r0 ->
  decode_seq r ds = until_fail (map (unmarshal r0) ds).
Proof. intros H Hk. exact (reuse_is_fresh r0 ds H r Hk). Qed.

(* the former defect, as a regression: a call that held arguments decodes a message without
   arguments to a packet without arguments, of Size() = the 16 input bytes *)
Example c03_reuse_regression :
  let held := PCall cCloseStream 0 (Some ANull) (Some (ANum f_one)) in
  let data := enc (AStr [102; 111; 111]) ++ enc (ANum f_two) ++ enc ANull in
  unmarshal_into held data = Ok (PCall [102; 111; 111] f_two (Some ANull) None) /\
  lenN data = 16 /\
  unmarshal_into (PUserControl 3 1 9) (marshal (PUserControl 0 5 0)) = Ok (PUserControl 0 5 0).
Proof. vm_compute. repeat split. Qed.

Theorem c03_decode_message_decoded t mt payload p t' :
  wf_bytes payload -> decode_message t mt payload = (Ok p, t') ->
  wf_pkt p = true /\ psize p <= lenN payload /\ unmarshal (receiver_for p) (marshal p) = Ok p.
Proof. exact (decode_message_decoded t mt payload p t'). Qed.

(* ---- dispatch: the type that arrives is the one the protocol defines ----
   Table, in full.  Command/data message (types 20, 18, and 17/15 with the one AMF3 format
   byte skipped), by command name:
     "connect" -> ConnectAppPacket, "createStream" -> CreateStreamPacket, "play" -> PlayPacket,
     "publish" -> PublishPacket, any other name except _result/_error -> CallPacket
     (closeStream, onStatus, ...);
     "_result"/"_error" -> the response type of the outstanding request with that transaction
     id: connect -> ConnectAppResPacket, createStream -> CreateStreamResPacket; no outstanding
     request -> error;
   message type 1 -> SetChunkSize, 5 -> WindowAcknowledgementSize, 6 -> SetPeerBandwidth,
   4 -> UserControl.
   [request_like p]: p is a connect/createStream/publish/play packet carrying that name, or a
   call whose name is none of the six dispatch names.  The result is [Ok p] itself, so it
   re-marshals to the payload, and the table is untouched. *)
Theorem c03_dispatch_request t mt p :
  wf_pkt p = true -> request_like p = true -> is_amf_type mt = true ->
  decode_message t mt (carried mt (marshal p)) = (Ok p, t).
Proof. exact (dispatch_request t mt p). Qed.

Theorem c03_dispatch_control t p :
  wf_pkt p = true -> is_control p = true ->
  decode_message t (mtype_of p) (marshal p) = (Ok p, t).
Proof. exact (dispatch_control t p). Qed.

Theorem c03_dispatch_connect_response t mt name tid o a :
  let p := PConnectRes name tid o a in
  wf_pkt p = true -> is_amf_type mt = true -> tx_get t tid = Some cConnect ->
  decode_message t mt (carried mt (marshal p)) = (Ok p, tx_del t tid).
Proof. exact (dispatch_connect_res t mt name tid o a). Qed.

Theorem c03_dispatch_create_stream_response t mt name tid o sid :
  let p := PCreateStreamRes name tid o sid in
  wf_pkt p = true -> is_response_name name = true -> is_amf_type mt = true ->
  tx_get t tid = Some cCreateStream ->
  decode_message t mt (carried mt (marshal p)) = (Ok p, tx_del t tid).
Proof. exact (dispatch_create_stream_res t mt name tid o sid). Qed.

(* connect's transaction id is fixed at 1.0: the peer rejects any other ("Invalid transaction
   ID", code 23); closeStream is a generic call *)
Theorem c03_connect_requires_tid_one t mt tid o a :
  is_amf_type mt = true -> tid < 18446744073709551616 -> f_eq tid f_one = false ->
  wf_propsb o = true -> wf_oprops a = true ->
  decode_message t mt (carried mt (marshal (PConnect cConnect tid o a))) = (Err 23, t).
Proof. exact (connect_requires_tid_one t mt tid o a). Qed.

Theorem c03_close_stream t mt : is_amf_type mt = true ->
  decode_message t mt (carried mt (marshal new_close_stream)) = (Ok new_close_stream, t).
Proof. intros H. apply dispatch_request; [reflexivity|reflexivity|exact H]. Qed.

(* a response without an outstanding request is an error, never a guess; the table is unchanged *)
Theorem c03_dispatch_unmatched t mt p :
  wf_pkt p = true -> is_control p = false -> is_response_name (cmd_name p) = true ->
  is_amf_type mt = true -> tx_get t (cmd_tid p) = None ->
  decode_message t mt (carried mt (marshal p)) = (Err 5, t).
Proof. exact (dispatch_response_unmatched t mt p). Qed.

(* ... and so is a response to an outstanding request that has no response type *)
Theorem c03_dispatch_no_response_type t mt p rn :
  wf_pkt p = true -> is_control p = false -> is_response_name (cmd_name p) = true ->
  is_amf_type mt = true -> tx_get t (cmd_tid p) = Some rn ->
  bytes_eqb rn cConnect = false -> bytes_eqb rn cCreateStream = false ->
  decode_message t mt (carried mt (marshal p)) = (Err 6, tx_del t (cmd_tid p)).
Proof. exact (dispatch_response_other t mt p rn). Qed.

(* ---- the model's switches are the source's ----
   The translator regenerates, from rtmp.go on every run, the command-name switch of
   parseAMFObject (with the response names, the request-name switch and whether the entry is
   deleted after a successful lookup), the two message-type switches of DecodeMessage, the
   types of requestTransaction's type switch and the constructors' default fields.  A generic
   interpreter of those tables ([parse_tbl], [decode_tbl], Proofs/RtmpPacketGen.v) computes, for
   EVERY command name, request name, table and message type, what the model computes -- so the
   dispatch theorems above are about the switch that is in the source now. *)
Theorem c03_source_parse_switch t name tid : parse_spec t name tid = parse_tbl t name tid.
Proof. exact (parse_spec_is_source_table t name tid). Qed.

Theorem c03_source_parse_model t name tid rest :
  wf_strb name = true -> tid < 18446744073709551616 ->
  parse_amf_object t (enc_hdr name tid ++ rest) = parse_tbl t name tid.
Proof. intros Hn Ht. rewrite parse_amf_hdr by assumption. exact (parse_spec_is_source_table t name tid). Qed.

Theorem c03_source_decode_switch t mt payload : decode_message t mt payload = decode_tbl t mt payload.
Proof. exact (decode_message_is_source_table t mt payload). Qed.

Theorem c03_source_request_types p :
  request_transaction p =
  if existsb (String.eqb (type_name p)) rtmp_tbl_request_types then (cmd_tid p, cmd_name p) else (0, []).
Proof. exact (request_transaction_is_source_table p). Qed.

Theorem c03_source_constructors :
  (let '(n, t, o, _) := rtmp_tbl_ctor_NewConnectAppPacket in
   o = "amf0.NewObject"%string /\ new_connect = PConnect (string_bytes n) (Z.to_N t) [] None) /\
  (let '(n, _, o, _) := rtmp_tbl_ctor_NewConnectAppResPacket in
   o = "amf0.NewObject"%string /\ forall tid, new_connect_res tid = PConnectRes (string_bytes n) tid [] None) /\
  (let '(n, t, o, _) := variant_defaults rtmp_tbl_ctor_NewCallPacket in new_call = PCall n t o None) /\
  (let '(n, t, o, _) := variant_defaults rtmp_tbl_ctor_NewCloseStreamPacket in new_close_stream = PCall n t o None) /\
  (let '(n, t, o, _) := variant_defaults rtmp_tbl_ctor_NewCreateStreamPacket in new_create_stream = PCreateStream n t o) /\
  (let '(n, _, o, _) := variant_defaults rtmp_tbl_ctor_NewCreateStreamResPacket in
   forall tid, new_create_stream_res tid = PCreateStreamRes n tid o 0) /\
  (let '(n, t, o, st) := variant_defaults rtmp_tbl_ctor_NewPublishPacket in new_publish = PPublish n t o [] st) /\
  (let '(n, t, o, _) := variant_defaults rtmp_tbl_ctor_NewPlayPacket in new_play = PPlay n t o []).
Proof. exact constructors_are_source_tables. Qed.

(* the generated Size() bodies of the control packets (gen_funcs.go) are what the model uses *)
Theorem c03_source_sizes et :
  psize (PUserControl et 0 0) = gen_size (rtmp_UserControl_Size (Z.of_N et)) /\
  psize (PUserControl et 0 0) = 2 + (if et =? 26 then 1 else 4) + (if et =? 3 then 4 else 0) /\
  psize (PSetChunkSize 0) = 4 /\ psize (PWinAck 0) = 4 /\ psize (PSetPeerBw 0 0) = 5.
Proof. repeat split. exact (uc_size_spec et). Qed.

(* ---- transactions: the concrete table refines an abstract finite map ----
   For EVERY sequence of events -- [Sent p]: WritePacket of any packet; [Resp mt name tid rest]: a
   _result/_error with transaction id tid and any body arrives in any command/data message
   type; [Other mt p]: any other well-formed packet arrives -- starting from the empty table,
   the concrete table [t] and the abstract map [m : tid -> option name] stay related by
   [refines t m] (every lookup agrees, for every 64-bit key incl. NaN and -0), and every event's
   concrete outcome is the abstract one:
     ASent;  ANoRequest: the decode is exactly Err 5 ("No matched request");
     AResponseTo rn: the payload is unmarshalled as the response type of the request name rn
       (connect -> ConnectAppResPacket, createStream -> CreateStreamResPacket, otherwise Err 6),
       and the id is no longer outstanding;
     APacket p: the decode is Ok p.
   The abstract step [a_step] registers a request iff [asks_response] (below). *)
Theorem c03_tx_refines_map h :
  Forall wf_ev h ->
  refines (fst (c_run [] h)) (fst (a_run a_empty h)) /\
  Forall2 out_matches (snd (c_run [] h)) (snd (a_run a_empty h)).
Proof. intros H. exact (run_refines h [] a_empty refines_empty H). Qed.

(* the same from any related pair (one step) *)
Theorem c03_tx_step t m e : refines t m -> wf_ev e ->
  refines (fst (c_step t e)) (fst (a_step m e)) /\ out_matches (snd (c_step t e)) (snd (a_step m e)).
Proof. exact (step_refines t m e). Qed.

(* the guard, explicit: a request is registered iff it is a connect/createStream with a name and
   a transaction id > 0, i.e. not NaN, not +0/-0, not negative (RTMP: id 0 = no response
   expected); such requests are never registered and the table is untouched *)
Theorem c03_tx_guard b : b < 18446744073709551616 ->
  (f_gt0 b = true <-> (f_isnan b = false /\ f_iszero b = false /\ b < 9223372036854775808)).
Proof. exact (f_gt0_spec b). Qed.

Theorem c03_tx_never_registered t p :
  f_gt0 (fst (request_transaction p)) = false -> on_packet_written t p = t.
Proof. exact (on_packet_written_guard t p). Qed.

Theorem c03_tx_only_positive_ids t m k v : refines t m -> m k = Some v -> f_gt0 k = true.
Proof. exact (refines_dom t m k v). Qed.

(* exactly once: whatever a response with id tid did, a second response with that id is
   "No matched request" and leaves the table alone *)
Theorem c03_tx_once t mt name tid rest mt' name' rest' :
  keys_pos t -> is_amf_type mt = true -> is_response_name name = true ->
  is_amf_type mt' = true -> is_response_name name' = true -> tid < 18446744073709551616 ->
  let t1 := snd (decode_message t mt (carried mt (enc_hdr name tid ++ rest))) in
  decode_message t1 mt' (carried mt' (enc_hdr name' tid ++ rest')) = (Err 5, t1).
Proof. exact (response_once t mt name tid rest mt' name' rest'). Qed.

(* ---- typed wait ----
   [skips want t pre t']: every message of pre passes ReadMessage's arrival hook, decodes (with
   the table threaded from t to t') and is not of the wanted type.  ExpectPacket returns the
   first message after such a prefix that decodes to the wanted type, with its index. *)
Theorem c03_expect_packet want t pre t1 m p t2 post :
  skips want t pre t1 -> arrive_ok m = true ->
  decode_message t1 (fst m) (snd m) = (Ok p, t2) -> want p = true ->
  expect_packet want t (pre ++ m :: post) 0 = (Ok (N.of_nat (length pre), p), t2).
Proof. exact (expect_packet_first want t pre t1 m p t2 post). Qed.

(* In terms of traffic: [traffic_msg m p] -- m carries a well-formed control packet, or a
   well-formed request / generic call in any command/data carrier.  ExpectPacket skips all such
   control and command traffic that is not of the wanted type and returns the first that is;
   the table is untouched. *)
Theorem c03_expect_packet_traffic want t pre m p post :
  Forall (fun m => exists q, traffic_msg m q /\ want q = false) pre ->
  traffic_msg m p -> want p = true ->
  expect_packet want t (pre ++ m :: post) 0 = (Ok (N.of_nat (length pre), p), t).
Proof. exact (expect_packet_traffic want t pre m p post). Qed.

(* Earlier traffic that does NOT decode is not skipped (per the code): the wait ends with that
   error -- audio (8), video (9), acknowledgement (3), abort (2) messages give "Unknown
   message" (code 2), an unmatched response gives 5 -- ... *)
Theorem c03_expect_packet_undecodable want t pre t1 m e t2 post :
  skips want t pre t1 -> arrive_ok m = true ->
  decode_message t1 (fst m) (snd m) = (Err e, t2) ->
  expect_packet want t (pre ++ m :: post) 0 = (Err e, t2).
Proof. exact (expect_packet_undecodable want t pre t1 m e t2 post). Qed.

Theorem c03_unknown_message_type t mt pl : pl <> [] ->
  (mt =? 1) = false -> (mt =? 5) = false -> (mt =? 6) = false ->
  is_amf_type mt = false -> (mt =? 4) = false ->
  decode_message t mt pl = (Err 2, t).
Proof. exact (decode_unknown_type t mt pl). Qed.

(* ... and the end of the stream, or a Set Chunk Size / User Control / Window Acknowledgement
   Size message that fails its arrival hook, is a read error (code 8) *)
Theorem c03_expect_packet_read_error want t pre t1 rest :
  skips want t pre t1 -> (rest = [] \/ exists m post, rest = m :: post /\ arrive_ok m = false) ->
  expect_packet want t (pre ++ rest) 0 = (Err 8, t1).
Proof. exact (expect_packet_read_error want t pre t1 rest). Qed.

(* ExpectMessage(types...): the first arriving message of one of the types (any message when no
   type is given), skipping all other traffic without decoding it *)
Theorem c03_expect_message types pre m post :
  Forall (fun m => arrive_ok m = true /\ type_hit types m = false) pre ->
  arrive_ok m = true -> type_hit types m = true ->
  expect_message types (pre ++ m :: post) 0 = Ok (N.of_nat (length pre), m).
Proof. exact (expect_message_first types pre m post). Qed.

Theorem c03_expect_message_none types pre :
  Forall (fun m => arrive_ok m = true /\ type_hit types m = false) pre ->
  expect_message types pre 0 = Err 8.
Proof. exact (expect_message_none types pre). Qed.

(* well-formed control packets and all command/data messages pass the arrival hook *)
Theorem c03_arrive_ok_control p : wf_pkt p = true -> is_control p = true ->
  arrive_ok (mtype_of p, marshal p) = true.
Proof. exact (arrive_ok_control p). Qed.
Theorem c03_arrive_ok_command mt pl : is_amf_type mt = true -> arrive_ok (mt, pl) = true.
Proof. exact (arrive_ok_amf mt pl). Qed.

(* ---- totality (imported by C07): no input makes a packet decoder panic ----
   any receiver, any byte list (well-formedness of the bytes is not even needed), any table,
   any message type *)
Theorem rtmp_unmarshal_total r data : forall s, unmarshal r data <> Panic s.
Proof. exact (unmarshal_total r data). Qed.

Theorem rtmp_decode_total t mt payload : forall s, fst (decode_message t mt payload) <> Panic s.
Proof. exact (decode_message_total t mt payload). Qed.

Theorem rtmp_expect_packet_total want ms t i : forall s, fst (expect_packet want t ms i) <> Panic s.
Proof. exact (expect_packet_total want ms t i). Qed.

Theorem rtmp_expect_message_total types ms i : forall s, expect_message types ms i <> Panic s.
Proof. exact (expect_message_total types ms i). Qed.

(* ---- non-vacuity ---- *)
Definition ex_obj : props :=
  [(string_bytes "app", AStr (string_bytes "live"));
   (string_bytes "caps", AObj [(string_bytes "v", ANum 4607182418800017408); ([], ABool true)]);
   (string_bytes "arr", AEcma 2 [(string_bytes "k", ANull)])].
Definition ex_connect : pkt := PConnect cConnect f_one ex_obj (Some [(string_bytes "x", AUndef)]).
Definition ex_create_stream : pkt := PCreateStream cCreateStream f_two (Some ANull).
Definition ex_cs_res : pkt := PCreateStreamRes cResult f_two (Some ANull) f_one.
Definition ex_call : pkt := PCall cCloseStream 0 (Some ANull) None.
Definition ex_publish : pkt := PPublish cPublish 0 (Some ANull) (string_bytes "stream") cLive.

Example c03_wf_nonvacuous :
  wf_pkt ex_connect = true /\ wf_pkt ex_create_stream = true /\ wf_pkt ex_cs_res = true /\
  wf_pkt ex_call = true /\ wf_pkt ex_publish = true /\
  request_like ex_connect = true /\ request_like ex_call = true /\ request_like ex_publish = true.
Proof. vm_compute. repeat split. Qed.

(* a history: createStream with id 2 is sent, its _result arrives (decoded as the response type,
   consumed), the same _result again is "No matched request", a publish in between arrives as
   publish; a createStream with id 0 / NaN is never registered *)
Example c03_history_nonvacuous :
  let h := [Sent ex_create_stream; Other mtAMF0Command ex_publish;
            Resp mtAMF0Command cResult f_two (enc ANull ++ enc (ANum f_one));
            Resp mtAMF3Command cResult f_two (enc ANull ++ enc (ANum f_one))] in
  Forall wf_ev h /\
  snd (c_run [] h) = [None; Some (Ok ex_publish); Some (Ok ex_cs_res); Some (Err 5)] /\
  fst (c_run [] h) = [] /\
  on_packet_written [] (PCreateStream cCreateStream 0 (Some ANull)) = [] /\
  on_packet_written [] (PCreateStream cCreateStream 9221120237041090561 (Some ANull)) = [].
Proof.
  split; [|vm_compute; repeat split].
  repeat constructor; vm_compute; auto.
Qed.

Example c03_expect_nonvacuous :
  let ms := [(mtWinAck, marshal (PWinAck 2500000)); (mtAMF0Command, marshal ex_call);
             (mtAMF0Command, marshal ex_publish); (8, [1; 2; 3])] in
  expect_packet (fun p => kind_of p =? 5) [] ms 0 = (Ok (2, ex_publish), []) /\
  expect_packet (fun p => kind_of p =? 6) [] ms 0 = (Err 2, []) /\
  expect_message [8] ms 0 = Ok (3, (8, [1; 2; 3])).
Proof. vm_compute. repeat split. Qed.

(* the defect fixed by 9789218 (regression): a command whose payload ends after the
   transaction id is an error, not a slice-bounds panic *)
Example c03_short_command_regression :
  let short name := enc (AStr name) ++ enc (ANum f_two) in
  fst (decode_message [] 20 (short cPublish)) = Err 20 /\
  fst (decode_message [] 20 (short cPlay)) = Err 20 /\
  fst (decode_message [(f_two, cCreateStream)] 20 (short cResult)) = Err 19.
Proof. vm_compute. repeat split. Qed.

(* ---- end to end: packet layer composed with the chunk layer of C01 ----
   Definitions in Proofs/RtmpEndToEnd.v.  An [endpoint] is one Protocol: its outstanding-request
   table, its output chunk size and its chunk-reader state (Model/RtmpChunk.v).
   [write_packet e p sid] = WritePacket: marshal, message of type Type() on chunk stream BetterCid()
   with stream id uint32(sid), the request registered BEFORE the bytes are written, then C01's
   write_message; [read_packet] = C01's read_message (arrival hook included) followed by
   decode_message on the reader's own table.
   A conversation [bs] is a list of bursts (sender, packets): the sender writes the burst, the
   peer reads it; [run_conv fuel cutf sid a b bs] executes it with the wire of every burst cut
   into transport reads by the arbitrary function [cutf].
   Hypotheses, all explicit:
     cut_ok cutf      the cuts preserve the byte stream (any segmentation, down to single bytes,
                      empty reads included)
     fuel_ok fuel bs  the chunk reader's loop bound exceeds every payload length
     in_sync a b      both directions agree on the chunk size in force and no message is half
                      read (true for two fresh Protocols: c03_fresh_in_sync)
     conv_ok ta tb bs ta2 tb2   every packet is [wire_ok] (well-formed, payload < 2^24 bytes, a Set
                      Chunk Size announces a size in [1, 2^31-1] -- C01's wf_msg) and [deliverable]:
                      a control packet, a request or generic call carrying its protocol name
                      (connect with id 1.0 by well-formedness), or a response whose transaction id
                      is outstanding AT THE RECEIVER (a connect for a connect response, a
                      createStream for a createStream response); ta/tb are the tables of A/B, moved
                      by on_packet_written of what each endpoint itself sends and by the
                      consumption of answered requests.
   Conclusion: every burst is written without error and the peer's ReadMessage + DecodeMessage
   loop returns exactly the packets written, each as itself (hence with the type of c03_dispatch
   and re-marshalling to the payload); the final tables are the predicted ones and the endpoints
   are in sync again, so the theorem composes. *)
Theorem c03_end_to_end bs fuel cutf sid a b ta2 tb2 :
  cut_ok cutf -> fuel_ok fuel bs -> in_sync a b ->
  conv_ok (ep_tx a) (ep_tx b) bs ta2 tb2 ->
  let '(outs, (a', b')) := run_conv fuel cutf sid a b bs in
  Forall2 outs_ok outs (expected_outs bs) /\
  ep_tx a' = ta2 /\ ep_tx b' = tb2 /\ in_sync a' b'.
Proof. exact (end_to_end bs fuel cutf sid a b ta2 tb2). Qed.

Theorem c03_fresh_in_sync : in_sync ep0 ep0.
Proof. exact in_sync_ep0. Qed.

(* one direction, stated on the transport itself: whatever follows the burst on the wire ([x])
   and however the bytes arrive ([i] with the same concatenation), the peer reads exactly the
   packets and leaves exactly [x]; the sender's table has registered its requests, the
   receiver's has consumed the answered ones, both sides continue with the same chunk size *)
Theorem c03_end_to_end_burst ps es er sid tr' :
  Forall wire_ok ps -> 0 < ep_out es -> RtmpChunk.in_chunk (ep_rs er) = ep_out es ->
  RtmpChunkRT.all_idle (ep_rs er) -> delivered (ep_tx er) ps tr' ->
  exists ws es' er',
    write_packets es ps sid = (map Ok ws, es') /\
    ep_tx es' = fold_left on_packet_written ps (ep_tx es) /\ ep_rs es' = ep_rs es /\
    ep_tx er' = tr' /\ ep_out er' = ep_out er /\
    0 < ep_out es' /\ RtmpChunk.in_chunk (ep_rs er') = ep_out es' /\ RtmpChunkRT.all_idle (ep_rs er') /\
    forall (i : RtmpChunk.inp) (x : bytes) fuel,
      Proofs.RtmpChunk.flat i = concat ws ++ x -> Forall (fun p => (length (marshal p) < fuel)%nat) ps ->
      exists i', read_packets fuel (length ps) er i = Ok (map Ok ps, er', i') /\ Proofs.RtmpChunk.flat i' = x.
Proof. exact (e2e_burst ps es er sid tr'). Qed.

(* ExpectPacket on the wire: the packets before the first wanted one are read, decoded and
   skipped; that one is returned with its index and its request (if it is a response) consumed *)
Theorem c03_end_to_end_expect_packet pre es er sid p post tr1 (want : pkt -> bool) :
  Forall wire_ok (pre ++ p :: post) ->
  0 < ep_out es -> RtmpChunk.in_chunk (ep_rs er) = ep_out es -> RtmpChunkRT.all_idle (ep_rs er) ->
  delivered (ep_tx er) pre tr1 -> deliverable tr1 p ->
  Forall (fun q => want q = false) pre -> want p = true ->
  exists ws es' er' i',
    write_packets es (pre ++ p :: post) sid = (map Ok ws, es') /\
    forall fuel k, Forall (fun q => (length (marshal q) < fuel)%nat) (pre ++ [p]) ->
      expect_packet_wire fuel (S (length pre)) want er [concat ws] k
      = Ok (k + N.of_nat (length pre), p, er', i') /\
      ep_tx er' = table_after tr1 p.
Proof. exact (expect_packet_e2e pre es er sid p post tr1 want). Qed.

(* non-vacuity: connect / _result (+ window ack size, set chunk size 4096) / createStream /
   _result / publish from A to B, then a createStream of B answered by A: a valid conversation
   from two fresh endpoints; executed with ONE BYTE per transport read every packet arrives as
   itself, and both tables are empty at the end (every request answered) *)
Definition f_three : N := 4613937818241073152.      (* 3.0 *)
Definition ex_conv : list burst :=
  [(false, [ex_connect]);
   (true, [PWinAck 2500000; PSetChunkSize 4096; PConnectRes cResult f_one ex_obj None]);
   (false, [ex_create_stream]);
   (true, [ex_cs_res]);
   (false, [ex_publish; PUserControl 3 1 3000]);
   (true, [PCreateStream cCreateStream f_three (Some ANull)]);
   (false, [PCreateStreamRes cResult f_three (Some ANull) f_two])].

Ltac wire_ok_tac := repeat constructor; try (vm_compute; reflexivity); try lia.
Ltac deliv_tac :=
  repeat (first [ apply dl_nil
                | eapply dl_cons;
                  [first [ left; reflexivity | right; left; reflexivity
                         | right; right; vm_compute; auto ]|] ]).

Example c03_end_to_end_nonvacuous :
  conv_ok [] [] ex_conv [] [] /\ fuel_ok 300 ex_conv /\
  map snd (fst (run_conv 300 byte_reads 1 ep0 ep0 ex_conv))
  = map (fun b => Ok (map Ok (snd b))) ex_conv /\
  cut_ok byte_reads /\ cut_ok one_read.
Proof.
  split; [|split; [|split; [|split]]].
  - unfold ex_conv.
    eapply co_a; [wire_ok_tac|deliv_tac|].
    eapply co_b; [wire_ok_tac|deliv_tac|].
    eapply co_a; [wire_ok_tac|deliv_tac|].
    eapply co_b; [wire_ok_tac|deliv_tac|].
    eapply co_a; [wire_ok_tac|deliv_tac|].
    eapply co_b; [wire_ok_tac|deliv_tac|].
    eapply co_a; [wire_ok_tac|deliv_tac|].
    vm_compute. apply co_nil.
  - repeat constructor; vm_compute; lia.
  - vm_compute. reflexivity.
  - exact byte_reads_ok.
  - exact one_read_ok.
Qed.

Print Assumptions c03_constants.
Print Assumptions c03_size.
Print Assumptions c03_roundtrip.
Print Assumptions c03_remarshal.
Print Assumptions c03_user_control.
Print Assumptions c03_control_values.
Print Assumptions c03_decoded_wellformed.
Print Assumptions c03_decoded_fixed_point.
Print Assumptions c03_decode_message_decoded.
Print Assumptions c03_unmarshal_overwrites.
Print Assumptions c03_reuse_is_fresh.
Print Assumptions c03_dispatch_request.
Print Assumptions c03_dispatch_control.
Print Assumptions c03_dispatch_connect_response.
Print Assumptions c03_dispatch_create_stream_response.
Print Assumptions c03_connect_requires_tid_one.
Print Assumptions c03_close_stream.
Print Assumptions c03_dispatch_unmatched.
Print Assumptions c03_dispatch_no_response_type.
Print Assumptions c03_source_parse_switch.
Print Assumptions c03_source_parse_model.
Print Assumptions c03_source_decode_switch.
Print Assumptions c03_source_request_types.
Print Assumptions c03_source_constructors.
Print Assumptions c03_source_sizes.
Print Assumptions c03_tx_refines_map.
Print Assumptions c03_tx_step.
Print Assumptions c03_tx_guard.
Print Assumptions c03_tx_never_registered.
Print Assumptions c03_tx_only_positive_ids.
Print Assumptions c03_tx_once.
Print Assumptions c03_expect_packet.
Print Assumptions c03_expect_packet_traffic.
Print Assumptions c03_expect_packet_undecodable.
Print Assumptions c03_unknown_message_type.
Print Assumptions c03_expect_packet_read_error.
Print Assumptions c03_expect_message.
Print Assumptions c03_expect_message_none.
Print Assumptions c03_arrive_ok_control.
Print Assumptions c03_arrive_ok_command.
Print Assumptions c03_end_to_end.
Print Assumptions c03_fresh_in_sync.
Print Assumptions c03_end_to_end_burst.
Print Assumptions c03_end_to_end_expect_packet.
Print Assumptions rtmp_unmarshal_total.
Print Assumptions rtmp_decode_total.
Print Assumptions rtmp_expect_packet_total.
Print Assumptions rtmp_expect_message_total.
