(* C02 -- the RTMP reader decodes every spec-conformant chunk stream.
   The reference chunker (spec_step / spec_run / ref_chunk in Model/RtmpChunk.v) is written from
   RTMP 1.0 section 5.3, independently of the library's writer: a plan chooses, chunk by chunk,
   the chunk stream (ids 2..65599), the basic header form (1/2/3 bytes), the message header type
   (0/1/2/3) and thereby the interleaving of unfinished messages of different chunk streams; Set
   Chunk Size messages in the message list change the chunk size for the following chunks.
   [legal plan msgs] are the specification's side conditions (type 0 at the start of a chunk
   stream; type 1 only with unchanged stream id and non-decreasing time; type 2 additionally
   unchanged length and type; type 3 for a new message additionally unchanged delta; type 3 on
   continuation chunks; extended timestamp present iff the 3-byte field is 0xFFFFFF and repeated
   on type-3 chunks; basic header form legal for the id; well-formed protocol control bodies; no
   Abort; every message finished).
   Proofs are in Proofs/RtmpSpec.v. *)
From Verif Require Import Lib.Base Lib.Sx Model.RtmpChunk Proofs.RtmpChunk Proofs.RtmpChunkRT Proofs.RtmpSpec.
Open Scope N_scope.

(* For every legal plan over every message list -- all header types, timestamp deltas, extended
   timestamps on type-0 headers and their repetition on type-3 continuation chunks, any number
   of interleaved chunk streams, Set Chunk Size in between -- and every segmentation [segs] of
   the chunker's bytes into transport reads, the peer's read loop (ReadMessage until the first
   error) yields exactly the chunked messages in completion order with the specification's
   timestamps reduced to 31 bits, then a clean io.EOF.
   PARTIAL: guarded by [no_ext_delta] -- no message-starting chunk of type 1/2 has a delta
   >= 0xFFFFFF and no message-starting type-3 chunk follows a header with extended timestamp.
   Without the guard the statement is false for the code as it is (c02_ext_delta_refuted,
   known finding ext-ts-delta). *)
Theorem c02_decode_partial plan msgs segs fuel :
  legal plan msgs = true -> no_ext_delta plan msgs = true ->
  flat segs = ref_chunk plan msgs -> (length plan < fuel)%nat ->
  read_all fuel rs0 segs [] = (completion_order plan msgs, E_EOF).
Proof. exact (decode_partial plan msgs segs fuel). Qed.

(* the same, chunk by chunk and from any related pair of sender / reader states: one chunk of the
   reference chunker is consumed by exactly one iteration of the ReadMessage loop, which returns
   the message the chunk completes (if any) and stays in simulation *)
Theorem c02_chunk_simulation sd st s w om sd' (x : bytes) (rest : inp) :
  R sd s -> spec_step sd st = (w, om, true, sd') -> guard_step sd st = true ->
  exists s', read_chunk s ((w ++ x) :: rest) = Ok (om, s', x :: rest) /\ R sd' s'.
Proof. exact (sim_step sd st s w om sd' x rest). Qed.

(* Rejection, over ARBITRARY prior reader state and whatever bytes follow: the three rules the
   reader relies on give an error, never a message. *)
(* (a) a type-0 header on a chunk stream whose message is unfinished *)
Theorem c02_reject_type0_inside_message s i cid i1 fuel :
  read_basic_header i = Ok (0, cid, i1) -> c_part (get_chunk (chunks s) cid) <> None ->
  read_message (S fuel) s i = Err E_EXISTS.
Proof. exact (reject_type0_inside s i cid i1 fuel). Qed.
(* (b) a type-1 header inside an unfinished message announcing a different length *)
Theorem c02_reject_length_change s i cid i1 i2 d0 d1 d2 l0 l1 l2 ty fuel :
  read_basic_header i = Ok (1, cid, i1) ->
  stake i1 7 = Ok ([d0; d1; d2; l0; l1; l2; ty], i2) ->
  c_part (get_chunk (chunks s) cid) <> None -> c_count (get_chunk (chunks s) cid) <> 0 ->
  ube3 l0 l1 l2 <> h_len (c_hdr (get_chunk (chunks s) cid)) ->
  read_message (S fuel) s i = Err E_SIZE.
Proof. exact (reject_length_change s i cid i1 i2 d0 d1 d2 l0 l1 l2 ty fuel). Qed.
(* (c) a chunk stream never seen before that does not start with type 0, other than the
   documented librtmp form (chunk stream 2, type 1) *)
Theorem c02_reject_fresh_not_type0 s i fmt cid i1 fuel :
  read_basic_header i = Ok (fmt, cid, i1) -> c_count (get_chunk (chunks s) cid) = 0 ->
  fmt <> 0 -> ~ (cid = 2 /\ fmt = 1) ->
  read_message (S fuel) s i = Err E_FRESH.
Proof. exact (reject_fresh_not_type0 s i fmt cid i1 fuel). Qed.

(* non-vacuity of the three rejections: rule-breaking traces of the reference chunker (first chunk
   of a 300-byte message, then (a) a type-0 chunk, (b) a type-1 chunk announcing 301 bytes on the
   same chunk stream; (c) a fresh chunk stream 9 starting with type 3) end in exactly these errors,
   with no message delivered *)
Example c02_reject_nonvacuous :
  let m := mkmsg 5 0 9 1 (repeat 1 300) in
  read_all 10 rs0 [ref_chunk [mkstep 5 1 0 0; mkstep 5 1 0 0] [m]] [] = ([], E_EXISTS) /\
  read_all 10 rs0 [ref_chunk [mkstep 5 1 0 0; mkstep 5 1 1 1] [m]] [] = ([], E_SIZE) /\
  read_all 10 rs0 [ref_chunk [mkstep 9 1 3 0] [mkmsg 9 0 9 1 [1; 2; 3]]] [] = ([], E_FRESH).
Proof. vm_compute. repeat split. Qed.

(* the documented exception to (c): librtmp's ping on a fresh chunk stream 2 with a type-1 header
   (42 000000 000006 04 0006 00000d0f) is accepted and decoded (it was rejected before b5987ac) *)
Example c02_librtmp_ping_accepted :
  read_all 5 rs0 [[66; 0; 0; 0; 0; 0; 6; 4; 0; 6; 0; 0; 13; 15]] []
  = ([mkmsg 2 0 4 0 [0; 6; 0; 0; 13; 15]], E_EOF).
Proof. vm_compute. reflexivity. Qed.

(* The recorded finding: a legal plan (type 0 at 1000 ms, then type 1 with delta 0x1000000 on
   chunk stream 3) whose second message the reader reports at 16777216 instead of 16778216. *)
Theorem c02_ext_delta_refuted :
  exists plan msgs,
    legal plan msgs = true /\
    fst (read_all 10 rs0 [ref_chunk plan msgs] []) <> completion_order plan msgs /\
    no_ext_delta plan msgs = false.
Proof. exact ext_delta_refuted. Qed.

(* non-vacuity: a legal, guard-satisfying plan using all four header types, two interleaved chunk
   streams (ids 3 and 320, 1- and 3-byte basic headers), an extended timestamp on a type-0 header
   repeated on its type-3 continuation chunk, and a Set Chunk Size *)
Example c02_decode_nonvacuous :
  let msgs := [mkmsg 3 16777300 9 1 (repeat 7 130); mkmsg 320 5 8 1 [1; 2]; mkmsg 2 0 1 0 [0; 0; 0; 64];
               mkmsg 320 25 8 1 [3; 4; 5]; mkmsg 320 45 8 1 [6; 7; 8]; mkmsg 320 65 8 1 [9; 9; 9]] in
  let plan := [mkstep 3 1 0 0; mkstep 320 3 0 0; mkstep 3 1 3 0; mkstep 2 1 0 0; mkstep 320 3 1 0;
               mkstep 320 3 2 0; mkstep 320 3 3 0] in
  legal plan msgs = true /\ no_ext_delta plan msgs = true /\
  read_all 20 rs0 (map (fun b => [b]) (ref_chunk plan msgs)) [] = (completion_order plan msgs, E_EOF) /\
  length (completion_order plan msgs) = 6%nat.
Proof. vm_compute. repeat split. Qed.

Print Assumptions c02_decode_partial.
Print Assumptions c02_chunk_simulation.
Print Assumptions c02_reject_type0_inside_message.
Print Assumptions c02_reject_length_change.
Print Assumptions c02_reject_fresh_not_type0.
Print Assumptions c02_ext_delta_refuted.
