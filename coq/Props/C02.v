(* C02 -- RTMP reader decodes every spec-conformant chunk stream. *)
From Verif Require Import Lib.Base Lib.Sx Model.RtmpChunk.
Open Scope N_scope.

Example c02_smoke : legal [mkstep 3 1 0 0] [mkmsg 3 0 9 1 [1;2;3]] = true.
Proof. vm_compute. reflexivity. Qed.
Print Assumptions c02_smoke.
