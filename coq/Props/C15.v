(* C15 -- placeholder while the proofs are being written (stage 1). *)
From Verif Require Import Lib.Base Lib.Sx Lib.Sched Model.WsConc.
Theorem c15_repo_discipline : ws_safeb write_skel = true /\ ws_safeb ctl_skel = true /\ repo_structure_ok = true.
Proof. vm_compute. auto. Qed.
Print Assumptions c15_repo_discipline.
