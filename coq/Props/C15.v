(* C15 -- concurrent control frames never corrupt the WebSocket frame stream.
   Property theorems only; every proof is `exact <lemma>` or a short composition.

   Model (Model/WsConc.v): any number of threads, each a list of operations -- WriteControl
   (ping/pong/close, optionally with a deadline that expires while waiting for the lock), a data
   message (prepWrite, then its frames through flushFrame -> Conn.write; a frame takes one or two
   transport writes), Conn.Close.  The instructions of one frame write are produced from the
   event skeletons that tools/repo2coq/gen_skel.go extracts from Conn.write and
   Conn.WriteControl on every run.  A SCHEDULE is an arbitrary list of thread indices
   (Lib/Sched.v); the transport log [wwire] holds (thread, chunk) in the order the transport
   received them. *)
From Coq Require Import String.
From Verif Require Import Gen.Gen_websocket.
From Verif Require Import Lib.Base Lib.Sx Lib.Sched Model.WsConc Proofs.WsConc.
Import List ListNotations.
Open Scope Z_scope.

Section Generic.
  (* any skeletons for the data path and the control path that satisfy the decidable discipline
     ws_safeb: acquire; test the sticky error; the transport writes, a failure made sticky; the
     close-sent latch; release -- in this order *)
  Variables (wsk csk : list sev) (progs : list (list wop)) (sched : list nat).
  Hypothesis Hw : ws_safeb wsk = true.
  Hypothesis Hc : ws_safeb csk = true.
  Let s := wrun (winit_ops wsk csk progs) sched.

  Lemma reach : Inv s.
  Proof. unfold s. apply wrun_inv. now apply winit_ops_inv. Qed.

  (* 1. For every number of senders, every program and EVERY interleaving the wire is a sequence
     of finished blocks, each the whole frame of one thread -- so a control frame appears only
     between frames -- or, only after the transport has failed and the failure has been made
     sticky, a truncated frame; followed by what the current lock holder has written of its
     frame so far (a prefix of that frame's transport writes). *)
  Theorem c15_generic_serialised :
    exists blocks tail,
      rev (wwire s) = concat (map flat_block blocks) ++ tail /\
      Forall (block_ok s) blocks /\
      (tail = [] \/ exists h f p, wlk s = Some h /\ tail = map (pair h) p /\ is_prefix p (chunks_of f)).
  Proof. exact (serialised s reach). Qed.

  (* ... in particular, while the transport is open the wire is whole frames plus at most the
     holder's frame in progress, and with the lock free exactly whole frames *)
  Theorem c15_generic_whole_frames : wtc s = false -> frames_wire (rev (wwire s)).
  Proof. exact (frames_wire_open s reach). Qed.

  Theorem c15_generic_quiescent : wlk s = None -> wtc s = false ->
    exists blocks, rev (wwire s) = concat (map flat_block blocks) /\
                   Forall (fun b => exists f, snd b = chunks_of f) blocks.
  Proof. exact (quiescent_whole s reach). Qed.

  (* 2. The transport writes of each thread reach the wire in program order, none twice: what
     thread i has written is a subsequence of the chunk sequence of its program (a failed
     operation drops its remaining chunks) -- data frames of a message appear in order. *)
  Theorem c15_generic_order i ops :
    nth_error progs i = Some ops ->
    subseq (written_by i (rev (wwire s))) (code_chunks (prog_code wsk csk ops)).
  Proof.
    intros H. unfold s, winit_ops. apply order_kept. rewrite nth_error_map, H. reflexivity.
  Qed.

  (* 3. A whole Close frame among the finished blocks is the newest block, nothing is in progress
     behind it, the sticky error is set, and no continuation of the run adds anything to the
     wire. *)
  Theorem c15_generic_close_last t f :
    In (t, chunks_of f) (wclosed s) -> is_close f = true -> chunks_of f <> [] ->
    (exists rest, wclosed s = (t, chunks_of f) :: rest) /\ wopen s = [] /\ werr s <> None /\
    forall more, wwire (wrun s more) = wwire s.
  Proof. exact (close_is_last s t f reach). Qed.

  (* 4. Once the sticky error is set (Close sent, or transport failure) nothing further reaches
     the wire and the error stays, whatever the threads do; *)
  Theorem c15_generic_sticky more :
    werr s <> None -> wwire (wrun s more) = wwire s /\ werr (wrun s more) = werr s.
  Proof. exact (sticky s more reach). Qed.

  (* every later write fails with that error: a thread that reaches prepWrite or the test under
     the lock takes the error, and the result reported at the end of an operation is the failure
     it took. *)
  Theorem c15_generic_later_writes_fail i t e rest ins :
    nth_error (wths s) i = Some t -> wcode t = ins :: rest -> ins = WPrep \/ ins = WTest ->
    wfail t = None -> werr s = Some e ->
    nth_error (wths (wstep s i)) i = Some {| wcode := rest; wfail := Some e |}.
  Proof. exact (test_fails_after_error s i t e rest ins). Qed.

  Theorem c15_generic_result_reported i t rest :
    nth_error (wths s) i = Some t -> wcode t = WEnd :: rest -> wres (wstep s i) = (i, wfail t) :: wres s.
  Proof. exact (end_reports_failure s i t rest). Qed.
  (* 5. The write lock is a token channel of capacity 1 (a release is the send `c.mu <- true`, which
     blocks forever when the channel is full).  In a safe skeleton no thread ever blocks on a
     release: whenever a thread's next instruction is the release, its step completes it -- it holds
     the token and hands it back, or its path never took the token and there is no send; and the
     unconditional release (one registered before the acquire) occurs in no safe code. *)
  Theorem c15_generic_release_never_blocks i t rest :
    nth_error (wths s) i = Some t -> wcode t = WRel :: rest ->
    nth_error (wths (wstep s i)) i = Some {| wcode := rest; wfail := wfail t |}.
  Proof. exact (release_never_blocks s i t rest reach). Qed.

  Theorem c15_generic_no_unconditional_release i t rest :
    nth_error (wths s) i = Some t -> wcode t <> WRelU :: rest.
  Proof. exact (no_unconditional_release s i t rest reach). Qed.
End Generic.

(* THE CODE IN /repo.  The skeletons regenerated from websocket/conn.go satisfy the discipline, and
   the structural facts the model relies on hold (writeFatal keeps the first error, prepWrite
   returns the sticky error, flushFrame writes through Conn.write, there is no other transport
   write site than Conn.write, Conn.WriteControl and the handshake, the default ping/close handlers
   and the reader's own replies -- which run on the reading goroutine -- use WriteControl and not the
   single-writer message path) -- all by computation on the
   generated values; a source change that breaks one of them makes this theorem fail. *)
Theorem c15_repo_discipline :
  ws_safeb write_skel = true /\ ws_safeb ctl_skel = true /\ repo_structure_ok = true.
Proof. vm_compute. auto. Qed.

Theorem c15_repo progs sched :
  let s := wrun (winit_ops write_skel ctl_skel progs) sched in
  (wtc s = false -> frames_wire (rev (wwire s))) /\
  (forall i ops, nth_error progs i = Some ops ->
     subseq (written_by i (rev (wwire s))) (code_chunks (prog_code write_skel ctl_skel ops))) /\
  (forall t f, In (t, chunks_of f) (wclosed s) -> is_close f = true -> chunks_of f <> [] ->
     (exists rest, wclosed s = (t, chunks_of f) :: rest) /\ wopen s = [] /\ werr s <> None /\
     forall more, wwire (wrun s more) = wwire s) /\
  (forall more, werr s <> None -> wwire (wrun s more) = wwire s /\ werr (wrun s more) = werr s).
Proof.
  destruct c15_repo_discipline as (Hw & Hc & _). intros s. split; [|split; [|split]].
  - apply c15_generic_whole_frames; assumption.
  - intros i ops. apply c15_generic_order; assumption.
  - intros t f. apply c15_generic_close_last; assumption.
  - intros more. apply c15_generic_sticky; assumption.
Qed.

(* non-vacuity: a ping requested while a two-write data frame is between its transport writes,
   and a Close; the wire is the data frame, the ping, the Close frame, and the message sent
   afterwards fails with close-sent (result code 1) *)
Example c15_nonvacuous :
  let data := {| f_op := 2; f_fin := true; f_len := 60; f_nch := 2 |} in
  let ping := {| f_op := 9; f_fin := true; f_len := 8; f_nch := 1 |} in
  let close := {| f_op := 8; f_fin := true; f_len := 10; f_nch := 1 |} in
  let s := wrun (winit_ops write_skel ctl_skel [[OCtl false ping]; [OCtl false close]; [OMsg [data]; OMsg [data]]])
                [2; 2; 2; 2; 0; 1; 0; 2; 2; 2; 2; 0; 0; 0; 0; 0; 0; 1; 1; 1; 1; 1; 1; 2; 2; 2; 2; 2; 2; 2; 2]%nat in
  rev (wwire s) = [(2, (data, 0)); (2, (data, 1)); (0, (ping, 0)); (1, (close, 0))]%nat /\
  rev (wres s) = [(2, None); (0, None); (1, None); (2, Some e_close_sent)]%nat.
Proof. vm_compute. auto. Qed.

(* THE PREDICATE IS NOT VACUOUS.  A skeleton that performs the transport writes before taking the
   lock is rejected, and the bounded search computes an interleaving of one control sender and
   one two-write data frame after which the wire is not whole frames. *)
Theorem c15_unlocked_refuted :
  let bad := [SWrite true; SAcq false; STest; SLatch; SRel] in
  ws_safeb bad = false /\
  exists sched, find_cex bad ctl_skel = Some sched /\
                wtc (wrun (cex_state bad ctl_skel) sched) = false /\
                ~ frames_wire (rev (wwire (wrun (cex_state bad ctl_skel) sched))).
Proof.
  cbv zeta. split; [reflexivity|].
  destruct (find_cex [SWrite true; SAcq false; STest; SLatch; SRel] ctl_skel) as [sched|] eqn:E;
    [|vm_compute in E; discriminate].
  exists sched. split; [reflexivity|]. split.
  - vm_compute in E. injection E as <-. vm_compute. reflexivity.
  - now apply find_cex_sound.
Qed.

(* A RELEASE THAT IS NOT DOMINATED BY ITS ACQUIRE.  WriteControl with the deferred `c.mu <- true`
   registered BEFORE the deadline-bounded acquire (skeleton early_release_skel, what the translator
   produces for that source): the timeout return pushes a token it never took.  Rejected by the
   predicate; the search computes the schedule  data writer takes the lock and performs the first
   transport write of a two-write frame | a control write times out and pushes a token | a second
   control write takes that token and writes INSIDE the frame | the data writer finishes its frame
   and then blocks forever on its own release (the channel is full): the wire is not whole
   frames, and thread 2 is stuck -- stepping it changes nothing. *)
Theorem c15_release_without_acquire_refuted :
  ws_safeb early_release_skel = false /\
  exists sched, find_cex3 write_skel early_release_skel = Some sched /\
    let s := wrun (cex3_state write_skel early_release_skel) sched in
    wtc s = false /\ ~ frames_wire (rev (wwire s)) /\ rel_blocked s 2 = true /\ wstep s 2 = s.
Proof.
  split; [reflexivity|].
  destruct (find_cex3 write_skel early_release_skel) as [sched|] eqn:E; [|vm_compute in E; discriminate].
  exists sched. split; [reflexivity|]. cbv zeta.
  destruct (find_cex3_sound _ _ _ E) as (H1 & H2).
  split; [|split; [exact H1|split; [exact H2|now apply rel_blocked_stuck]]].
  vm_compute in E. injection E as <-. vm_compute. reflexivity.
Qed.

(* with the safe control skeleton the same search finds nothing *)
Example c15_release_search_safe : find_cex3 write_skel ctl_skel = None.
Proof. vm_compute. reflexivity. Qed.

(* THE MESSAGE PATH IS SINGLE-WRITER.  prepWrite closes whatever message is open on the connection
   (`if c.writer != nil { c.writer.Close() }`); the model records in [wcut] that a message was closed
   by ANOTHER thread's prepWrite, i.e. cut short.  If only one thread ever runs data messages --
   the other threads are control senders, closers and the reader answering Pings through the
   control path (what repo_structure_ok checks for the code in /repo) -- no open message is ever
   cut, under every schedule. *)
Theorem c15_generic_message_never_cut wsk csk d progs sched :
  ws_safeb csk = true ->
  (forall i ops, i <> d -> nth_error progs i = Some ops -> Forall control_only ops) ->
  wcut (wrun (winit_ops wsk csk progs) sched) = false.
Proof.
  intros Hc H. unfold winit_ops. apply (single_writer_never_cut d). intros i c Hi Hn.
  rewrite nth_error_map in Hn. destruct (nth_error progs i) as [ops|] eqn:E; [|discriminate].
  injection Hn as <-. apply no_prep_prog; [exact Hc|]. eapply H; eauto.
Qed.

(* A DEFAULT PING HANDLER ON THE MESSAGE PATH (WriteMessage(PongMessage, ..) instead of WriteControl)
   makes the READING goroutine a second message writer: its program is a data message consisting
   of the pong frame.  The search over all interleavings of that reader and a data writer with a
   two-frame message computes a schedule after which an open message has been cut; with the
   handler on the control path the same search finds nothing. *)
Theorem c15_handler_on_message_path_refuted :
  exists sched, find_cex4 write_skel ctl_skel true = Some sched /\
                wcut (wrun (cex4_state write_skel ctl_skel true) sched) = true.
Proof.
  destruct (find_cex4 write_skel ctl_skel true) as [sched|] eqn:E; [|vm_compute in E; discriminate].
  exists sched. split; [reflexivity|]. now apply find_cex4_sound.
Qed.
Example c15_handler_on_control_path_safe : find_cex4 write_skel ctl_skel false = None.
Proof. vm_compute. reflexivity. Qed.

(* a skeleton that does not make a transport failure sticky, or tests the error before taking
   the lock, is rejected as well *)
Example c15_predicate_rejects :
  ws_safeb [SAcq false; STest; SWrite false; SLatch; SRel] = false /\
  ws_safeb [STest; SAcq false; SWrite true; SLatch; SRel] = false /\
  ws_safeb [SAcq false; STest; SWrite true; SRel; SLatch] = false.
Proof. vm_compute. auto. Qed.

Print Assumptions c15_generic_serialised.
Print Assumptions c15_generic_whole_frames.
Print Assumptions c15_generic_quiescent.
Print Assumptions c15_generic_order.
Print Assumptions c15_generic_close_last.
Print Assumptions c15_generic_sticky.
Print Assumptions c15_generic_later_writes_fail.
Print Assumptions c15_generic_result_reported.
Print Assumptions c15_generic_release_never_blocks.
Print Assumptions c15_generic_no_unconditional_release.
Print Assumptions c15_release_without_acquire_refuted.
Print Assumptions c15_generic_message_never_cut.
Print Assumptions c15_handler_on_message_path_refuted.
Print Assumptions c15_repo_discipline.
Print Assumptions c15_repo.
Print Assumptions c15_unlocked_refuted.
