(* C06 -- the AMF0 wire format is the specification's. *)
From Verif Require Import Lib.Base Lib.Sx Model.Amf0 Proofs.Amf0.
Open Scope N_scope.

Theorem c06_placeholder_witness :
  decode [3; 0;1;97; 5; 0;1;97; 5; 0;0;9] = Ok (AObj [([97], ANull); ([97], ANull)], 12).
Proof. exact dupkey_witness. Qed.

Print Assumptions c06_placeholder_witness.
