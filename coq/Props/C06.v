(* C06 -- the AMF0 wire format is the one defined by the AMF0 specification.
   Property theorems only; proofs are in Proofs/Amf0Spec.v (and Proofs/Amf0.v).

   [enc]/[decode] model the library (Model/Amf0.v, transcribed from amf0/amf0.go; marker values
   regenerated from the source on every run).  [spec_enc]/[spec_decode] are an independent codec
   written from amf0_spec_121207 section 2 with the marker numbers of the specification as
   literals; [spec_decode p] returns the value and the remaining input.  [no_strictb v]: the tree
   contains no strict array with >= 1 element -- the library's strict array is keyed (recorded
   finding strict-array-keyed-layout, c06_strict_refuted below), everything else is covered.
   Trees are otherwise arbitrary: any nesting, key order, repeated/empty keys, any ECMA count. *)
From Verif Require Import Lib.Base Lib.Sx Model.Amf0 Proofs.Amf0 Proofs.Amf0Spec Proofs.Amf0Fast Proofs.Amf0Hist.
From Verif Require Import Gen.Gen_amf0.
Open Scope N_scope.

(* 1. Bytes the library produces are decoded to the same value by the specification's decoder,
   which stops exactly at the end of the value. *)
Theorem c06_lib_to_spec v rest : wf_amf v -> no_strictb v = true ->
  spec_decode (enc v ++ rest) = Some (v, rest).
Proof. exact (lib_to_spec v rest). Qed.

(* 2. The specification's encoding of a value is decoded by the library to that value, and
   Size() is its length. *)
Theorem c06_spec_to_lib v rest : wf_amf v -> no_strictb v = true ->
  decode (spec_enc v ++ rest) = Ok (v, size v).
Proof. exact (spec_to_lib v rest). Qed.

Theorem c06_same_bytes v : wf_amf v -> no_strictb v = true -> spec_enc v = enc v.
Proof. exact (spec_enc_eq v). Qed.

(* 2'. ANY specification-conformant encoding -- whatever an independent encoder emits that the
   specification's decoder reads as the value v: other non-zero bytes for true, an ECMA count
   that is not the number of pairs, repeated keys -- is decoded by the library to v, with
   Size() = the number of bytes the value occupies; and conversely everything the library
   accepts as such a value is read identically by the specification. *)
Theorem c06_spec_to_lib_bytes fuel p v rest : spec_dec fuel p = Some (v, rest) -> no_strictb v = true ->
  decode p = Ok (v, size v) /\ lenN p = size v + lenN rest.
Proof. exact (spec_to_lib_bytes fuel p v rest). Qed.

Theorem c06_lib_to_spec_bytes fuel p v n : dec fuel p = Ok (v, n) -> no_strictb v = true ->
  exists rest, spec_decode p = Some (v, rest) /\ lenN p = n + lenN rest.
Proof. exact (lib_to_spec_bytes fuel p v n). Qed.

(* 3. Markers.  The library's supported set is the specification's {0,1,2,3,5,6,8,10} (marker
   table regenerated from the source); every other first byte -- all 248 of them, and in fact
   every other number -- is reported as an error whatever follows, never skipped or sized. *)
Theorem c06_markers m : m < 256 -> spec_supportedb m = false ->
  forall fuel r, exists e, dec fuel (m :: r) = Err e.
Proof. intros _ H fuel r. apply unsupported_marker_is_error. rewrite supported_same. exact H. Qed.

(* the sweep over all 256 first bytes, against the Discovery function GENERATED from the source
   (Gen_amf0.amf0_Discovery: (constructor name, is-error)): the model's dispatch fails with a
   marker error exactly where the generated function does, and the generated function accepts
   exactly the supported markers and ObjectEnd (whose UnmarshalBinary then always fails). *)
Theorem c06_markers_generated m : m < 256 ->
  gen_marker_err m = model_marker_err m /\
  gen_marker_err m = negb (spec_supportedb m || (m =? 9)).
Proof. exact (markers_generated m). Qed.

(* 4. The recorded finding: strict arrays.  The specification's encoding of [1.0] is rejected by
   the library; the library's encoding of the same array is mis-read by the specification's
   decoder as a different number with two bytes left over; with a non-empty key it is rejected. *)
Theorem c06_strict_refuted :
  let one := ANum 4607182418800017408 in
  wf_amf (AStrict [([], one)]) /\
  decode (spec_enc (AStrict [([], one)])) = Err E_SHORT /\
  spec_decode (enc (AStrict [([], one)])) = Some (AStrict [([], ANum 70300024700928)], [0; 0]) /\
  spec_decode (enc (AStrict [([97], ANull)])) = None.
Proof. vm_compute. repeat split; reflexivity. Qed.

(* 5. The library codec the harness executes (extracted [decode_fast], [enc_fast]: linear time)
   is [decode], [enc]. *)
Theorem c06_model_fast p v : decode_fast p = decode p /\ enc_fast v = enc v.
Proof. split; [exact (decf_eq p)|exact (enc_fast_eq v)]. Qed.

(* 6. After ANY history of API calls on an object graph (Model/Amf0.v h_run: new container, Set,
   MarshalBinary, UnmarshalBinary into fresh containers and ON objects of the graph, including
   calls REJECTED part-way, which leave the header count and the salvaged elements behind), what
   any object of the graph marshals to is read by the specification's decoder as that object's
   current value (no non-empty strict array in it; fewer than 2^32 properties per container). *)
Theorem c06_history_lib_to_spec ops path sub rest :
  forallb op_wf ops = true ->
  g_at path (h_run g0 ops) = Some sub -> gsmall sub = true -> no_strictb (g_view sub) = true ->
  spec_decode (fst (g_marshal sub) ++ rest) = Some (g_view sub, rest).
Proof. exact (history_lib_to_spec ops path sub rest). Qed.

(* non-vacuity of 1./2.: a nested tree with a repeated key, an empty key, an ECMA array whose
   count differs from its length and an empty strict array *)
Example c06_nonvacuous :
  let v := AObj [([97], AEcma 7 [([], ANum 9218868437227405313); ([98], AStrict [])]);
                 ([97], AStr [0; 0; 9]); ([], ABool true)] in
  wf_amf v /\ no_strictb v = true /\ spec_decode (enc v ++ [9]) = Some (v, [9]).
Proof. vm_compute. repeat split; reflexivity. Qed.

(* non-vacuity of 2'.: a non-canonical boolean (0x80) inside an ECMA array *)
Example c06_bytes_nonvacuous :
  spec_decode [8; 0;0;0;9; 0;1;97; 1;128; 0;0;9] = Some (AEcma 9 [([97], ABool true)], []) /\
  decode [8; 0;0;0;9; 0;1;97; 1;128; 0;0;9] = Ok (AEcma 9 [([97], ABool true)], 13).
Proof. vm_compute. split; reflexivity. Qed.

Print Assumptions c06_lib_to_spec.
Print Assumptions c06_spec_to_lib.
Print Assumptions c06_same_bytes.
Print Assumptions c06_spec_to_lib_bytes.
Print Assumptions c06_lib_to_spec_bytes.
Print Assumptions c06_markers.
Print Assumptions c06_markers_generated.
Print Assumptions c06_strict_refuted.
Print Assumptions c06_model_fast.
Print Assumptions c06_history_lib_to_spec.
