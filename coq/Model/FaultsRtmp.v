(* The rtmpchunk builder's chunk reader (Model/RtmpChunk.v: read_basic_header ... read_all) with its
   transport made a parameter: a state type [S] and [take : S -> N -> res (bytes * S)] in place of
   [stake : inp -> N -> res (bytes * inp)] (io.ReadFull through the bufio.Reader).  The bodies are
   theirs, verbatim; Proofs/FaultsRtmpG.v shows that the instance take := stake IS their reader
   (by reflexivity), and analyses the instance over the faulting transport of Lib/IO.v.
   Definitions only. *)
From Verif Require Import Lib.Base Lib.Sx Lib.Err Lib.IO Model.RtmpChunk.
From Verif Require Model.Faults.
Open Scope N_scope.

Section GenReader.
  Variable S : Type.
  Variable take : S -> N -> res (bytes * S).

  Definition g_stake1 (i : S) : res (N * S) :=
    let* (b, i1) := take i 1 in
    match b with [t] => Ok (t, i1) | _ => Panic 100 end.

  Definition g_read_basic_header (i : S) : res (N * N * S) :=
    let* (t, i1) := g_stake1 i in
    let cid := t mod 64 in
    let fmt := (t / 64) mod 4 in
    if 1 <? cid then Ok (fmt, cid, i1)
    else
      let first := cid in
      let* (t2, i2) := g_stake1 i1 in
      let cid2 := u32 (64 + t2) in
      if first =? 1 then
        let* (t3, i3) := g_stake1 i2 in
        Ok (fmt, u32 (cid2 + u32 (t3 * 256)), i3)
      else Ok (fmt, cid2, i2).

  Definition g_read_message_header (cid : N) (st : cstate) (fmt : N) (i : S) : res (cstate * S) :=
    let first := match c_part st with None => true | Some _ => false end in
    if (c_count st =? 0) && negb (fmt =? F0) && negb ((cid =? CID_PC) && (fmt =? F1)) then Err E_FRESH
    else if negb first && (fmt =? F0) then Err E_EXISTS
    else
      let* (p, i1) := take i (hdr_size fmt) in
      let h := c_hdr st in
      let* (h1, e1) :=
        if fmt <=? F2 then
          match p with
          | p0 :: p1 :: p2 :: q =>
              let delta := ube3 p0 p1 p2 in
              let e := EXT <=? delta in
              let ts := if e then h_ts h else if fmt =? F0 then delta else u64 (h_ts h + delta) in
              if fmt <=? F1 then
                match q with
                | l0 :: l1 :: l2 :: ty :: q2 =>
                    let plen := ube3 l0 l1 l2 in
                    if negb first && negb (h_len h =? plen) then Err E_SIZE
                    else if fmt =? F0 then
                      match q2 with
                      | s0 :: s1 :: s2 :: s3 :: _ => Ok (mkhdr delta plen ty (ule4 s0 s1 s2 s3) ts, e)
                      | _ => Panic 2
                      end
                    else Ok (mkhdr delta plen ty (h_sid h) ts, e)
                | _ => Panic 2
                end
              else Ok (mkhdr delta (h_len h) (h_type h) (h_sid h) ts, e)
          | _ => Panic 2
          end
        else
          Ok (if first && negb (c_ext st) then set_ts h (u64 (h_ts h + h_delta h)) else h, c_ext st) in
      let* (ts2, i2) :=
        if e1 then
          let* (t, i2) := take i1 4 in
          match t with
          | [a; b; c; d] => Ok ((ube4 a b c d) mod T31, i2)
          | _ => Panic 3
          end
        else Ok (h_ts h1, i1) in
      Ok (mkcs (set_ts h1 (ts2 mod T31)) e1 (c_count st + 1) (c_part st), i2).

  Definition g_read_payload (inchunk cid : N) (st : cstate) (i : S) : res (option msg * cstate * S) :=
    let h := c_hdr st in
    let '(got, gl) := match c_part st with None => ([], 0) | Some g => g end in
    let mk p := mkmsg cid (h_ts h) (h_type h) (h_sid h) p in
    if h_len h =? 0 then Ok (Some (mk (concat (frev got))), set_part st None, i)
    else if h_len h <? gl then Panic 4
    else
      let n := N.min (h_len h - gl) inchunk in
      let* (d, i1) := take i n in
      if gl + n =? h_len h then Ok (Some (mk (concat (frev (d :: got)))), set_part st None, i1)
      else Ok (None, set_part st (Some (d :: got, gl + n)), i1).

  Definition g_read_chunk (s : rstate) (i : S) : res (option msg * rstate * S) :=
    let* (fmt, cid, i1) := g_read_basic_header i in
    let st := get_chunk (chunks s) cid in
    let* (st1, i2) := g_read_message_header cid st fmt i1 in
    let* (om, st2, i3) := g_read_payload (in_chunk s) cid st1 i2 in
    let ch := set_chunk (chunks s) cid st2 in
    match om with
    | None => Ok (None, mkrs (in_chunk s) ch, i3)
    | Some m => let* c := on_message_arrived (in_chunk s) m in Ok (Some m, mkrs c ch, i3)
    end.

  Fixpoint g_read_message (fuel : nat) (s : rstate) (i : S) : res (msg * rstate * S) :=
    match fuel with
    | O => Err E_FUEL
    | Datatypes.S f =>
        let* (om, s1, i1) := g_read_chunk s i in
        match om with
        | Some m => Ok (m, s1, i1)
        | None => g_read_message f s1 i1
        end
    end.

  Fixpoint g_read_all (fuel : nat) (s : rstate) (i : S) (acc : list msg) : list msg * N :=
    match fuel with
    | O => (frev acc, E_FUEL)
    | Datatypes.S f =>
        match g_read_message fuel s i with
        | Ok (m, s1, i1) => g_read_all f s1 i1 (m :: acc)
        | Err e => (frev acc, e)
        | Panic p => (frev acc, 1000 + p)
        end
    end.
End GenReader.

(* ---- the instance over the faulting transport of Lib/IO.v ----
   Error codes: their reader numbers io.EOF as E_EOF = 1 and io.ErrUnexpectedEOF as E_UEOF = 2 and
   uses 3.. for its own protocol errors; any other transport error e of Lib/Err.v is 1000 + e. *)
Definition io_code (e : N) : N :=
  if e =? id_EOF then E_EOF else if e =? id_UnexpectedEOF then E_UEOF else 1000 + e.

Section OverReader.
  Variable S : Type.
  Variable rd : N -> S -> bytes * option N * S.
  (* io.ReadFull on that reader *)
  Definition io_take (st : S) (n : N) : res (bytes * S) :=
    match read_full S rd n st with
    | Ok x => Ok x
    | Err e => Err (io_code e)
    | Panic p => Panic p
    end.
End OverReader.

(* NewProtocol(rw).ReadMessage until the first error, the transport being a stream of Lib/IO.v
   behind the bufio.Reader *)
Definition io_read_all (fuel : nat) (s : rstate) (str : stream) : list msg * N :=
  g_read_all (bufr stream) (io_take (bufr stream) (br_read stream tr_read)) fuel s (bufr_new str) [].

(* the whole server/client read side: ReadC0S0, ReadC1S1, ReadC2S2 (io.CopyN on the raw transport,
   Model/Faults.v hs_plan) when [hs], then NewProtocol and the read loop:
   (handshake parts read, messages returned, error code) *)
Definition io_session (hs : bool) (fuel : nat) (str : stream) : N * list msg * N :=
  let '(d1, e1, s1) := if hs then Faults.run_items stream tr_read Faults.hs_plan str [] else ([], None, str) in
  match e1 with
  | Some e => (N.of_nat (length d1), [], io_code e)
  | None => let (ms, e) := io_read_all fuel rs0 s1 in (N.of_nat (length d1), ms, e)
  end.
