(* Model of aac/aac.go (C11): enum helpers, AudioSpecificConfig validate / MarshalBinary /
   UnmarshalBinary, ADTSImpl.Encode / Decode / ASC, and a stream driver that decodes frame
   after frame.  Definitions only.

   Transcription rules (DESIGN.md 2.2): Go's fixed-width shifts and masks on non-overlapping
   fields are written with / 2^k and mod 2^k, each one annotated with the Go expression;
   indexing and slicing go through checked accessors ([idx], [drop_chk], [splitN]) that give
   [Panic]; the receiver's AudioSpecificConfig is passed as state, so what a failed call leaves
   behind is part of the model.  The constants, the ToHz table and the bounds of validate()
   come from Gen/Gen_aac.v, regenerated from /repo on every run.

   The independent ISO/IEC 13818-7 6.2 ADTS writer used by the theorems (names starting spec_) is at the
   end; it uses Lib/Bitfield.v only. *)
From Verif Require Import Lib.Base Lib.Sx Lib.Bitfield Lib.GoSem.
From Verif Require Import Gen.Gen_aac.
Open Scope N_scope.

Definition zN (z : Z) : N := Z.to_N z.

(* ---- enum helpers: the bodies are the ones generated from aac.go (gen_funcs.go) ---- *)
Definition callN (f : Z -> res Z) (x : N) : res N :=
  match f (Z.of_N x) with Ok z => Ok (Z.to_N z) | Err e => Err e | Panic s => Panic s end.

Definition to_profile (o : N) : res N := callN aac_ObjectType_ToProfile o.   (* ObjectType.ToProfile *)
Definition to_object (p : N) : res N := callN aac_Profile_ToObjectType p.    (* Profile.ToObjectType *)
Definition to_hz (i : N) : res N := callN aac_SampleRateIndex_ToHz i.        (* SampleRateIndex.ToHz *)

(* ---- AudioSpecificConfig ---- *)
Record asc := mk_asc { aobj : N; asr : N; ach : N }.
Definition asc0 : asc := mk_asc 0 0 0.

(* validate(): switch v.Object {case <cases>: default: error}; range tests with the generated bounds *)
Definition validate (a : asc) : res unit :=
  if negb (existsb (fun z => aobj a =? zN z) aac_validate__Object_cases) then Err 5
  else if (asr a <? zN aac_validate__SampleRate_lt) || (zN aac_validate__SampleRate_gt <? asr a) then Err 6
  else if (ach a <? zN aac_validate__Channels_lt) || (zN aac_validate__Channels_gt <? ach a) then Err 7
  else Ok tt.

(* UnmarshalBinary: the fields are assigned before validate(), so a rejected config stays *)
Definition asc_unmarshal (st : asc) (data : bytes) : asc * res unit :=
  if negb (len_gt data 1) then (st, Err 8)                  (* len(data) < 2 *)
  else match idx data 0 21, idx data 1 22 with
       | Ok t0, Ok t1 =>
           let a := mk_asc ((t0 / 8) mod 32)                        (* (t0 >> 3) & 0x1f *)
                           ((t0 mod 8) * 2 + (t1 / 128) mod 2)      (* ((t0 << 1) & 0x0e) | ((t1 >> 7) & 0x01) *)
                           ((t1 / 8) mod 16) in                     (* (t1 >> 3) & 0x0f *)
           (a, validate a)
       | Panic s, _ | _, Panic s => (st, Panic s)
       | Err e, _ | _, Err e => (st, Err e)
       end.

Definition asc_marshal (a : asc) : res bytes :=
  let* _ := validate a in
  Ok [ (u8 (aobj a) mod 32) * 8 + (u8 (asr a) / 2) mod 8 ;       (* byte(Object)&0x1f<<3 | (byte(SampleRate)&0x0e)>>1 *)
       (u8 (asr a) mod 2) * 128 + (u8 (ach a) mod 16) * 8 ].     (* (byte(SampleRate)&0x01)<<7 | (byte(Channels)&0x0f)<<3 *)

(* ---- ADTSImpl.Encode ---- *)
Definition adts_header (profile : N) (a : asc) (nraw : N) : bytes :=
  let fl := u16 (nraw + 7) in                              (* uint16(len(raw) + len(aacFixedHeader)) *)
  [ 255 ; 241 ;
    (profile mod 4) * 64 + (u8 (asr a) mod 16) * 4 + (u8 (ach a) / 4) mod 2 ;
                                     (* (profile<<6)&0xc0 | (SampleRate<<2)&0x3c | (Channels>>2)&0x01 *)
    (u8 (ach a) mod 4) * 64 + (fl / 2048) mod 4 ;          (* (Channels<<6)&0xc0 | (aacFrameLength>>11)&0x03 *)
    (fl / 8) mod 256 ;                                      (* byte(aacFrameLength >> 3) *)
    (fl mod 8) * 32 ;                                       (* byte(aacFrameLength<<5) & 0xe0 *)
    252 ].

Definition adts_encode (a : asc) (raw : bytes) : res bytes :=
  let* _ := validate a in
  let* profile := to_profile (aobj a) in
  Ok (adts_header profile a (lenN raw) ++ raw).

(* ---- ADTSImpl.Decode ---- *)
(* everything up to the assignment of v.asc: header fields and the bytes after the header *)
Record adts_head := mk_head { hd_profile : N; hd_sfi : N; hd_ch : N; hd_flen : N; hd_nbheader : N; hd_rest : bytes }.

Definition adts_parse_head (data : bytes) : res adts_head :=
  if negb (len_gt data 7) then Err 1 else                  (* len(p) <= 7 *)
  let* p0 := idx data 0 1 in
  let* p1 := idx data 1 2 in
  if negb ((p0 =? 255) && ((p1 / 16) mod 16 =? 15)) then Err 2 else   (* p[0] != 0xff || p[1]&0xf0 != 0xf0 *)
  let pat := p1 mod 16 in                                  (* uint8(p[1]) & 0x0f *)
  let protection_absent := pat mod 2 in
  let* p2 := idx data 2 3 in
  let* p3 := idx data 3 4 in
  let sfiv := p2 * 256 + p3 in                             (* uint16(p[2])<<8 | uint16(p[3]) *)
  let profile := (sfiv / 16384) mod 4 in                   (* uint8(sfiv>>14) & 0x03 *)
  let sfi := (u8 (sfiv / 1024)) mod 16 in                  (* uint8(sfiv>>10) & 0x0f *)
  let ch := (u8 (sfiv / 64)) mod 8 in                      (* uint8(sfiv>>6) & 0x07 *)
  let fl_hi := (sfiv mod 4) * 2048 in                      (* (sfiv << 11) & 0x1800 *)
  let* p4 := idx data 4 5 in
  let* p5 := idx data 5 6 in
  let* p6 := idx data 6 7 in
  let abfv := p4 * 65536 + p5 * 256 + p6 in
  let* p := drop_chk 7 data 8 in                           (* p = p[7:] *)
  let fl := fl_hi + (abfv / 8192) mod 2048 in              (* frameLength |= uint16((abfv >> 13) & 0x07ff) *)
  if protection_absent =? 0 then
    if negb (len_gt p 2) then Err 3 else                   (* len(p) <= 2 *)
    let* p' := drop_chk 2 p 9 in                           (* p = p[2:]; nbHeader += 2 *)
    Ok (mk_head profile sfi ch fl 9 p')
  else Ok (mk_head profile sfi ch fl 7 p).

Definition adts_decode (st : asc) (data : bytes) : asc * res (bytes * bytes) :=
  match adts_parse_head data with
  | Err e => (st, Err e)
  | Panic s => (st, Panic s)
  | Ok h =>
      match to_object (hd_profile h) with
      | Err e => (st, Err e)
      | Panic s => (st, Panic s)
      | Ok obj =>
      let a := mk_asc obj (hd_sfi h) (hd_ch h) in
      if hd_flen h <? hd_nbheader h then (a, Err 9) else            (* frameLength < nbHeader (cd86513) *)
      let nb_raw := u16 (hd_flen h + 65536 - hd_nbheader h) in     (* int(frameLength - nbHeader), uint16 *)
      if len_ltN (hd_rest h) nb_raw then (a, Err 4) else
      match splitN (hd_rest h) nb_raw with                        (* p[:nbRaw], p[nbRaw:] *)
      | None => (a, Panic 10)
      | Some (raw, rest) =>
          match validate a with
          | Ok _ => (a, Ok (raw, rest))
          | Err e => (a, Err e)
          | Panic s => (a, Panic s)
          end
      end
      end
  end.

(* decode frame after frame on one ADTS object until nothing is left (the loop a user of
   Decode's `left` result runs); the fuel is only there for structural recursion *)
Fixpoint adts_stream (fuel : nat) (st : asc) (data : bytes) (acc : list (bytes * asc))
  : list (bytes * asc) * asc * res unit :=
  match data with
  | [] => (rev acc, st, Ok tt)
  | _ :: _ =>
      match fuel with
      | O => (rev acc, st, Err 100)
      | S f =>
          match adts_decode st data with
          | (st', Ok (raw, rest)) => adts_stream f st' rest ((raw, st') :: acc)
          | (st', Err e) => (rev acc, st', Err e)
          | (st', Panic s) => (rev acc, st', Panic s)
          end
      end
  end.

(* ---- histories on ONE ADTS object ----
   The only state of ADTSImpl is its AudioSpecificConfig: SetASC unmarshals into it, Decode
   overwrites it with the frame's configuration, the pointer returned by ASC() lets the caller
   assign it, Encode reads it.  Results are values: a frame returned earlier is not affected by
   later calls. *)
Inductive adts_op : Type :=
| OpSetASC (cfg : bytes)
| OpEncode (raw : bytes)
| OpDecode (data : bytes)
| OpAssign (a : asc).           (* *adts.ASC() = a *)

Inductive adts_out : Type :=
| OutSet (a : asc) (r : res unit)
| OutEnc (r : res bytes)
| OutDec (a : asc) (r : res (bytes * bytes))
| OutAssign (a : asc).

Definition adts_step (st : asc) (op : adts_op) : asc * adts_out :=
  match op with
  | OpSetASC cfg => let (a, r) := asc_unmarshal st cfg in (a, OutSet a r)
  | OpEncode raw => (st, OutEnc (adts_encode st raw))
  | OpDecode d => let (a, r) := adts_decode st d in (a, OutDec a r)
  | OpAssign a => (a, OutAssign a)
  end.

Fixpoint adts_run (st : asc) (ops : list adts_op) : asc * list adts_out :=
  match ops with
  | [] => (st, [])
  | op :: rest =>
      let (st1, o) := adts_step st op in
      let (st2, os) := adts_run st1 rest in (st2, o :: os)
  end.

(* ---- specification: an ISO/IEC 13818-7 6.2 ADTS frame with one raw data block ---- *)
Record adts_hdr := mk_hdr {
  h_id : N; h_layer : N; h_pa : N; h_profile : N; h_sfi : N; h_priv : N; h_ch : N; h_orig : N;
  h_home : N; h_cbit : N; h_cstart : N; h_fullness : N; h_nblocks : N; h_crc : N }.

Definition spec_adts_hdr_len (h : adts_hdr) : N := if h_pa h =? 0 then 9 else 7.

Definition spec_adts_frame (h : adts_hdr) (raw : bytes) : bytes :=
  pack_fields
    ([ (4095, 12)            (* syncword *)
     ; (h_id h, 1)           (* ID *)
     ; (h_layer h, 2)        (* layer *)
     ; (h_pa h, 1)           (* protection_absent *)
     ; (h_profile h, 2)      (* profile *)
     ; (h_sfi h, 4)          (* sampling_frequency_index *)
     ; (h_priv h, 1)         (* private_bit *)
     ; (h_ch h, 3)           (* channel_configuration *)
     ; (h_orig h, 1)         (* original/copy *)
     ; (h_home h, 1)         (* home *)
     ; (h_cbit h, 1)         (* copyright_identification_bit *)
     ; (h_cstart h, 1)       (* copyright_identification_start *)
     ; (spec_adts_hdr_len h + lenN raw, 13)   (* aac_frame_length: header, error check and raw data *)
     ; (h_fullness h, 11)    (* adts_buffer_fullness *)
     ; (h_nblocks h, 2) ]    (* number_of_raw_data_blocks_in_frame *)
     ++ (if h_pa h =? 0 then [ (h_crc h, 16) ] else []))   (* adts_error_check: crc_check *)
  ++ raw.

(* adts_frame() with number_of_raw_data_blocks_in_frame = n > 0 (n+1 raw data blocks):
     adts_fixed_header(); adts_variable_header();
     adts_header_error_check():  if protection_absent == 0: raw_data_block_position[i] (16 bits each,
                                 i = 1..n, byte offset of block i from the start of block 0), crc_check (16)
     for i = 0..n: raw_data_block(); adts_raw_data_block_error_check(): if protection_absent == 0: crc_check (16)
   A block is given with its crc_check value (ignored when protection is absent). *)
Fixpoint spec_block_offsets (off : N) (extra : N) (blocks : list (bytes * N)) : list N :=
  match blocks with
  | [] => []
  | b :: t => off :: spec_block_offsets (off + lenN (fst b) + extra) extra t
  end.

Definition spec_multi_body (h : adts_hdr) (blocks : list (bytes * N)) : bytes :=
  if h_pa h =? 0 then
    pack_fields (map (fun p => (p, 16)) (tl (spec_block_offsets 0 2 blocks) ++ [h_crc h]))
    ++ flat_map (fun b => fst b ++ pack_fields [ (snd b, 16) ]) blocks
  else flat_map fst blocks.

Definition spec_adts_frame_multi (h : adts_hdr) (blocks : list (bytes * N)) : bytes :=
  let body := spec_multi_body h blocks in
  pack_fields
    [ (4095, 12); (h_id h, 1); (h_layer h, 2); (h_pa h, 1); (h_profile h, 2); (h_sfi h, 4); (h_priv h, 1);
      (h_ch h, 3); (h_orig h, 1); (h_home h, 1); (h_cbit h, 1); (h_cstart h, 1);
      (7 + lenN body, 13); (h_fullness h, 11); (countN blocks - 1, 2) ]
  ++ body.

(* Table 35 of ISO/IEC 13818-7: sampling frequency by index *)
Definition spec_iso_hz : list N :=
  [96000; 88200; 64000; 48000; 44100; 32000; 24000; 22050; 16000; 12000; 11025; 8000; 7350].

(* ---- harness interface (see harness/C11/c11_test.go for the case formats) ---- *)
(* errors are observed without their code: the wording / kind of an error is not constrained by
   the property; what the failed call leaves behind is *)
Definition s_err0 : sx := SL [SZ 1].

Definition s_asc (a : asc) : list sx := [sN (aobj a); sN (asr a); sN (ach a)].

Definition obs_dec (r : asc * res (bytes * bytes)) : sx :=
  match r with
  | (a, Ok (raw, rest)) => SL (SZ 0 :: SB raw :: SB rest :: s_asc a)
  | (a, Err e) => SL (SZ 1 :: s_asc a)
  | (_, Panic _) => s_panic
  end.

Definition obs_frame (f : bytes * asc) : sx := SL (SB (fst f) :: s_asc (snd f)).

Definition obs_asc2 (hi lo : N) : sx :=
  match asc_unmarshal asc0 [hi; lo] with
  | (a, Ok _) =>
      match asc_marshal a with
      | Ok [b0; b1] => SL (SZ 1 :: s_asc a ++ [sN b0; sN b1])
      | _ => SL (SZ 1 :: s_asc a ++ [SZ 0; SZ 0])
      end
  | (_, Err _) => SL [SZ 0]
  | (_, Panic _) => s_panic
  end.

Fixpoint sweep_lo (hi : N) (n : nat) (lo : N) : list sx :=
  match n with O => [] | S n' => obs_asc2 hi lo :: sweep_lo hi n' (lo + 1) end.

(* the text of a generated String helper as bytes *)
Definition str_of (r : res String.string) : sx :=
  match r with Ok s => SB (string_bytes s) | _ => s_panic end.

(* case 11: a history of operations on one ADTS object *)
Definition p_adts_op (s : sx) : option adts_op :=
  match s with
  | SL [SZ 0; SB cfg] => Some (OpSetASC cfg)
  | SL [SZ 1; SB raw] => Some (OpEncode raw)
  | SL [SZ 2; SB d] => Some (OpDecode d)
  | SL [SZ 3; SZ o; SZ sr; SZ ch] => Some (OpAssign (mk_asc (Z.to_N o) (Z.to_N sr) (Z.to_N ch)))
  | _ => None
  end.
Fixpoint p_adts_ops (l : list sx) : option (list adts_op) :=
  match l with
  | [] => Some []
  | s :: t => match p_adts_op s, p_adts_ops t with
              | Some o, Some os => Some (o :: os)
              | _, _ => None
              end
  end.
Definition obs_out (o : adts_out) : sx :=
  match o with
  | OutSet a (Ok _) => SL (SZ 0 :: s_asc a)
  | OutSet a (Err e) => SL (SZ 1 :: s_asc a)
  | OutSet _ (Panic _) => s_panic
  | OutEnc (Ok f) => s_ok [SB f]
  | OutEnc (Err e) => s_err0
  | OutEnc (Panic _) => s_panic
  | OutDec a r => obs_dec (a, r)
  | OutAssign a => SL (SZ 0 :: s_asc a)
  end.

(* case 12: a long stream given compactly: frames (id pa profile sfi ch len fill) with generated
   payloads, [cut] bytes removed from the end, [extra] appended; per decoded frame only
   (|raw|, adler32 raw, config) is observed *)
Definition p_cframe (s : sx) : option (adts_hdr * bytes) :=
  match s with
  | SL [SZ id; SZ pa; SZ profile; SZ sfi; SZ ch; SZ len; SZ fill] =>
      Some (mk_hdr (Z.to_N id) 0 (Z.to_N pa) (Z.to_N profile) (Z.to_N sfi) 0 (Z.to_N ch) 0 0 0 0 2047 0 4660,
            gen_payload (Z.to_nat len) 0 (Z.to_N fill))
  | _ => None
  end.
Fixpoint p_cframes (l : list sx) : option (list (adts_hdr * bytes)) :=
  match l with
  | [] => Some []
  | s :: t => match p_cframe s, p_cframes t with
              | Some f, Some fs => Some (f :: fs)
              | _, _ => None
              end
  end.
Definition obs_frame_sum (f : bytes * asc) : sx := SL (sN (lenN (fst f)) :: sN (adler32 (fst f)) :: s_asc (snd f)).

(* blocks of case 10: the i-th block gets the crc_check value 0xC300 + i *)
Fixpoint p_blocks (l : list sx) (i : N) : option (list (bytes * N)) :=
  match l with
  | [] => Some []
  | SB b :: t => match p_blocks t (i + 1) with Some r => Some ((b, 49920 + i) :: r) | None => None end
  | _ :: _ => None
  end.

Definition run_c11 (c : sx) : sx :=
  match c with
  | SL [SZ 1; SZ o; SZ sr; SZ ch; SB raw] =>
      match adts_encode (mk_asc (Z.to_N o) (Z.to_N sr) (Z.to_N ch)) raw with
      | Ok adts => s_ok [SB adts; obs_dec (adts_decode asc0 adts)]
      | Err e => s_err0
      | Panic _ => s_panic
      end
  | SL [SZ 2; SB data] => obs_dec (adts_decode asc0 data)
  | SL [SZ 3; SB data] =>
      match adts_stream (S (length data)) asc0 data [] with
      | (fs, a, Ok _) => SL [SL (map obs_frame fs); SL [SZ 0]]
      | (fs, a, Err e) => SL [SL (map obs_frame fs); SL (SZ 1 :: s_asc a)]
      | (fs, a, Panic _) => SL [SL (map obs_frame fs); s_panic]
      end
  | SL [SZ 4; SB data] =>
      match asc_unmarshal asc0 data with
      | (a, Ok _) =>
          match asc_marshal a with
          | Ok b => SL (SZ 0 :: s_asc a ++ [SB b])
          | _ => bad_case
          end
      | (a, Err e) => SL (SZ 1 :: s_asc a)
      | (_, Panic _) => s_panic
      end
  | SL [SZ 5; SZ hi] => SL (sweep_lo (Z.to_N hi) 256 0)
  | SL [SZ 6; SZ o; SZ sr; SZ ch] =>
      match asc_marshal (mk_asc (Z.to_N o) (Z.to_N sr) (Z.to_N ch)) with
      | Ok b => s_ok [SB b]
      | Err e => s_err0
      | Panic _ => s_panic
      end
  | SL [SZ 7; SZ v] =>
      match to_hz (Z.to_N v), to_profile (Z.to_N v), to_object (Z.to_N v) with
      | Ok hz, Ok p, Ok o =>
          s_ok [sN hz; sN p; sN o; str_of (aac_ObjectType_String v); str_of (aac_Profile_String v);
                str_of (aac_SampleRateIndex_String v); str_of (aac_Channels_String v)]
      | _, _, _ => s_panic
      end
  | SL [SZ 8; SB cfg; SB raw] =>
      (* SetASC(cfg), Encode(raw), Decode(output) all on ONE ADTS object *)
      match asc_unmarshal asc0 cfg with
      | (_, Panic _) => s_panic
      | (a, r) =>
          let set := match r with Ok _ => SL (SZ 0 :: s_asc a) | Err e => SL (SZ 1 :: s_asc a) | Panic _ => s_panic end in
          match adts_encode a raw with
          | Ok adts => SL [set; s_ok [SB adts; obs_dec (adts_decode a adts)]]
          | Err e => SL [set; s_err0]
          | Panic _ => s_panic
          end
      end
  | SL [SZ 12; SL frames; SZ cut; SB extra] =>
      match p_cframes frames with
      | Some fs =>
          let whole := flat_map (fun f => spec_adts_frame (fst f) (snd f)) fs in
          let data := firstn (length whole - Z.to_nat cut) whole ++ extra in
          match adts_stream (S (length data)) asc0 data [] with
          | (out, a, Ok _) => SL [sN (lenN data); SL (map obs_frame_sum out); SL [SZ 0]]
          | (out, a, Err e) => SL [sN (lenN data); SL (map obs_frame_sum out); SL (SZ 1 :: s_asc a)]
          | (out, a, Panic _) => SL [sN (lenN data); SL (map obs_frame_sum out); s_panic]
          end
      | None => bad_case
      end
  | SL [SZ 11; SL ops] =>
      match p_adts_ops ops with
      | Some ops => SL (map obs_out (snd (adts_run asc0 ops)))
      | None => bad_case
      end
  | SL [SZ 10; SZ id; SZ pa; SZ profile; SZ sfi; SZ ch; SL blocks; SB tail] =>
      match p_blocks blocks 0 with
      | Some bl =>
          let h := mk_hdr (Z.to_N id) 0 (Z.to_N pa) (Z.to_N profile) (Z.to_N sfi) 0 (Z.to_N ch) 0 0 0 0 2047
                          (countN bl - 1) 42405 in
          let frame := spec_adts_frame_multi h bl in
          s_ok [SB frame; obs_dec (adts_decode asc0 (frame ++ tail))]
      | None => bad_case
      end
  | SL [SZ 9; SZ id; SZ layer; SZ pa; SZ profile; SZ sfi; SZ priv; SZ ch; SZ orig; SZ home;
        SZ cbit; SZ cstart; SZ fullness; SZ nblocks; SZ crc; SB raw; SB tail] =>
      let h := mk_hdr (Z.to_N id) (Z.to_N layer) (Z.to_N pa) (Z.to_N profile) (Z.to_N sfi) (Z.to_N priv)
                      (Z.to_N ch) (Z.to_N orig) (Z.to_N home) (Z.to_N cbit) (Z.to_N cstart)
                      (Z.to_N fullness) (Z.to_N nblocks) (Z.to_N crc) in
      let frame := spec_adts_frame h raw in
      s_ok [SB frame; obs_dec (adts_decode asc0 (frame ++ tail))]
  | _ => bad_case
  end.
