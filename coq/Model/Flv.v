(* Model of flv/flv.go (C09: muxer/demuxer, C10: audio/video packagers).  Definitions only.

   Transport: the io.Reader handed to NewDemuxer is a list of segments; [Data b] is what one
   or more Read calls deliver, [Fault e] a Read that fails with error [e]; the end of the list
   is io.EOF.  Every demuxer method reads through io.CopyN(&bytes.Buffer, r, n):
     n bytes available before the end / a fault  -> the n bytes, error nil (a fault or EOF
                                                    directly behind them is not seen);
     fewer, then end of stream                   -> io.EOF (also for a partial read);
     fewer, then a fault e                       -> e.
   Byte values are N (< 256 for everything the harness can supply: wf_bytes).
   Index and slice expressions of the Go code go through checked accessors that yield
   [Panic site]; "never panics" is therefore a theorem (Proofs/FlvTotal.v), not an artefact. *)
From Verif Require Import Lib.Base Lib.Sx.
From Verif Require Import Gen.Gen_flv.
Open Scope N_scope.

(* ---- error codes (observation (1 code)) ---- *)
Definition eEOF : N := 1.            (* io.EOF *)
Definition eSignature : N := 2.      (* errSignature *)
Definition eDataNotEnough : N := 3.  (* errDataNotEnough *)
Definition eFuel : N := 9.           (* model only: demux loop out of fuel *)
(* injected transport faults are numbered from 10 *)

(* linear list reversal (the standard library's [rev] is quadratic); [frev l = rev l] *)
Definition frev {A} (l : list A) : list A := rev_append l [].

(* ---- checked accessors ---- *)
Definition idx (site : N) (b : bytes) (i : nat) : res N :=
  match nth_error b i with Some x => Ok x | None => Panic site end.
Fixpoint drop (n : nat) (b : bytes) : option bytes :=
  match n with
  | O => Some b
  | S n' => match b with [] => None | _ :: t => drop n' t end
  end.
(* b[i:] *)
Definition slice_from (site : N) (b : bytes) (i : nat) : res bytes :=
  match drop i b with Some r => Ok r | None => Panic site end.
(* b[:i] *)
Definition slice_to (site : N) (b : bytes) (i : nat) : res bytes :=
  match take i b with Some (a, _) => Ok a | None => Panic site end.

(* ================================================================================= *)
(* C09: transport                                                                     *)
(* ================================================================================= *)
Inductive seg := Data (b : bytes) | Fault (e : N).
Definition stream := list seg.

(* io.CopyN(h, r, n) into a fresh buffer; [acc] holds the chunks read so far, reversed.
   Linear: a segment shorter than the demand is consumed whole (its length is computed once),
   [take] only ever walks the bytes it returns. *)
Fixpoint copy_n (n : N) (s : stream) (acc : list bytes) : res (bytes * stream) :=
  if n =? 0 then Ok (concat (frev acc), s) else
  match s with
  | [] => Err eEOF
  | Fault e :: _ => Err e
  | Data b :: s' =>
      let l := lenN b in
      if l <? n then copy_n (n - l) s' (b :: acc)
      else match takeN n b with
           | Some (a, r) => Ok (concat (frev (a :: acc)), Data r :: s')
           | None => Panic 99            (* unreachable: n <= lenN b *)
           end
  end.

(* the data a stream delivers before it ends, and how it ends (eEOF or the fault) *)
Fixpoint flat (s : stream) : bytes * N :=
  match s with
  | [] => ([], eEOF)
  | Fault e :: _ => ([], e)
  | Data b :: s' => let (d, t) := flat s' in (b ++ d, t)
  end.

(* ---- Demuxer ---- *)
Definition sigFLV : bytes := [70; 76; 86].        (* 'F' 'L' 'V' *)

(* every demuxer method: h := &bytes.Buffer{}; io.CopyN(h, v.r, n); p := h.Bytes(); parse p *)
Definition read_via {A} (n : N) (parse : bytes -> res A) (s : stream) : res (A * stream) :=
  let* (p, s') := copy_n n s [] in
  let* v := parse p in
  Ok (v, s').

(* ReadHeader: version, hasVideo, hasAudio *)
Definition parse_header (p : bytes) : res (N * bool * bool) :=
  let* sg := slice_to 1 p 3 in
  if negb (bytes_eqb sigFLV sg) then Err eSignature else
  let* ver := idx 2 p 3 in
  let* fl := idx 3 p 4 in
  Ok (ver, fl mod 2 =? 1, (fl / 4) mod 2 =? 1).
Definition read_header : stream -> res ((N * bool * bool) * stream) := read_via 13 parse_header.

(* ReadTagHeader: tagType, tagSize, timestamp *)
Definition parse_tag_header (p : bytes) : res (N * N * N) :=
  let* p0 := idx 4 p 0 in
  let* p1 := idx 5 p 1 in
  let* p2 := idx 6 p 2 in
  let* p3 := idx 7 p 3 in
  let* p4 := idx 8 p 4 in
  let* p5 := idx 9 p 5 in
  let* p6 := idx 10 p 6 in
  let* p7 := idx 11 p 7 in
  Ok (p0, ube3 p1 p2 p3, ube4 p7 p4 p5 p6).
Definition read_tag_header : stream -> res ((N * N * N) * stream) := read_via 11 parse_tag_header.

(* ReadTag(tagSize uint32): io.CopyN(h, r, int64(tagSize+4)) -- the addition is a uint32
   addition and wraps; then tag = p[0 : len(p)-4] *)
Definition strip_pts (p : bytes) : res bytes :=
  let l := lenN p in
  if l <? 4 then Panic 12 else
  match takeN (l - 4) p with
  | Some (a, _) => Ok a
  | None => Panic 13
  end.
Definition read_tag (n : N) : stream -> res (bytes * stream) := read_via (u32 (n + 4)) strip_pts.

Record tag := mk_tag { t_type : N; t_ts : N; t_body : bytes }.

(* the read loop of a user of the API (the package example): header, body, header, body ...
   until the first error; reports the tags read, which call failed (0 = ReadTagHeader,
   1 = ReadTag) and its error.  The package cannot tell a clean end from a truncated tag:
   io.CopyN reports io.EOF for both. *)
Fixpoint read_tags (fuel : nat) (s : stream) (acc : list tag) : res (list tag * (N * N)) :=
  match fuel with
  | O => Err eFuel
  | S f =>
      match read_tag_header s with
      | Err e => Ok (frev acc, (0, e))
      | Panic x => Panic x
      | Ok ((ty, sz, ts), s1) =>
          match read_tag sz s1 with
          | Err e => Ok (frev acc, (1, e))
          | Panic x => Panic x
          | Ok (b, s2) => read_tags f s2 (mk_tag ty ts b :: acc)
          end
      end
  end.

Definition demux (fuel : nat) (s : stream) : res ((N * bool * bool) * list tag * (N * N)) :=
  let* (h, s1) := read_header s in
  let* (tags, e) := read_tags fuel s1 [] in
  Ok (h, tags, e).

(* ---- Muxer: the Write calls it issues (io.Copy from a bytes.Reader is one Write per
   non-empty piece) ---- *)
Definition mux_flags (hv ha : bool) : N :=
  N.lor (if hv then 1 else 0) (if ha then 4 else 0).

Definition mux_header (hv ha : bool) : bytes :=
  sigFLV ++ [1; mux_flags hv ha; 0; 0; 0; 9; 0; 0; 0; 0].

(* the 11 bytes before and the 4 bytes after a tag body depend on the body only through its
   length (len(tag) as an int; uint32(len) for the size field, uint32(11+len) for the trailer) *)
Definition mux_tag_header_n (ty ts len : N) : bytes :=
  let size := u32 len in
  [u8 ty;
   u8 (size / 65536); u8 (size / 256); u8 size;
   u8 (ts / 65536); u8 (ts / 256); u8 ts;
   u8 (ts / 16777216);
   0; 0; 0].
Definition mux_tag_header (t : tag) : bytes := mux_tag_header_n (t_type t) (t_ts t) (lenN (t_body t)).

Definition mux_tag_trailer_n (len : N) : bytes := be4 (u32 (11 + len)).
Definition mux_tag_trailer (t : tag) : bytes := mux_tag_trailer_n (lenN (t_body t)).

Definition mux_tag_writes (t : tag) : list bytes :=
  mux_tag_header t :: (match t_body t with [] => [] | _ => [t_body t] end) ++ [mux_tag_trailer t].

Definition mux_writes (hv ha : bool) (tags : list tag) : list bytes :=
  mux_header hv ha :: concat (map mux_tag_writes tags).

Definition mux (hv ha : bool) (tags : list tag) : bytes := concat (mux_writes hv ha tags).

(* ---- independent writer of the FLV version 1 layout (video_file_format_spec_v10, Annex E) *)
Definition spec_header (hv ha : bool) : bytes :=
  [70; 76; 86]                                  (* Signature "FLV" *)
  ++ [1]                                        (* Version 1 *)
  ++ [(if ha then 4 else 0) + (if hv then 1 else 0)]   (* TypeFlagsAudio bit 2, TypeFlagsVideo bit 0 *)
  ++ be4 9                                      (* DataOffset *)
  ++ be4 0.                                     (* PreviousTagSize0 *)

Definition spec_tag (t : tag) : bytes :=
  let n := lenN (t_body t) in
  [t_type t]                                    (* TagType *)
  ++ be3 n                                      (* DataSize, 24 bit *)
  ++ be3 (t_ts t mod 16777216)                  (* Timestamp, lower 24 bit *)
  ++ [t_ts t / 16777216]                        (* TimestampExtended, upper 8 bit *)
  ++ be3 0                                      (* StreamID *)
  ++ t_body t
  ++ be4 (11 + n).                              (* PreviousTagSize *)

Definition flv_v1_spec (hv ha : bool) (tags : list tag) : bytes :=
  spec_header hv ha ++ concat (map spec_tag tags).

(* ================================================================================= *)
(* C10: packagers                                                                     *)
(* ================================================================================= *)
Definition cN (z : Z) : N := Z.to_N z.
Definition aAAC := cN flv_AudioCodecAAC.
Definition aOpus := cN flv_AudioCodecOpus.
Definition tSR := cN flv_AudioFrameTraitOpusSamplingRate.
Definition tAL := cN flv_AudioFrameTraitOpusAudioLevel.
Definition vAVC := cN flv_VideoCodecAVC.
Definition vHEVC := cN flv_VideoCodecHEVC.

Definition has_flag (v f : N) : bool := N.land v f =? f.       (* (v & f) == f *)

(* all fields are Go uint8 (AudioLevel uint16): callers supply values below 256 / 65536 *)
Record aframe := mk_aframe {
  a_fmt : N; a_rate : N; a_size : N; a_type : N; a_trait : N; a_level : N; a_raw : bytes }.

(* byte(SoundFormat)<<4 | byte(SoundRate&0x03)<<2 | byte(SoundSize)<<1 | byte(SoundType);
   shifts of a byte wrap at 8 bits; the fields may overlap, hence a genuine bit-or.
   For Opus the rate field is cleared (&= 0xf3). *)
Definition audio_first (f : aframe) : N :=
  let b := N.lor (N.lor (N.lor (u8 (a_fmt f * 16)) (u8 (N.land (a_rate f) 3 * 4)))
                        (u8 (a_size f * 2))) (a_type f) in
  if a_fmt f =? aOpus then N.land b 243 else b.

Definition audio_enc (f : aframe) : bytes :=
  let h := audio_first f in
  if a_fmt f =? aAAC then h :: a_trait f :: a_raw f
  else if a_fmt f =? aOpus then
    h :: a_trait f
      :: (if has_flag (a_trait f) tSR then [a_rate f] else [])
      ++ (if has_flag (a_trait f) tAL then [u8 (a_level f / 256); u8 (a_level f)] else [])
      ++ a_raw f
  else h :: a_raw f.

Definition audio_dec (tg : bytes) : res aframe :=
  if lenN tg <? 2 then Err eDataNotEnough else
  let* t := idx 20 tg 0 in
  let fmt := (t / 16) mod 16 in
  let rate := (t / 4) mod 4 in
  let size := (t / 2) mod 2 in
  let typ := t mod 2 in
  if fmt =? aAAC then
    let* tr := idx 21 tg 1 in
    let* raw := slice_from 22 tg 2 in
    Ok (mk_aframe fmt rate size typ tr 0 raw)
  else if fmt =? aOpus then
    let* tr := idx 23 tg 1 in
    let* p := slice_from 24 tg 2 in
    let* (rate', p1) :=
      (if has_flag tr tSR then
         if lenN p <? 1 then Err eDataNotEnough else
         let* r := idx 25 p 0 in
         let* q := slice_from 26 p 1 in Ok (r, q)
       else Ok (rate, p)) in
    let* (level, p2) :=
      (if has_flag tr tAL then
         if lenN p1 <? 2 then Err eDataNotEnough else
         let* l0 := idx 27 p1 0 in
         let* l1 := idx 28 p1 1 in
         let* q := slice_from 29 p1 2 in Ok (ube2 l0 l1, q)
       else Ok (0, p1)) in
    Ok (mk_aframe fmt rate' size typ tr level p2)
  else
    let* raw := slice_from 30 tg 1 in
    Ok (mk_aframe fmt rate size typ 0 0 raw).

(* CodecID, FrameType, Trait: uint8; CTS: int32 *)
Record vframe := mk_vframe { v_codec : N; v_ftype : N; v_trait : N; v_cts : Z; v_raw : bytes }.

Definition is_avc_hevc (c : N) : bool := (c =? vAVC) || (c =? vHEVC).

(* byte(FrameType)<<4 | byte(CodecID) *)
Definition video_first (f : vframe) : N := N.lor (u8 (v_ftype f * 16)) (v_codec f).

(* byte(int32 >> k): arithmetic shift = floor division; byte() keeps the low 8 bits *)
Definition zbyte (z : Z) : N := Z.to_N (z mod 256)%Z.

Definition video_enc (f : vframe) : bytes :=
  if is_avc_hevc (v_codec f) then
    video_first f :: v_trait f
      :: zbyte (v_cts f / 65536)%Z :: zbyte (v_cts f / 256)%Z :: zbyte (v_cts f) :: v_raw f
  else video_first f :: v_raw f.

Definition video_dec (tg : bytes) : res vframe :=
  if lenN tg <? 5 then Err eDataNotEnough else
  let* p0 := idx 40 tg 0 in
  let ft := (p0 / 16) mod 16 in
  let codec := p0 mod 16 in
  if is_avc_hevc codec then
    let* p1 := idx 41 tg 1 in
    let* p2 := idx 42 tg 2 in
    let* p3 := idx 43 tg 3 in
    let* p4 := idx 44 tg 4 in
    let* raw := slice_from 45 tg 5 in
    Ok (mk_vframe codec ft p1 (zi32 (Z.of_N (u32 (ube3 p2 p3 p4)))) raw)
  else
    let* raw := slice_from 46 tg 1 in
    Ok (mk_vframe codec ft 0 0%Z raw).

(* ---- rate tables and enum setters: the translator-generated bodies (None = panic) ---- *)
Definition to_hz (v : N) : option Z := flv_AudioSamplingRate_ToHz (Z.of_N v).
Definition opus_to_hz (v : N) : option Z := flv_AudioSamplingRate_OpusToHz (Z.of_N v).
Definition rate_from (v : N) : option Z := flv_AudioSamplingRate_From (Z.of_N v).
Definition rate_opus_from (v : N) : option Z := flv_AudioSamplingRate_OpusFrom (Z.of_N v).
Definition channels_from (v : N) : option Z := flv_AudioChannels_From (Z.of_N v).

(* ================================================================================= *)
(* harness interface                                                                  *)
(* ================================================================================= *)
Definition sx_N (x : sx) : option N := match x with SZ z => Some (Z.to_N z) | _ => None end.

Fixpoint sx_Ns (l : list sx) : option (list N) :=
  match l with
  | [] => Some []
  | SZ z :: t => match sx_Ns t with Some r => Some (Z.to_N z :: r) | None => None end
  | _ => None
  end.

(* large bodies are written in cases as (n seed): n bytes, byte i = (seed + 7 i + i/256) mod 256;
   built from the last byte backwards (tail recursive: the extracted code must not recurse
   deeply while allocating) *)
Fixpoint pattern_acc (n : nat) (i seed : N) (acc : bytes) : bytes :=
  match n with
  | O => acc
  | S n' => let j := i - 1 in pattern_acc n' j seed (((seed + 7 * j + j / 256) mod 256) :: acc)
  end.
Definition pattern (n : nat) (seed : N) : bytes := pattern_acc n (N.of_nat n) seed [].

Definition sx_tag (x : sx) : option tag :=
  match x with
  | SL [SZ ty; SZ ts; SB b] => Some (mk_tag (Z.to_N ty) (Z.to_N ts) b)
  | SL [SZ ty; SZ ts; SL [SZ n; SZ seed; SB _]] =>   (* third element: ignored filler *)
      Some (mk_tag (Z.to_N ty) (Z.to_N ts) (pattern (Z.to_nat n) (Z.to_N seed)))
  | _ => None
  end.
Fixpoint sx_tags (l : list sx) : option (list tag) :=
  match l with
  | [] => Some []
  | x :: t => match sx_tag x, sx_tags t with Some a, Some r => Some (a :: r) | _, _ => None end
  end.

(* cut [b] into Data segments whose sizes cycle through [sizes] (a size below 1 counts as 1;
   no sizes = one segment); structural on [b] *)
Definition next_size (rest all : list N) : N * list N :=
  match rest with
  | k :: r => (k, r)
  | [] => match all with k :: r => (k, r) | [] => (0, []) end
  end.

Fixpoint split_go (b : bytes) (k : N) (rest all : list N) (cur : bytes) (acc : stream) : stream :=
  match b with
  | [] => frev (match cur with [] => acc | _ => Data (frev cur) :: acc end)
  | x :: t =>
      if k <=? 1 then
        let (k', rest') := next_size rest all in
        split_go t k' rest' all [] (Data (frev (x :: cur)) :: acc)
      else split_go t (k - 1) rest all (x :: cur) acc
  end.

Definition split_segs (sizes : list N) (b : bytes) : stream :=
  match sizes with
  | [] => match b with [] => [] | _ => [Data b] end
  | _ => let (k, rest) := next_size sizes sizes in split_go b k rest sizes [] []
  end.

(* the reader handed to the demuxer: [wire] cut off after [cut] bytes when cut >= 0, delivered
   in segments, ending with fault 10+fault when fault >= 0 and with EOF otherwise *)
Definition mk_stream (wire : bytes) (sizes : list N) (cut fault : Z) : stream :=
  let w := if (cut <? 0)%Z then wire
           else match take (Z.to_nat cut) wire with Some (a, _) => a | None => wire end in
  split_segs sizes w ++ (if (fault <? 0)%Z then [] else [Fault (10 + Z.to_N fault)]).

Definition s_tag (t : tag) : sx := SL [sN (t_type t); sN (t_ts t); SB (t_body t)].

Definition obs_demux (r : res ((N * bool * bool) * list tag * (N * N))) : sx :=
  match r with
  | Ok ((ver, hv, ha), tags, (w, e)) =>
      s_ok [SL [sN ver; sbool hv; sbool ha]; SL (map s_tag tags); sN w; sN e]
  | Err e => s_err e
  | Panic _ => s_panic
  end.

(* explicit call sequences, stopping at the first error/panic:
   (0) ReadHeader  (1) ReadTagHeader  (2 n) ReadTag(n)
   (4) ReadTagHeader followed by ReadTag(the size it returned) *)
Fixpoint run_ops (ops : list sx) (s : stream) : list sx :=
  match ops with
  | [] => []
  | SL [SZ 0%Z] :: rest =>
      match read_header s with
      | Ok ((ver, hv, ha), s') => s_ok [sN ver; sbool hv; sbool ha] :: run_ops rest s'
      | Err e => [s_err e]
      | Panic _ => [s_panic]
      end
  | SL [SZ 1%Z] :: rest =>
      match read_tag_header s with
      | Ok ((ty, sz, ts), s') => s_ok [sN ty; sN sz; sN ts] :: run_ops rest s'
      | Err e => [s_err e]
      | Panic _ => [s_panic]
      end
  | SL [SZ 2%Z; SZ n] :: rest =>
      match read_tag (Z.to_N n) s with
      | Ok (b, s') => s_ok [SB b] :: run_ops rest s'
      | Err e => [s_err e]
      | Panic _ => [s_panic]
      end
  | SL [SZ 4%Z] :: rest =>
      match read_tag_header s with
      | Ok ((ty, sz, ts), s1) =>
          match read_tag sz s1 with
          | Ok (b, s') => s_ok [sN ty; sN sz; sN ts; SB b] :: run_ops rest s'
          | Err e => [SL [SZ 1; sN e; SZ 1]]
          | Panic _ => [s_panic]
          end
      | Err e => [SL [SZ 1; sN e; SZ 0]]
      | Panic _ => [s_panic]
      end
  | _ => [bad_case]
  end.

Definition zbool (z : Z) : bool := negb (z =? 0)%Z.

(* ---- histories on one object ----
   Muxer as a state machine: the state is the list of Write calls issued so far (the muxer
   struct itself holds only the writer).  Values are persistent in the model: nothing a later
   call does can change what an earlier call wrote or returned -- if the implementation aliased
   caller buffers or reused result buffers, the end-of-history observation would differ. *)
Definition mstate := list bytes.
Definition write_header (st : mstate) (hv ha : bool) : mstate := st ++ [mux_header hv ha].
Definition write_tag (st : mstate) (t : tag) : mstate := st ++ mux_tag_writes t.

(* the harness flips (b -> 255 - b, Go ^b) the bytes of a buffer it owns *)
Definition flip (b : bytes) : bytes := map (fun x => 255 - x) b.

(* flip the bodies of the tags whose (cyclic) flag is non-zero *)
Fixpoint flip_tags (tags : list tag) (rest all : list N) : list tag :=
  match tags with
  | [] => []
  | t :: ts =>
      let (f, rest') := next_size rest all in
      (if f =? 0 then t else mk_tag (t_type t) (t_ts t) (flip (t_body t))) :: flip_tags ts rest' all
  end.

(* write operation of a history: (type ts body mut); mut only drives the harness *)
Definition sx_wop (x : sx) : option tag :=
  match x with
  | SL [ty; ts; b; SZ _] => sx_tag (SL [ty; ts; b])
  | SL [ty; ts; b; SZ _; SZ _] => sx_tag (SL [ty; ts; b])   (* (type ts body gap capmode) *)
  | _ => None
  end.
Fixpoint sx_wops (l : list sx) : option (list tag) :=
  match l with
  | [] => Some []
  | x :: t => match sx_wop x, sx_wops t with Some a, Some r => Some (a :: r) | _, _ => None end
  end.

Definition run_c09 (c : sx) : sx :=
  match c with
  | SL [SZ k; SZ hv; SZ ha; SL tgs; SL szs; SZ cut; SZ fault] =>
      match sx_tags tgs, sx_Ns szs with
      | Some tags, Some sizes =>
          let wire := if (k =? 1)%Z then mux (zbool hv) (zbool ha) tags
                      else flv_v1_spec (zbool hv) (zbool ha) tags in
          let writes := if (k =? 1)%Z then map (fun w => sN (lenN w)) (mux_writes (zbool hv) (zbool ha) tags)
                        else [] in
          if ((k =? 1) || (k =? 2))%Z then
            SL [SB wire; SL writes;
                obs_demux (demux (S (length tags)) (mk_stream wire sizes cut fault))]
          else bad_case
      | _, _ => bad_case
      end
  | SL [SZ 5%Z; SZ hv; SZ ha; SZ ty; SZ ts; SZ n; SZ _; SZ _] =>
      (* one tag with an n-byte pattern body (n up to 2^24-1), observed through the bytes
         around the body only: file header, tag header, PreviousTagSize, total length, Write
         sizes.  The body bytes and the read-back are judged by the harness's direct oracles. *)
      let len := Z.to_N n in
      SL [SB (mux_header (zbool hv) (zbool ha));
          SB (mux_tag_header_n (Z.to_N ty) (Z.to_N ts) len);
          SB (mux_tag_trailer_n len);
          sN (13 + 11 + len + 4);
          SL ([sN 13; sN 11] ++ (if len =? 0 then [] else [sN len]) ++ [sN 4])]
  | SL [SZ 6%Z; SZ hv; SZ ha; SL wops; SL szs; SL fls] =>
      (* history on one Muxer and one Demuxer: WriteHeader, one WriteTag per wop from a caller
         buffer that is reused (and possibly scribbled over) after every call; then the file is
         read tag by tag, every returned body is kept, the flagged ones are flipped in place by
         the caller right after the read; everything is observed at the end only *)
      match sx_wops wops, sx_Ns szs, sx_Ns fls with
      | Some tags, Some sizes, Some flags =>
          let wire := mux (zbool hv) (zbool ha) tags in
          let writes := map (fun w => sN (lenN w)) (mux_writes (zbool hv) (zbool ha) tags) in
          let r := match demux (S (length tags)) (mk_stream wire sizes (-1) (-1)) with
                   | Ok (h, tgs, e) => Ok (h, flip_tags tgs flags flags, e)
                   | x => x
                   end in
          SL [SB wire; SL writes; obs_demux r]
      | _, _, _ => bad_case
      end
  | SL [SZ 7%Z; SZ hv; SZ ha; SL wops; SL szs] =>
      (* history with zero-copy bodies: every body is a sub-slice (with spare capacity) of one
         caller buffer holding all bodies back to back; the muxer only reads caller memory, so
         the file is the one of the original frames -- in the model values are persistent *)
      match sx_wops wops, sx_Ns szs with
      | Some tags, Some sizes =>
          let wire := mux (zbool hv) (zbool ha) tags in
          SL [SB wire; SL (map (fun w => sN (lenN w)) (mux_writes (zbool hv) (zbool ha) tags));
              obs_demux (demux (S (length tags)) (mk_stream wire sizes (-1) (-1)))]
      | _, _ => bad_case
      end
  | SL [SZ 3%Z; SB wire; SL szs; SZ cut; SZ fault; SL ops] =>
      match sx_Ns szs with
      | Some sizes => SL (run_ops ops (mk_stream wire sizes cut fault))
      | None => bad_case
      end
  | _ => bad_case
  end.

(* ---- C10 ---- *)
Definition s_aframe (f : aframe) : sx :=
  SL [sN (a_fmt f); sN (a_rate f); sN (a_size f); sN (a_type f); sN (a_trait f); sN (a_level f); SB (a_raw f)].
Definition s_vframe (f : vframe) : sx :=
  SL [sN (v_codec f); sN (v_ftype f); sN (v_trait f); SZ (v_cts f); SB (v_raw f)].

Definition obs_adec (r : res aframe) : sx :=
  match r with Ok f => s_ok [s_aframe f] | Err e => s_err e | Panic _ => s_panic end.
Definition obs_vdec (r : res vframe) : sx :=
  match r with Ok f => s_ok [s_vframe f] | Err e => s_err e | Panic _ => s_panic end.
Definition obs_opt (o : option Z) : sx :=
  match o with Some z => s_ok [SZ z] | None => s_panic end.

(* (1 fmt rate size type trait level raw)  audio frame : (enc  dec(enc))
   (2 codec ftype trait cts raw)           video frame : (enc  dec(enc))
   (3 body)  audio body : (dec body  enc(dec body) | x)
   (4 body)  video body : likewise
   (5 v)     ToHz, OpusToHz, From, OpusFrom, AudioChannels.From of code v
   (6 op...) history on one packager pair, op = (1 frame.. mut) | (2 frame.. mut) | (3 body mut)
             | (4 body mut); results observed at the end *)
(* ---- histories on one packager pair ----
   audioPackager and videoPackager are empty structs: the state is unit, every result is a
   persistent value and a function of its own call only. *)
Definition pstate := unit.
Inductive pop :=
| AEnc (f : aframe) | VEnc (f : vframe)
| ADec (b : bytes) (mut : bool) | VDec (b : bytes) (mut : bool).
Inductive pres :=
| REnc (b : bytes)
| RADec (r : res aframe) (tag_prefix : bytes)
| RVDec (r : res vframe) (tag_prefix : bytes).

(* Decode returns Raw as the tail of the tag it was given (a_raw / v_raw is a suffix of the
   input).  A caller that flips the decoded Raw in place may, through that sharing, change the
   tail of its tag buffer -- never the bytes before it: [tag_prefix] is what is observed. *)
Definition prefix_before (tg raw : bytes) : bytes :=
  match take (N.to_nat (lenN tg - lenN raw)) tg with Some (a, _) => a | None => tg end.

Definition pstep (st : pstate) (o : pop) : pstate * pres :=
  (st, match o with
       | AEnc f => REnc (audio_enc f)
       | VEnc f => REnc (video_enc f)
       | ADec b mut =>
           match audio_dec b with
           | Ok f => RADec (Ok (if mut then mk_aframe (a_fmt f) (a_rate f) (a_size f) (a_type f) (a_trait f)
                                                    (a_level f) (flip (a_raw f)) else f))
                           (prefix_before b (a_raw f))
           | r => RADec r b
           end
       | VDec b mut =>
           match video_dec b with
           | Ok f => RVDec (Ok (if mut then mk_vframe (v_codec f) (v_ftype f) (v_trait f) (v_cts f)
                                                    (flip (v_raw f)) else f))
                           (prefix_before b (v_raw f))
           | r => RVDec r b
           end
       end).

Fixpoint prun (st : pstate) (ops : list pop) : list pres :=
  match ops with
  | [] => []
  | o :: rest => let (st', r) := pstep st o in r :: prun st' rest
  end.

Definition sx_pop (x : sx) : option pop :=
  match x with
  | SL [SZ 1%Z; SZ fm; SZ rt; SZ sz; SZ ty; SZ tr; SZ lv; SB raw; SZ _] =>
      Some (AEnc (mk_aframe (Z.to_N fm) (Z.to_N rt) (Z.to_N sz) (Z.to_N ty) (Z.to_N tr) (Z.to_N lv) raw))
  | SL [SZ 2%Z; SZ cd; SZ ft; SZ tr; SZ cts; SB raw; SZ _] =>
      Some (VEnc (mk_vframe (Z.to_N cd) (Z.to_N ft) (Z.to_N tr) cts raw))
  | SL [SZ 3%Z; SB body; SZ m] => Some (ADec body (zbool m))
  | SL [SZ 4%Z; SB body; SZ m] => Some (VDec body (zbool m))
  | _ => None
  end.
Fixpoint sx_pops (l : list sx) : option (list pop) :=
  match l with
  | [] => Some []
  | x :: t => match sx_pop x, sx_pops t with Some a, Some r => Some (a :: r) | _, _ => None end
  end.

(* end-of-history observation of one result; an encoded tag is also decoded at the end.
   The first element tells which decoder applies to a kept tag (1 audio, 2 video). *)
Definition obs_pres (o : pop) (r : pres) : sx :=
  match r with
  | REnc e => SL [SB e; match o with VEnc _ => obs_vdec (video_dec e) | _ => obs_adec (audio_dec e) end]
  | RADec d p => SL [obs_adec d; SB p]
  | RVDec d p => SL [obs_vdec d; SB p]
  end.

Definition run_c10 (c : sx) : sx :=
  match c with
  | SL [SZ 1%Z; SZ fm; SZ rt; SZ sz; SZ ty; SZ tr; SZ lv; SB raw] =>
      let f := mk_aframe (Z.to_N fm) (Z.to_N rt) (Z.to_N sz) (Z.to_N ty) (Z.to_N tr) (Z.to_N lv) raw in
      let e := audio_enc f in SL [SB e; obs_adec (audio_dec e)]
  | SL [SZ 2%Z; SZ cd; SZ ft; SZ tr; SZ cts; SB raw] =>
      let f := mk_vframe (Z.to_N cd) (Z.to_N ft) (Z.to_N tr) cts raw in
      let e := video_enc f in SL [SB e; obs_vdec (video_dec e)]
  | SL [SZ 3%Z; SB body] =>
      let r := audio_dec body in
      SL [obs_adec r; match r with Ok f => SB (audio_enc f) | _ => SB [] end]
  | SL [SZ 4%Z; SB body] =>
      let r := video_dec body in
      SL [obs_vdec r; match r with Ok f => SB (video_enc f) | _ => SB [] end]
  | SL (SZ 6%Z :: ops) =>
      (* history: all calls on one AudioPackager and one VideoPackager, results kept and
         observed after the last call *)
      match sx_pops ops with
      | Some pops => SL (map (fun '(o, r) => obs_pres o r) (combine pops (prun tt pops)))
      | None => bad_case
      end
  | SL [SZ 5%Z; SZ v] =>
      let n := Z.to_N v in
      SL [obs_opt (to_hz n); obs_opt (opus_to_hz n); obs_opt (rate_from n); obs_opt (rate_opus_from n);
          obs_opt (channels_from n)]
  | _ => bad_case
  end.
