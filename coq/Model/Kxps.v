(* Model of kxps/kxps.go, kbps.go, krps.go (C20).  Definitions only.
   Time is nanoseconds (Z); the counter is a uint64 (Z reduced mod 2^64 where Go wraps).
   A rate is reported as the integer pair (diff, interval_ms): the code computes
   float64(diff)*1000/float64(interval_ms); diff = 0 encodes the rate 0. *)
From Verif Require Import Lib.Base Lib.Sx.
From Verif Require Import Gen.Gen_kxps.
Open Scope Z_scope.

Definition ms_ns : Z := 1000000.

Record sample := { rdiff : Z; cnt : Z; last : Z; ival : Z (* ns *) }.
Definition mk_s d c l i := {| rdiff := d; cnt := c; last := l; ival := i |}.

Record kx := {
  r10 : sample; r30 : sample; r300 : sample;
  avg : Z; create : Z;
  started : bool; closed : bool }.

Definition set_samples (k : kx) a b c :=
  {| r10 := a; r30 := b; r300 := c; avg := avg k; create := create k; started := started k; closed := closed k |}.

(* newKxps: the three window lengths come from the generated constants *)
Definition k0 : kx :=
  {| r10 := mk_s 0 0 0 kxps_newKxps__v_r10s_interval;
     r30 := mk_s 0 0 0 kxps_newKxps__v_r30s_interval;
     r300 := mk_s 0 0 0 kxps_newKxps__v_r300s_interval;
     avg := 0; create := 0; started := false; closed := false |}.

(* sample.initialize *)
Definition init_s (now nb : Z) (s : sample) : sample := mk_s (rdiff s) nb now (ival s).

(* sample.sample(now, nb): false when the window has not elapsed.
   diff := int64(nb - count) with uint64 subtraction; rps := 0 if diff <= 0 *)
Definition step_s (now nb : Z) (s : sample) : sample * bool :=
  if now <? last s + ival s then (s, false)
  else let diff := zi64 (zu64 (nb - cnt s)) in
       (mk_s (if diff <=? 0 then 0 else diff) nb now (ival s), true).

(* kxps.doSample *)
Definition do_sample (now nb : Z) (k : kx) : kx :=
  if nb =? 0 then k
  else if cnt (r10 k) =? 0 then
    set_samples k (init_s now nb (r10 k)) (init_s now nb (r30 k)) (init_s now nb (r300 k))
  else let (a, fa) := step_s now nb (r10 k) in
       if negb fa then set_samples k a (r30 k) (r300 k) else
       let (b, fb) := step_s now nb (r30 k) in
       if negb fb then set_samples k a b (r300 k) else
       let (c, _) := step_s now nb (r300 k) in
       set_samples k a b c.

(* kxps.sampleAverage: returns the new state and (diff, duration_ms); (0,0) encodes 0 *)
Definition sample_average (now nb : Z) (k : kx) : kx * (Z * Z) :=
  if nb =? 0 then (k, (0, 0))
  else if avg k =? 0 then
    ({| r10 := r10 k; r30 := r30 k; r300 := r300 k; avg := nb; create := now;
        started := started k; closed := closed k |}, (0, 0))
  else let diff := zi64 (zu64 (nb - avg k)) in
       if diff <=? 0 then (k, (0, 0))
       else let dur := Z.quot (now - create k) ms_ns in
            if dur <=? 0 then (k, (0, 0)) else (k, (diff, dur)).

Definition set_started (k : kx) (b : bool) (c : bool) : kx :=
  {| r10 := r10 k; r30 := r30 k; r300 := r300 k; avg := avg k; create := create k; started := b; closed := c |}.

Definition ival_ms (s : sample) : Z := Z.quot (ival s) ms_ns.

(* reading a rate through Kbps/Krps: refused (Go: panic "should start ... first") unless started *)
Definition read_rate (w : Z) (k : kx) : option (Z * Z) :=
  if negb (started k) then None
  else Some (if w =? 10 then (rdiff (r10 k), ival_ms (r10 k))
             else if w =? 30 then (rdiff (r30 k), ival_ms (r30 k))
             else (rdiff (r300 k), ival_ms (r300 k))).

Definition run_hist (h : list (Z * Z)) (k : kx) : kx :=
  fold_left (fun k tc => do_sample (fst tc) (snd tc) k) h k.

(* ---- harness interface: a case is a list of operations, the observation one entry per op ----
   (0 kind) choose wrapper (0 kbps, 1 krps)   -> (0)
   (1 t c)  doSample(now = t, count = c)     -> (1 d10 i10 d30 i30 d300 i300)
   (2 t c)  sampleAverage(now = t, count c)  -> (2 diff dur)
   (3)      mark started                      -> (3)
   (4 w)    read rate of window w via wrapper -> (4 0) refused | (4 1 diff ival_ms)
   (5)      Close                             -> (5)
   (6 t c)  wrapper.Average at now=t          -> (6 0) refused | (6 1 diff dur)               *)
Definition obs_rates (k : kx) : list sx :=
  [SZ (rdiff (r10 k)); SZ (ival_ms (r10 k)); SZ (rdiff (r30 k)); SZ (ival_ms (r30 k));
   SZ (rdiff (r300 k)); SZ (ival_ms (r300 k))].

Definition step_op (k : kx) (op : sx) : kx * sx :=
  match op with
  | SL [SZ 0; SZ _] => (k, SL [SZ 0])    (* wrapper kind (kbps/krps): scaling is applied by the judge *)
  | SL [SZ 1; SZ t; SZ c] => let k' := do_sample t c k in (k', SL (SZ 1 :: obs_rates k'))
  | SL [SZ 2; SZ t; SZ c] => let '(k', (d, u)) := sample_average t c k in (k', SL [SZ 2; SZ d; SZ u])
  | SL [SZ 3] => (set_started k true (closed k), SL [SZ 3])
  | SL [SZ 4; SZ w] =>
      (k, match read_rate w k with None => SL [SZ 4; SZ 0] | Some (d, i) => SL [SZ 4; SZ 1; SZ d; SZ i] end)
  | SL [SZ 5] => (set_started k false true, SL [SZ 5])
  | SL [SZ 6; SZ t; SZ c] =>
      if negb (started k) then (k, SL [SZ 6; SZ 0])
      else let '(k', (d, u)) := sample_average t c k in (k', SL [SZ 6; SZ 1; SZ d; SZ u])
  | _ => (k, bad_case)
  end.

Fixpoint run_ops (k : kx) (ops : list sx) : list sx :=
  match ops with
  | [] => []
  | op :: rest => let (k', o) := step_op k op in o :: run_ops k' rest
  end.

Definition run_c20 (c : sx) : sx :=
  match c with SL ops => SL (run_ops k0 ops) | _ => bad_case end.
