(* Model of /repo/amf0/amf0.go (C05, C06; imported by the RTMP packet model, C03).
   Definitions only; proofs are in Proofs/Amf0*.v.

   INTERFACE (stable; do not rename)
     amf                      value trees: ANum bits | ABool b | AStr s | AObj props | ANull | AUndef
                              | AEcma count props | AStrict props      (props : list (bytes * amf),
                              keys in wire order; ANum carries the IEEE-754 bit pattern as N)
     enc : amf -> bytes       MarshalBinary      (enc_fast: the same in linear time, enc_fast_eq)
     size : amf -> N          Size()
     dec : nat -> bytes -> res (amf * N)
                              Discovery(p) followed by UnmarshalBinary(p) on the discovered value;
                              the N is Size() of the decoded value (memoised).  First argument is
                              fuel: [dec_fuel p] = length p + 1 always suffices (amf0_dec_fuel).
     decode : bytes -> res (amf * N)      := dec (dec_fuel p) p
     decode_fast                          the same function computed in linear time (decf_eq)
     um_number um_bool um_string um_null um_undef um_object um_ecma um_strict
                              the typed UnmarshalBinary methods (marker checked by the method itself)
     um_into old fuel p       the typed UnmarshalBinary on a receiver that already holds old
     set_prop                 objectBase.Set (replace-if-present, else append)
     gval, g_view, g_marshal, hop, h_step, h_run   histories of API calls on one object graph
                              with the separately stored `count` fields (C05 histories)
     get_prop                 objectBase.Get
     wf_amf / wf_amfb         the value can be represented: bit patterns < 2^64, strings and keys
                              <= 65535 bytes of bytes < 256, ECMA count < 2^32, strict length < 2^32
     spec_enc spec_dec        independent codec written from amf0_spec_121207 section 2 (C06)
     Error codes: E_SHORT 1 ("require N bytes only M"), E_UNSUP 2 ("Marker m is not supported"),
       E_INVALID 3 ("Marker m is invalid"), E_ILLEGAL 4 ("... marker m is illegal"), E_FUEL 9.
     Panic sites: 1 = p[a.Size():] in pushOne out of range (never happens: amf0_dec_total).

   The model follows the tree AFTER the three fix commits of this round (container decoder appends
   every decoded pair; StrictArray marshals len(properties) as count; container UnmarshalBinary
   resets the receiver's properties).  Go [int] is taken to be 64
   bits (int(v.count) <= 0 only for count = 0). *)
From Verif Require Import Lib.Base Lib.Sx.
From Verif Require Import Gen.Gen_amf0.
Open Scope N_scope.

(* ---- markers, from the regenerated constant table ---- *)
Definition mNumber : N := Z.to_N amf0_markerNumber.
Definition mBoolean : N := Z.to_N amf0_markerBoolean.
Definition mString : N := Z.to_N amf0_markerString.
Definition mObject : N := Z.to_N amf0_markerObject.
Definition mMovieClip : N := Z.to_N amf0_markerMovieClip.
Definition mNull : N := Z.to_N amf0_markerNull.
Definition mUndefined : N := Z.to_N amf0_markerUndefined.
Definition mReference : N := Z.to_N amf0_markerReference.
Definition mEcmaArray : N := Z.to_N amf0_markerEcmaArray.
Definition mObjectEnd : N := Z.to_N amf0_markerObjectEnd.
Definition mStrictArray : N := Z.to_N amf0_markerStrictArray.
Definition mDate : N := Z.to_N amf0_markerDate.
Definition mLongString : N := Z.to_N amf0_markerLongString.
Definition mUnsupported : N := Z.to_N amf0_markerUnsupported.
Definition mRecordSet : N := Z.to_N amf0_markerRecordSet.
Definition mXmlDocument : N := Z.to_N amf0_markerXmlDocument.
Definition mTypedObject : N := Z.to_N amf0_markerTypedObject.
Definition mAvmPlusObject : N := Z.to_N amf0_markerAvmPlusObject.
Definition mForbidden : N := Z.to_N amf0_markerForbidden.

Definition E_SHORT : N := 1.
Definition E_UNSUP : N := 2.
Definition E_INVALID : N := 3.
Definition E_ILLEGAL : N := 4.
Definition E_FUEL : N := 9.

(* ---- values ---- *)
Inductive amf : Type :=
| ANum (bits : N)
| ABool (b : bool)
| AStr (s : bytes)
| AObj (ps : list (bytes * amf))
| ANull
| AUndef
| AEcma (count : N) (ps : list (bytes * amf))
| AStrict (ps : list (bytes * amf)).

Definition props := list (bytes * amf).
Definition plen (ps : props) : N := N.of_nat (length ps).     (* number of properties *)

(* ---- amf0UTF8 ---- *)
Definition zeros (s : bytes) : bytes := map (fun _ => 0) s.

(* amf0UTF8.MarshalBinary: data = make(2+len); size := uint16(len); copy only if size > 0 *)
Definition utf8_enc (s : bytes) : bytes :=
  let n := u16 (lenN s) in
  be2 n ++ (if n =? 0 then zeros s else s).

(* amf0UTF8.UnmarshalBinary followed by p = p[u.Size():]; returns (string, rest) *)
Definition um_utf8 (p : bytes) : res (bytes * bytes) :=
  match p with
  | h :: l :: r =>
      match takeN (ube2 h l) r with
      | Some (s, r') => Ok (s, r')
      | None => Err E_SHORT
      end
  | _ => Err E_SHORT
  end.

Definition eof_bytes : bytes := [0; 0; 9].     (* objectEOF.MarshalBinary: literal in the code *)

(* ---- MarshalBinary ---- *)
Fixpoint enc (v : amf) : bytes :=
  match v with
  | ANum b => mNumber :: be8 b
  | ABool b => [mBoolean; if b then 1 else 0]
  | AStr s => mString :: utf8_enc s
  | AObj ps =>
      mObject :: (fix go (ps : props) : bytes :=
                    match ps with [] => [] | (k, x) :: t => utf8_enc k ++ enc x ++ go t end) ps
              ++ eof_bytes
  | ANull => [mNull]
  | AUndef => [mUndefined]
  | AEcma c ps =>
      mEcmaArray :: be4 c ++
        (fix go (ps : props) : bytes :=
           match ps with [] => [] | (k, x) :: t => utf8_enc k ++ enc x ++ go t end) ps
        ++ eof_bytes
  | AStrict ps =>
      mStrictArray :: be4 (u32 (plen ps)) ++
        (fix go (ps : props) : bytes :=
           match ps with [] => [] | (k, x) :: t => utf8_enc k ++ enc x ++ go t end) ps
  end.

Fixpoint enc_props (ps : props) : bytes :=
  match ps with [] => [] | (k, x) :: t => utf8_enc k ++ enc x ++ enc_props t end.

(* [enc_to v tail = enc v ++ tail] without copying the encoding of a child once per enclosing
   level (Proofs/Amf0Fast.v enc_fast_eq); this is what the harness runs *)
Fixpoint enc_to (v : amf) (tail : bytes) {struct v} : bytes :=
  match v with
  | ANum b => mNumber :: be8 b ++ tail
  | ABool b => mBoolean :: (if b then 1 else 0) :: tail
  | AStr s => mString :: utf8_enc s ++ tail
  | AObj ps =>
      mObject :: (fix go (ps : props) : bytes :=
                    match ps with
                    | [] => eof_bytes ++ tail
                    | (k, x) :: t => utf8_enc k ++ enc_to x (go t)
                    end) ps
  | ANull => mNull :: tail
  | AUndef => mUndefined :: tail
  | AEcma c ps =>
      mEcmaArray :: be4 c ++
        (fix go (ps : props) : bytes :=
           match ps with
           | [] => eof_bytes ++ tail
           | (k, x) :: t => utf8_enc k ++ enc_to x (go t)
           end) ps
  | AStrict ps =>
      mStrictArray :: be4 (u32 (plen ps)) ++
        (fix go (ps : props) : bytes :=
           match ps with
           | [] => tail
           | (k, x) :: t => utf8_enc k ++ enc_to x (go t)
           end) ps
  end.
Fixpoint enc_props_to (ps : props) (tail : bytes) : bytes :=
  match ps with [] => tail | (k, x) :: t => utf8_enc k ++ enc_to x (enc_props_to t tail) end.
Definition enc_fast (v : amf) : bytes := enc_to v [].

(* ---- Size() ---- *)
Definition utf8_size (s : bytes) : N := 2 + lenN s.

Fixpoint size (v : amf) : N :=
  match v with
  | ANum _ => 1 + 8
  | ABool _ => 2
  | AStr s => 1 + utf8_size s
  | AObj ps =>
      1 + 3 + (fix go (ps : props) : N :=
                 match ps with [] => 0 | (k, x) :: t => utf8_size k + size x + go t end) ps
  | ANull => 1
  | AUndef => 1
  | AEcma _ ps =>
      1 + 4 + 3 + (fix go (ps : props) : N :=
                     match ps with [] => 0 | (k, x) :: t => utf8_size k + size x + go t end) ps
  | AStrict ps =>
      1 + 4 + (fix go (ps : props) : N :=
                 match ps with [] => 0 | (k, x) :: t => utf8_size k + size x + go t end) ps
  end.

Fixpoint size_props (ps : props) : N :=
  match ps with [] => 0 | (k, x) :: t => utf8_size k + size x + size_props t end.

(* ---- objectBase.Get / Set ---- *)
Fixpoint get_prop (ps : props) (k : bytes) : option amf :=
  match ps with
  | [] => None
  | (k', v) :: t => if bytes_eqb k' k then Some v else get_prop t k
  end.

Definition has_key (ps : props) (k : bytes) : bool := existsb (fun kv => bytes_eqb (fst kv) k) ps.

(* Set: every property with that key is replaced (the loop does not break); appended if none *)
Definition set_prop (ps : props) (k : bytes) (v : amf) : props :=
  if has_key ps k
  then map (fun kv => if bytes_eqb (fst kv) k then (k, v) else kv) ps
  else ps ++ [(k, v)].

(* ---- the typed UnmarshalBinary methods of the scalar types ---- *)
Definition um_number (p : bytes) : res (amf * N) :=
  match p with
  | m :: a :: b :: c :: d :: e :: f :: g :: h :: _ =>
      if negb (m =? mNumber) then Err E_ILLEGAL
      else Ok (ANum (ube8 a b c d e f g h), 1 + 8)
  | _ => Err E_SHORT
  end.

Definition um_bool (p : bytes) : res (amf * N) :=
  match p with
  | m :: b :: _ =>
      if negb (m =? mBoolean) then Err E_ILLEGAL
      else Ok (ABool (negb (b =? 0)), 2)
  | _ => Err E_SHORT
  end.

Definition um_string (p : bytes) : res (amf * N) :=
  match p with
  | [] => Err E_SHORT
  | m :: r =>
      if negb (m =? mString) then Err E_ILLEGAL
      else let* (s, _) := um_utf8 r in Ok (AStr s, 1 + utf8_size s)
  end.

Definition um_single (target : N) (v : amf) (p : bytes) : res (amf * N) :=
  match p with
  | [] => Err E_SHORT
  | m :: _ => if negb (m =? target) then Err E_ILLEGAL else Ok (v, 1)
  end.
Definition um_null := um_single mNull ANull.
Definition um_undef := um_single mUndefined AUndef.

(* the end-of-object test of objectBase.unmarshal: empty key and a discovered ObjectEnd marker *)
Definition is_eof (k p1 : bytes) : bool :=
  match k, p1 with
  | [], m :: _ => m =? mObjectEnd
  | _, _ => false
  end.

(* ---- Discovery + UnmarshalBinary, and objectBase.unmarshal ----
   [dec_props f eof maxn p racc n sz]: the two loops of objectBase.unmarshal in one:
   eof = true  : `for eof { readOne; if EOF return; pushOne }`
   eof = false : `for len(v.properties) < maxElems { readOne; pushOne }`
   racc = properties decoded so far (reversed), n = their number, sz = their Size() sum. *)
Fixpoint dec (fuel : nat) (p : bytes) {struct fuel} : res (amf * N) :=
  match fuel with
  | O => Err E_FUEL
  | S f =>
    match p with
    | [] => Err E_SHORT                                  (* Discovery: len(p) < 1 *)
    | m :: r =>
      if m =? mNumber then um_number p
      else if m =? mBoolean then um_bool p
      else if m =? mString then um_string p
      else if m =? mObject then
        (* Object.UnmarshalBinary: len >= 1 and the marker hold by discovery; p = p[1:] *)
        let* (ps, sz) := dec_props f true 0 r [] 0 0 in
        Ok (AObj ps, 1 + 3 + sz)
      else if m =? mNull then um_null p
      else if m =? mUndefined then um_undef p
      else if m =? mReference then Err E_INVALID         (* empty case: falls out of the switch *)
      else if m =? mEcmaArray then
        match r with
        | a :: b :: c :: d :: r' =>
            let* (ps, sz) := dec_props f true 0 r' [] 0 0 in
            Ok (AEcma (ube4 a b c d) ps, 1 + 4 + 3 + sz)
        | _ => Err E_SHORT
        end
      else if m =? mObjectEnd then
        (* objectEOF.UnmarshalBinary on p with p[0] = 9: `p[0] != 0 || ...` is true *)
        match r with _ :: _ :: _ => Err E_ILLEGAL | _ => Err E_SHORT end
      else if m =? mStrictArray then
        match r with
        | a :: b :: c :: d :: r' =>
            let count := ube4 a b c d in
            if count =? 0 then Ok (AStrict [], 1 + 4)    (* int(v.count) <= 0 *)
            else let* (ps, sz) := dec_props f false count r' [] 0 0 in
                 Ok (AStrict ps, 1 + 4 + sz)
        | _ => Err E_SHORT
        end
      else if (m =? mDate) || (m =? mLongString) || (m =? mUnsupported) || (m =? mXmlDocument)
              || (m =? mTypedObject) || (m =? mAvmPlusObject) || (m =? mForbidden)
              || (m =? mMovieClip) || (m =? mRecordSet) then Err E_UNSUP
      else Err E_INVALID
    end
  end
with dec_props (fuel : nat) (eof : bool) (maxn : N) (p : bytes)
               (racc : props) (n : N) (sz : N) {struct fuel} : res (props * N) :=
  match fuel with
  | O => Err E_FUEL
  | S f =>
    if negb eof && (maxn <=? n) then Ok (rev racc, sz)
    else
      match um_utf8 p with                               (* readOne: prop name *)
      | Ok (k, p1) =>
          if eof && is_eof k p1 then Ok (rev racc, sz)
          else
            match dec f p1 with                          (* readOne: Discovery; pushOne: Unmarshal *)
            | Ok (v, vs) =>
                match takeN vs p1 with                   (* p = p[a.Size():] *)
                | Some (_, p2) => dec_props f eof maxn p2 ((k, v) :: racc) (N.succ n) (sz + (utf8_size k + vs))
                | None => Panic 1
                end
            | Err e => Err e
            | Panic s => Panic s
            end
      | Err e => Err e
      | Panic s => Panic s
      end
  end.

Definition dec_fuel (p : bytes) : nat := S (length p).
Definition decode (p : bytes) : res (amf * N) := dec (dec_fuel p) p.

(* ---- the same decoder in linear time (this is what the harness runs) ----
   [dec] advances over a decoded child by walking Size() bytes (the code slices in O(1) but
   recomputes Size() of the subtree), so it costs O(length * depth).  [decf] additionally returns
   the input remaining after the value, and the container loop continues from there.
   Proofs/Amf0.v decf_eq: [decode_fast p = decode p] for every p. *)
Fixpoint decf (fuel : nat) (p : bytes) {struct fuel} : res (amf * N * bytes) :=
  match fuel with
  | O => Err E_FUEL
  | S f =>
    match p with
    | [] => Err E_SHORT
    | m :: r =>
      if m =? mObject then
        let* (ps, sz, rest) := decf_props f true 0 r [] 0 0 in
        Ok (AObj ps, 1 + 3 + sz, rest)
      else if m =? mEcmaArray then
        match r with
        | a :: b :: c :: d :: r' =>
            let* (ps, sz, rest) := decf_props f true 0 r' [] 0 0 in
            Ok (AEcma (ube4 a b c d) ps, 1 + 4 + 3 + sz, rest)
        | _ => Err E_SHORT
        end
      else if m =? mStrictArray then
        match r with
        | a :: b :: c :: d :: r' =>
            let count := ube4 a b c d in
            if count =? 0 then Ok (AStrict [], 1 + 4, r')
            else let* (ps, sz, rest) := decf_props f false count r' [] 0 0 in
                 Ok (AStrict ps, 1 + 4 + sz, rest)
        | _ => Err E_SHORT
        end
      else
        (* scalars and rejected markers: no recursion, the result does not depend on the fuel *)
        match dec 1 p with
        | Ok (v, n) =>
            match takeN n p with
            | Some (_, rest) => Ok (v, n, rest)
            | None => Panic 1
            end
        | Err e => Err e
        | Panic s => Panic s
        end
    end
  end
with decf_props (fuel : nat) (eof : bool) (maxn : N) (p : bytes)
                (racc : props) (n : N) (sz : N) {struct fuel} : res (props * N * bytes) :=
  match fuel with
  | O => Err E_FUEL
  | S f =>
    if negb eof && (maxn <=? n) then Ok (rev racc, sz, p)
    else
      match um_utf8 p with
      | Ok (k, p1) =>
          if eof && is_eof k p1 then Ok (rev racc, sz, tl p1)
          else
            match decf f p1 with
            | Ok (v, vs, p2) =>
                decf_props f eof maxn p2 ((k, v) :: racc) (N.succ n) (sz + (utf8_size k + vs))
            | Err e => Err e
            | Panic s => Panic s
            end
      | Err e => Err e
      | Panic s => Panic s
      end
  end.

Definition decode_fast (p : bytes) : res (amf * N) :=
  match decf (dec_fuel p) p with
  | Ok (v, n, _) => Ok (v, n)
  | Err e => Err e
  | Panic s => Panic s
  end.

(* the typed container methods (receiver type fixed by the caller, as rtmp.go does) *)
Definition um_object (fuel : nat) (p : bytes) : res (amf * N) :=
  match p with
  | [] => Err E_SHORT
  | m :: r =>
      if negb (m =? mObject) then Err E_ILLEGAL
      else let* (ps, sz) := dec_props fuel true 0 r [] 0 0 in Ok (AObj ps, 1 + 3 + sz)
  end.

Definition um_ecma (fuel : nat) (p : bytes) : res (amf * N) :=
  match p with
  | m :: a :: b :: c :: d :: r' =>
      if negb (m =? mEcmaArray) then Err E_ILLEGAL
      else let* (ps, sz) := dec_props fuel true 0 r' [] 0 0 in
           Ok (AEcma (ube4 a b c d) ps, 1 + 4 + 3 + sz)
  | _ => Err E_SHORT
  end.

Definition um_strict (fuel : nat) (p : bytes) : res (amf * N) :=
  match p with
  | m :: a :: b :: c :: d :: r' =>
      if negb (m =? mStrictArray) then Err E_ILLEGAL
      else let count := ube4 a b c d in
           if count =? 0 then Ok (AStrict [], 1 + 4)
           else let* (ps, sz) := dec_props fuel false count r' [] 0 0 in Ok (AStrict ps, 1 + 4 + sz)
  | _ => Err E_SHORT
  end.

(* ---- UnmarshalBinary into a receiver that ALREADY HOLDS a value ----
   [um_into old fuel p]: the method of old's type, called on a receiver whose current value is
   old (a scratch value reused between messages, a value fetched with Get, a defaulted field).
   Scalars: Number and Boolean assign *v on the success path only; String decodes into a LOCAL
   amf0UTF8 and assigns *v = String(sv) after it succeeded; null/undefined have no state.
   Containers (after fix 8324535): v.reset() drops the old properties once the header is accepted,
   then objectBase.unmarshal runs as on a fresh value; count is overwritten from the wire.
   [um_cont_from kind ps0 ...] is the same method starting from the property list ps0:
   ps0 = [] is the code; ps0 = old properties was the behaviour before the fix (appending,
   the strict loop counting the old elements), kept for the refuted witness. *)
Definition akind (v : amf) : N :=
  match v with
  | ANum _ => mNumber | ABool _ => mBoolean | AStr _ => mString | AObj _ => mObject
  | ANull => mNull | AUndef => mUndefined | AEcma _ _ => mEcmaArray | AStrict _ => mStrictArray
  end.

Definition um_cont_from (kind : N) (ps0 : props) (fuel : nat) (p : bytes) : res (amf * N) :=
  if kind =? mObject then
    match p with
    | [] => Err E_SHORT
    | m :: r =>
        if negb (m =? mObject) then Err E_ILLEGAL
        else let* (ps, sz) := dec_props fuel true 0 r (rev ps0) (plen ps0) (size_props ps0) in
             Ok (AObj ps, 1 + 3 + sz)
    end
  else if kind =? mEcmaArray then
    match p with
    | m :: a :: b :: c :: d :: r' =>
        if negb (m =? mEcmaArray) then Err E_ILLEGAL
        else let* (ps, sz) := dec_props fuel true 0 r' (rev ps0) (plen ps0) (size_props ps0) in
             Ok (AEcma (ube4 a b c d) ps, 1 + 4 + 3 + sz)
    | _ => Err E_SHORT
    end
  else
    match p with
    | m :: a :: b :: c :: d :: r' =>
        if negb (m =? mStrictArray) then Err E_ILLEGAL
        else let count := ube4 a b c d in
             if count =? 0 then Ok (AStrict ps0, 1 + 4 + size_props ps0)
             else let* (ps, sz) := dec_props fuel false count r' (rev ps0) (plen ps0) (size_props ps0) in
                  Ok (AStrict ps, 1 + 4 + sz)
    | _ => Err E_SHORT
    end.

Definition um_into (old : amf) (fuel : nat) (p : bytes) : res (amf * N) :=
  match old with
  | ANum _ => um_number p                 (* *v = Number(...) after both checks *)
  | ABool _ => um_bool p                  (* *v assigned in both branches *)
  | AStr _ => um_string p                 (* var sv amf0UTF8; ...; *v = String(sv) *)
  | ANull => um_null p
  | AUndef => um_undef p
  | AObj _ => um_cont_from mObject [] fuel p          (* v.reset() *)
  | AEcma _ _ => um_cont_from mEcmaArray [] fuel p
  | AStrict _ => um_cont_from mStrictArray [] fuel p
  end.

(* k decodes into ONE receiver from a stream, advancing by Size(): the values with their sizes
   and the final status (0 = the input ended exactly after a value, else the error class;
   98 = panic, 99 = p[Size():] out of range) *)
Fixpoint um_stream (n : nat) (old : amf) (p : bytes) : list (amf * N) * N :=
  match n with
  | O => ([], E_FUEL)
  | S n' =>
    match p with
    | [] => ([], 0)
    | _ :: _ =>
        match um_into old (dec_fuel p) p with
        | Ok (v, sz) =>
            match takeN sz p with
            | Some (_, rest) => let '(l, st) := um_stream n' v rest in ((v, sz) :: l, st)
            | None => ([], 99)
            end
        | Err e => ([], e)
        | Panic _ => ([], 98)
        end
    end
  end.

(* ---- well-formedness (decidable) ---- *)
Definition wf_strb (s : bytes) : bool := (lenN s <=? 65535) && wf_bytesb s.

Fixpoint wf_amfb (v : amf) : bool :=
  match v with
  | ANum b => b <? 18446744073709551616
  | AStr s => wf_strb s
  | AObj ps =>
      (fix go (ps : props) : bool :=
         match ps with [] => true | (k, x) :: t => wf_strb k && wf_amfb x && go t end) ps
  | AEcma c ps =>
      (c <? 4294967296) &&
      (fix go (ps : props) : bool :=
         match ps with [] => true | (k, x) :: t => wf_strb k && wf_amfb x && go t end) ps
  | AStrict ps =>
      (plen ps <? 4294967296) &&
      (fix go (ps : props) : bool :=
         match ps with [] => true | (k, x) :: t => wf_strb k && wf_amfb x && go t end) ps
  | _ => true
  end.
Fixpoint wf_propsb (ps : props) : bool :=
  match ps with [] => true | (k, x) :: t => wf_strb k && wf_amfb x && wf_propsb t end.
Definition wf_amf (v : amf) : Prop := wf_amfb v = true.

(* no strict array with at least one element anywhere in the tree (C06) *)
Fixpoint no_strictb (v : amf) : bool :=
  match v with
  | AObj ps | AEcma _ ps =>
      (fix go (ps : props) : bool :=
         match ps with [] => true | (_, x) :: t => no_strictb x && go t end) ps
  | AStrict [] => true
  | AStrict _ => false
  | _ => true
  end.
Fixpoint no_strict_propsb (ps : props) : bool :=
  match ps with [] => true | (_, x) :: t => no_strictb x && no_strict_propsb t end.

(* ---- the AMF0 specification, section 2 (independent codec for C06) ----
   number 00 + 8 bytes BE IEEE; boolean 01 + byte (non-zero = true); string 02 + u16 len + bytes;
   object 03 + (u16-string key, value)* + 00 00 09; null 05; undefined 06;
   ecma array 08 + u32 count + pairs + 00 00 09; strict array 0a + u32 count + count VALUES.
   A strict array has no keys: spec_enc ignores the keys of [AStrict], spec_dec yields empty keys. *)
Definition spec_str (s : bytes) : bytes := be2 (lenN s) ++ s.

Fixpoint spec_enc (v : amf) : bytes :=
  match v with
  | ANum b => 0 :: be8 b
  | ABool b => [1; if b then 1 else 0]
  | AStr s => 2 :: spec_str s
  | AObj ps =>
      3 :: (fix go (ps : props) : bytes :=
              match ps with [] => [] | (k, x) :: t => spec_str k ++ spec_enc x ++ go t end) ps
        ++ [0; 0; 9]
  | ANull => [5]
  | AUndef => [6]
  | AEcma c ps =>
      8 :: be4 c ++
        (fix go (ps : props) : bytes :=
           match ps with [] => [] | (k, x) :: t => spec_str k ++ spec_enc x ++ go t end) ps
        ++ [0; 0; 9]
  | AStrict ps =>
      10 :: be4 (plen ps) ++
        (fix go (ps : props) : bytes :=
           match ps with [] => [] | (_, x) :: t => spec_enc x ++ go t end) ps
  end.
Fixpoint spec_enc_props (ps : props) : bytes :=
  match ps with [] => [] | (k, x) :: t => spec_str k ++ spec_enc x ++ spec_enc_props t end.
Fixpoint spec_enc_vals (ps : props) : bytes :=
  match ps with [] => [] | (_, x) :: t => spec_enc x ++ spec_enc_vals t end.

Definition spec_rd_str (p : bytes) : option (bytes * bytes) :=
  match p with
  | h :: l :: r => takeN (h * 256 + l) r
  | _ => None
  end.

(* the three bytes 00 00 09 (empty name + object-end-marker) end a property list *)
Definition spec_is_end (p : bytes) : bool :=
  match p with a :: b :: c :: _ => (a =? 0) && (b =? 0) && (c =? 9) | _ => false end.
Definition spec_after_end (p : bytes) : bytes :=
  match p with _ :: _ :: _ :: r => r | _ => [] end.

(* returns the value and the remaining input *)
Fixpoint spec_dec (fuel : nat) (p : bytes) {struct fuel} : option (amf * bytes) :=
  match fuel with
  | O => None
  | S f =>
    match p with
    | [] => None
    | m :: r =>
      if m =? 0 then
        match r with
        | a :: b :: c :: d :: e :: f' :: g :: h :: r' => Some (ANum (ube8 a b c d e f' g h), r')
        | _ => None
        end
      else if m =? 1 then
        match r with b :: r' => Some (ABool (negb (b =? 0)), r') | _ => None end
      else if m =? 2 then
        match spec_rd_str r with Some (s, r') => Some (AStr s, r') | None => None end
      else if m =? 3 then
        match spec_pairs f r [] with Some (ps, r') => Some (AObj ps, r') | None => None end
      else if m =? 5 then Some (ANull, r)
      else if m =? 6 then Some (AUndef, r)
      else if m =? 8 then
        match r with
        | a :: b :: c :: d :: r1 =>
            match spec_pairs f r1 [] with
            | Some (ps, r') => Some (AEcma (ube4 a b c d) ps, r')
            | None => None
            end
        | _ => None
        end
      else if m =? 10 then
        match r with
        | a :: b :: c :: d :: r1 =>
            match spec_vals f (ube4 a b c d) r1 [] with
            | Some (ps, r') => Some (AStrict ps, r')
            | None => None
            end
        | _ => None
        end
      else None
    end
  end
with spec_pairs (fuel : nat) (p : bytes) (racc : props) {struct fuel} : option (props * bytes) :=
  match fuel with
  | O => None
  | S f =>
    if spec_is_end p then Some (rev racc, spec_after_end p)
    else
      match spec_rd_str p with
      | Some (k, p1) =>
          match spec_dec f p1 with
          | Some (v, p2) => spec_pairs f p2 ((k, v) :: racc)
          | None => None
          end
      | None => None
      end
  end
with spec_vals (fuel : nat) (n : N) (p : bytes) (racc : props) {struct fuel} : option (props * bytes) :=
  match fuel with
  | O => None
  | S f =>
    if n =? 0 then Some (rev racc, p)
    else match spec_dec f p with
         | Some (v, p2) => spec_vals f (N.pred n) p2 (([], v) :: racc)
         | None => None
         end
  end.

(* ---- s-expression interface of the harness ----
   tree: (0 bits) (1 b) (2 xstr) (3 ((xkey tree)...)) (5) (6) (8 count ((xkey tree)...)) (10 (...)) *)
Fixpoint sx_of_amf (v : amf) : sx :=
  match v with
  | ANum b => SL [SZ 0; sN b]
  | ABool b => SL [SZ 1; sbool b]
  | AStr s => SL [SZ 2; SB s]
  | AObj ps =>
      SL [SZ 3; SL ((fix go (ps : props) : list sx :=
                       match ps with [] => [] | (k, x) :: t => SL [SB k; sx_of_amf x] :: go t end) ps)]
  | ANull => SL [SZ 5]
  | AUndef => SL [SZ 6]
  | AEcma c ps =>
      SL [SZ 8; sN c; SL ((fix go (ps : props) : list sx :=
                       match ps with [] => [] | (k, x) :: t => SL [SB k; sx_of_amf x] :: go t end) ps)]
  | AStrict ps =>
      SL [SZ 10; SL ((fix go (ps : props) : list sx :=
                       match ps with [] => [] | (k, x) :: t => SL [SB k; sx_of_amf x] :: go t end) ps)]
  end.

(* [setmode = true]: the property list is a sequence of Set(key, value) calls on a fresh container
   (the public API); false: the properties literally *)
Definition add_prop (setmode : bool) (ps : props) (k : bytes) (v : amf) : props :=
  if setmode then set_prop ps k v else ps ++ [(k, v)].

Fixpoint amf_of_sx (setmode : bool) (s : sx) : option amf :=
  match s with
  | SL [SZ 0%Z; SZ b] => Some (ANum (Z.to_N b))
  | SL [SZ 1%Z; SZ b] => Some (ABool (negb (Z.eqb b 0)))
  | SL [SZ 2%Z; SB s] => Some (AStr s)
  | SL [SZ 3%Z; SL l] =>
      match (fix go (l : list sx) (acc : props) : option props :=
               match l with
               | [] => Some acc
               | SL [SB k; x] :: t =>
                   match amf_of_sx setmode x with Some v => go t (add_prop setmode acc k v) | None => None end
               | _ => None
               end) l [] with Some ps => Some (AObj ps) | None => None end
  | SL [SZ 5%Z] => Some ANull
  | SL [SZ 6%Z] => Some AUndef
  | SL [SZ 8%Z; SZ c; SL l] =>
      match (fix go (l : list sx) (acc : props) : option props :=
               match l with
               | [] => Some acc
               | SL [SB k; x] :: t =>
                   match amf_of_sx setmode x with Some v => go t (add_prop setmode acc k v) | None => None end
               | _ => None
               end) l [] with Some ps => Some (AEcma (Z.to_N c) ps) | None => None end
  | SL [SZ 10%Z; SL l] =>
      match (fix go (l : list sx) (acc : props) : option props :=
               match l with
               | [] => Some acc
               | SL [SB k; x] :: t =>
                   match amf_of_sx setmode x with Some v => go t (add_prop setmode acc k v) | None => None end
               | _ => None
               end) l [] with Some ps => Some (AStrict ps) | None => None end
  | _ => None
  end.

Definition obs_res (r : res (amf * N)) (withenc : bool) : sx :=
  match r with
  | Ok (v, n) => s_ok ([sx_of_amf v; sN n] ++ (if withenc then [SB (enc_fast v)] else []))
  | Err e => s_err e
  | Panic _ => s_panic
  end.

(* ---- histories on one value (C05): the Go object graph with its separately stored counts ----
   A container object is [GCont kind count props]: kind = its marker (Object / EcmaArray /
   StrictArray), count = the struct field `count` (EcmaArray, StrictArray; 0 for Object, which
   has none), props = objectBase.properties with the child OBJECTS (so a child can be changed
   after it was put into its parent, as with Go pointers).  Scalars are immutable leaves.
   No aliasing: every container is reachable by one path (the harness never stores one object
   under two keys).
     NewObject/NewEcmaArray/NewStrictArray : count 0, no properties
     Set                : objectBase.Set on the property list; count untouched
     UnmarshalBinary    : count = the count on the wire (a decoded strict array: its length)
     MarshalBinary      : StrictArray: v.count = uint32(len(properties)), then written;
                          EcmaArray: the stored count written as is; children marshalled
                          recursively (their counts updated the same way) *)
Inductive gval : Type :=
| GLeaf (v : amf)
| GCont (kind : N) (count : N) (ps : list (bytes * gval)).
Definition gprops := list (bytes * gval).
Definition gplen (ps : gprops) : N := N.of_nat (length ps).

(* decoded = true: the value was produced by UnmarshalBinary (strict count = number of elements
   read); false: built through the API (count 0) *)
Fixpoint g_of_amf (decoded : bool) (v : amf) : gval :=
  match v with
  | AObj ps =>
      GCont mObject 0
        ((fix go (ps : props) : gprops :=
            match ps with [] => [] | (k, x) :: t => (k, g_of_amf decoded x) :: go t end) ps)
  | AEcma c ps =>
      GCont mEcmaArray c
        ((fix go (ps : props) : gprops :=
            match ps with [] => [] | (k, x) :: t => (k, g_of_amf decoded x) :: go t end) ps)
  | AStrict ps =>
      GCont mStrictArray (if decoded then plen ps else 0)
        ((fix go (ps : props) : gprops :=
            match ps with [] => [] | (k, x) :: t => (k, g_of_amf decoded x) :: go t end) ps)
  | _ => GLeaf v
  end.
Fixpoint g_of_props (decoded : bool) (ps : props) : gprops :=
  match ps with [] => [] | (k, x) :: t => (k, g_of_amf decoded x) :: g_of_props decoded t end.

Definition mk_cont (kind count : N) (ps : props) : amf :=
  if kind =? mObject then AObj ps
  else if kind =? mEcmaArray then AEcma count ps
  else AStrict ps.

(* the current value: the property lists in order (the strict count is not part of the value) *)
Fixpoint g_view (g : gval) : amf :=
  match g with
  | GLeaf v => v
  | GCont k c ps =>
      mk_cont k c
        ((fix go (ps : gprops) : props :=
            match ps with [] => [] | (key, x) :: t => (key, g_view x) :: go t end) ps)
  end.
Fixpoint g_view_props (ps : gprops) : props :=
  match ps with [] => [] | (key, x) :: t => (key, g_view x) :: g_view_props t end.

(* MarshalBinary: the bytes and the object graph afterwards *)
Fixpoint g_marshal (g : gval) : bytes * gval :=
  match g with
  | GLeaf v => (enc v, GLeaf v)
  | GCont k c ps =>
      let c' := if k =? mStrictArray then u32 (gplen ps) else c in
      let '(body, ps') :=
        (fix go (ps : gprops) : bytes * gprops :=
           match ps with
           | [] => ([], [])
           | (key, x) :: t =>
               let '(bx, x') := g_marshal x in
               let '(bt, t') := go t in
               (utf8_enc key ++ bx ++ bt, (key, x') :: t')
           end) ps in
      (k :: (if k =? mObject then [] else be4 c') ++ body
         ++ (if k =? mStrictArray then [] else eof_bytes),
       GCont k c' ps')
  end.
Fixpoint g_marshal_props (ps : gprops) : bytes * gprops :=
  match ps with
  | [] => ([], [])
  | (key, x) :: t =>
      let '(bx, x') := g_marshal x in
      let '(bt, t') := g_marshal_props t in
      (utf8_enc key ++ bx ++ bt, (key, x') :: t')
  end.

(* objectBase.Get / Set on a list of child objects *)
Fixpoint gget_prop (ps : gprops) (k : bytes) : option gval :=
  match ps with
  | [] => None
  | (k', v) :: t => if bytes_eqb k' k then Some v else gget_prop t k
  end.
Definition ghas_key (ps : gprops) (k : bytes) : bool := existsb (fun kv => bytes_eqb (fst kv) k) ps.
Definition gset_prop (ps : gprops) (k : bytes) (v : gval) : gprops :=
  if ghas_key ps k
  then map (fun kv => if bytes_eqb (fst kv) k then (k, v) else kv) ps
  else ps ++ [(k, v)].

(* the object reached from g by Get(key1), Get(key2), ... *)
Fixpoint g_at (path : list bytes) (g : gval) : option gval :=
  match path with
  | [] => Some g
  | key :: rest =>
      match g with
      | GCont _ _ ps => match gget_prop ps key with Some x => g_at rest x | None => None end
      | GLeaf _ => None
      end
  end.

(* replace the object at a path by f of it (the first property with each key, as Get finds it) *)
Fixpoint g_update (path : list bytes) (f : gval -> option gval) (g : gval) : option gval :=
  match path with
  | [] => f g
  | key :: rest =>
      match g with
      | GCont k c ps =>
          match (fix go (ps : gprops) : option gprops :=
                   match ps with
                   | [] => None
                   | (k', x) :: t =>
                       if bytes_eqb k' key
                       then match g_update rest f x with Some x' => Some ((k', x') :: t) | None => None end
                       else match go t with Some t' => Some ((k', x) :: t') | None => None end
                   end) ps with
          | Some ps' => Some (GCont k c ps')
          | None => None
          end
      | GLeaf _ => None
      end
  end.

(* ---- UnmarshalBinary on an object of the graph: the receiver's state ALSO after a rejection ----
   [dec_props_st] is objectBase.unmarshal returning what it leaves in v.properties at every exit:
   on success and at every rejection point (name cut short, Discovery error for an unsupported /
   invalid marker, the value's own UnmarshalBinary failing, missing end marker = input exhausted)
   the pairs completed so far stay in the receiver; the value being decoded when the error
   occurred was never appended (pushOne returns before the append), however far it got.
   [g_unmarshal]: scalars are unchanged by a failed call; a container keeps its old state when the
   header is rejected (too short, wrong marker); otherwise the count field is stored from the
   header, the properties are reset, and the loop runs -- so after a rejection inside the
   elements a StrictArray holds the header count together with fewer elements. *)
Fixpoint dec_props_st (fuel : nat) (eof : bool) (maxn : N) (p : bytes)
                      (racc : props) (n : N) (sz : N) {struct fuel} : props * res N :=
  match fuel with
  | O => (rev racc, Err E_FUEL)
  | S f =>
    if negb eof && (maxn <=? n) then (rev racc, Ok sz)
    else
      match um_utf8 p with
      | Ok (k, p1) =>
          if eof && is_eof k p1 then (rev racc, Ok sz)
          else
            match dec f p1 with
            | Ok (v, vs) =>
                match takeN vs p1 with
                | Some (_, p2) =>
                    dec_props_st f eof maxn p2 ((k, v) :: racc) (N.succ n) (sz + (utf8_size k + vs))
                | None => (rev racc, Panic 1)
                end
            | Err e => (rev racc, Err e)
            | Panic s => (rev racc, Panic s)
            end
      | Err e => (rev racc, Err e)
      | Panic s => (rev racc, Panic s)
      end
  end.

Definition res_add (hdr : N) (r : res N) : res N :=
  match r with Ok sz => Ok (hdr + sz) | Err e => Err e | Panic s => Panic s end.

Definition g_unmarshal_cont (k c : N) (ps : gprops) (fuel : nat) (p : bytes) : gval * res N :=
  let same := GCont k c ps in
  if k =? mObject then
    match p with
    | [] => (same, Err E_SHORT)
    | m :: r =>
        if negb (m =? mObject) then (same, Err E_ILLEGAL)
        else let '(ps', st) := dec_props_st fuel true 0 r [] 0 0 in        (* v.reset(); v.unmarshal *)
             (GCont k c (g_of_props true ps'), res_add (1 + 3) st)
    end
  else if k =? mEcmaArray then
    match p with
    | m :: a :: b :: c0 :: d :: r' =>
        if negb (m =? mEcmaArray) then (same, Err E_ILLEGAL)
        else let '(ps', st) := dec_props_st fuel true 0 r' [] 0 0 in
             (GCont k (ube4 a b c0 d) (g_of_props true ps'), res_add (1 + 4 + 3) st)
    | _ => (same, Err E_SHORT)
    end
  else
    match p with
    | m :: a :: b :: c0 :: d :: r' =>
        if negb (m =? mStrictArray) then (same, Err E_ILLEGAL)
        else let count := ube4 a b c0 d in
             if count =? 0 then (GCont k count [], Ok (1 + 4))
             else let '(ps', st) := dec_props_st fuel false count r' [] 0 0 in
                  (GCont k count (g_of_props true ps'), res_add (1 + 4) st)
    | _ => (same, Err E_SHORT)
    end.

Definition g_unmarshal (g : gval) (fuel : nat) (p : bytes) : gval * res N :=
  match g with
  | GCont k c ps => g_unmarshal_cont k c ps fuel p
  | GLeaf v =>
      match g_of_amf false v with
      | GCont k c ps => g_unmarshal_cont k c ps fuel p      (* a container given as a plain value *)
      | GLeaf _ =>
          match um_into v fuel p with
          | Ok (v', n) => (GLeaf v', Ok n)
          | Err e => (GLeaf v, Err e)                        (* scalars: *v untouched on error *)
          | Panic s => (GLeaf v, Panic s)
          end
      end
  end.

Inductive hop : Type :=
| HNew (kind : N)                                  (* a fresh container becomes the root *)
| HSet (path : list bytes) (key : bytes) (x : gval) (* Set(key, x) on the container at path *)
| HMarshal (path : list bytes)                     (* MarshalBinary of the object at path *)
| HUnmarshal (kind : N) (b : bytes)                (* New<kind>().UnmarshalBinary(b) becomes the root *)
| HGet (path : list bytes) (key : bytes)
| HInspect (path : list bytes)
| HDecodeInto (path : list bytes) (b : bytes).      (* UnmarshalBinary(b) ON the object at path *)

Definition is_cont_kind (k : N) : bool := (k =? mObject) || (k =? mEcmaArray) || (k =? mStrictArray).

Definition um_kind (kind : N) (b : bytes) : res (amf * N) :=
  if kind =? mObject then um_object (dec_fuel b) b
  else if kind =? mEcmaArray then um_ecma (dec_fuel b) b
  else um_strict (dec_fuel b) b.

Definition set_at (key : bytes) (x : gval) (g : gval) : option gval :=
  match g with
  | GCont k c ps => Some (GCont k c (gset_prop ps key x))
  | GLeaf _ => None
  end.

(* one operation: the new object graph and the observation *)
Definition h_step (g : gval) (op : hop) : gval * sx :=
  match op with
  | HNew k => if is_cont_kind k then (GCont k 0 [], s_ok []) else (g, bad_case)
  | HSet path key x =>
      match g_update path (set_at key x) g with
      | Some g' => (g', s_ok [])
      | None => (g, SL [SZ 1])
      end
  | HMarshal path =>
      match g_at path g with
      | Some sub =>
          let '(b, sub') := g_marshal sub in
          match g_update path (fun _ => Some sub') g with
          | Some g' => (g', s_ok [SB b; sN (size (g_view sub'))])
          | None => (g, SL [SZ 1])
          end
      | None => (g, SL [SZ 1])
      end
  | HUnmarshal k b =>
      if is_cont_kind k then
        match um_kind k b with
        | Ok (v, n) => (g_of_amf true v, s_ok [sx_of_amf v; sN n])
        | Err e => (g, s_err e)
        | Panic _ => (g, s_panic)
        end
      else (g, bad_case)
  | HGet path key =>
      match g_at path g with
      | Some (GCont _ _ ps) =>
          match gget_prop ps key with
          | Some x => (g, s_ok [sx_of_amf (g_view x)])
          | None => (g, SL [SZ 1])
          end
      | _ => (g, SL [SZ 1])
      end
  | HInspect path =>
      match g_at path g with
      | Some (GCont k c ps) => (g, s_ok [sN k; sN c; sN (gplen ps)])
      | _ => (g, SL [SZ 1])
      end
  | HDecodeInto path b =>
      match g_at path g with
      | Some sub =>
          let '(sub', r) := g_unmarshal sub (dec_fuel b) b in
          match g_update path (fun _ => Some sub') g with
          | Some g' =>
              (g', match r with
                   | Ok n => s_ok [sx_of_amf (g_view sub'); sN n]
                   | Err e => s_err e
                   | Panic _ => s_panic
                   end)
          | None => (g, SL [SZ 3])
          end
      | None => (g, SL [SZ 3])
      end
  end.

Fixpoint h_run (g : gval) (ops : list hop) : gval :=
  match ops with [] => g | op :: t => h_run (fst (h_step g op)) t end.

Fixpoint h_obs (g : gval) (ops : list hop) : list sx :=
  match ops with [] => [] | op :: t => let '(g', o) := h_step g op in o :: h_obs g' t end.

Definition g0 : gval := GCont mObject 0 [].

(* operations as s-expressions: (0 kind) (1 (xkey..) xkey tree) (2 (xkey..)) (3 kind xbytes)
   (4 (xkey..) xkey) (5 (xkey..)) (6 (xkey..) xbytes) *)
Fixpoint path_of_sx (l : list sx) : option (list bytes) :=
  match l with
  | [] => Some []
  | SB k :: t => match path_of_sx t with Some p => Some (k :: p) | None => None end
  | _ => None
  end.

Definition hop_of_sx (s : sx) : option hop :=
  match s with
  | SL [SZ 0%Z; SZ k] => Some (HNew (Z.to_N k))
  | SL [SZ 1%Z; SL p; SB key; t] =>
      match path_of_sx p, amf_of_sx true t with
      | Some path, Some v => Some (HSet path key (g_of_amf false v))
      | _, _ => None
      end
  | SL [SZ 2%Z; SL p] => match path_of_sx p with Some path => Some (HMarshal path) | None => None end
  | SL [SZ 3%Z; SZ k; SB b] => Some (HUnmarshal (Z.to_N k) b)
  | SL [SZ 4%Z; SL p; SB key] => match path_of_sx p with Some path => Some (HGet path key) | None => None end
  | SL [SZ 5%Z; SL p] => match path_of_sx p with Some path => Some (HInspect path) | None => None end
  | SL [SZ 6%Z; SL p; SB b] => match path_of_sx p with Some path => Some (HDecodeInto path b) | None => None end
  | _ => None
  end.

Fixpoint hops_of_sx (l : list sx) : option (list hop) :=
  match l with
  | [] => Some []
  | s :: t =>
      match hop_of_sx s, hops_of_sx t with
      | Some op, Some ops => Some (op :: ops)
      | _, _ => None
      end
  end.

(* C05 cases
   (0 tree)  build the tree through the API (Set), marshal, Size, unmarshal the bytes, re-marshal
             -> (0 xbytes size <decode observation>)
   (1 xbytes) Discovery + UnmarshalBinary -> (0 tree size xreenc) | (1 code) | (2)
   (3 mode oldtree xbytes)  UnmarshalBinary(bytes) into a receiver that already holds oldtree
              (mode 0: built through the API, 1: decoded from its encoding) -> (0 tree size) | (1 code)
   (4 oldtree xstream)      repeated UnmarshalBinary into ONE receiver advancing by Size()
              -> (((tree size)...) status)
   (2 ops)    a history of API calls on one object graph, starting from NewObject():
              (0 kind) new root -> (0);  (1 path key tree) Set -> (0) | (1);
              (2 path) MarshalBinary -> (0 xbytes size);  (3 kind xbytes) typed Unmarshal into a
              fresh container, which becomes the root -> (0 tree size) | (1 code);
              (4 path key) Get -> (0 tree) | (1);  (5 path) -> (0 kind count nprops);
              (6 path xbytes) UnmarshalBinary ON the object at path (it keeps what the code leaves
              in it, also after a rejection) -> (0 tree size) | (1 code) | (3) no such object
              -> the list of the per-operation observations *)
Definition run_c05 (c : sx) : sx :=
  match c with
  | SL [SZ 0%Z; t] =>
      match amf_of_sx true t with
      | Some v => let b := enc_fast v in s_ok [SB b; sN (size v); obs_res (decode_fast b) true]
      | None => bad_case
      end
  | SL [SZ 1%Z; SB b] => obs_res (decode_fast b) true
  | SL [SZ 3%Z; SZ _; t; SB b] =>
      match amf_of_sx true t with
      | Some old => obs_res (um_into old (dec_fuel b) b) false
      | None => bad_case
      end
  | SL [SZ 4%Z; t; SB b] =>
      match amf_of_sx true t with
      | Some old =>
          let '(l, st) := um_stream (S (length b)) old b in
          SL [SL (map (fun vn => SL [sx_of_amf (fst vn); sN (snd vn)]) l); sN st]
      | None => bad_case
      end
  | SL [SZ 2%Z; SL ops] =>
      match hops_of_sx ops with
      | Some hs => SL (h_obs g0 hs)
      | None => bad_case
      end
  | _ => bad_case
  end.

Definition obs_spec (r : option (amf * bytes)) : sx :=
  match r with
  | Some (v, rest) => s_ok [sx_of_amf v; SB rest]
  | None => SL [SZ 1]
  end.
Definition spec_decode (p : bytes) : option (amf * bytes) := spec_dec (S (length p)) p.

(* C06 cases
   (0 tree)   literal tree: library bytes, reference bytes, library decoding of the reference bytes,
              reference decoding of the library bytes
              -> (0 xlib xref <lib decode obs> <spec decode obs>)
   (1 xbytes) both decoders on arbitrary bytes -> (0 <lib decode obs> <spec decode obs>)
   (2 kind xbytes) UnmarshalBinary(bytes) into a fresh container of that kind -- possibly REJECTED
              part-way --, then MarshalBinary of that receiver and the reference decoding of the
              result -> (0 <(0 size) | (1 code)> xlib <spec decode obs>) *)
Definition run_c06 (c : sx) : sx :=
  match c with
  | SL [SZ 0%Z; t] =>
      match amf_of_sx false t with
      | Some v =>
          let lb := enc_fast v in
          let sb := spec_enc v in
          s_ok [SB lb; SB sb; obs_res (decode_fast sb) false; obs_spec (spec_decode lb)]
      | None => bad_case
      end
  | SL [SZ 1%Z; SB b] => s_ok [obs_res (decode_fast b) false; obs_spec (spec_decode b)]
  | SL [SZ 2%Z; SZ k; SB b] =>
      let kind := Z.to_N k in
      if is_cont_kind kind then
        let '(g, r) := g_unmarshal (GCont kind 0 []) (dec_fuel b) b in
        let lb := fst (g_marshal g) in
        s_ok [match r with Ok n => s_ok [sN n] | Err e => s_err e | Panic _ => s_panic end;
              SB lb; obs_spec (spec_decode lb)]
      else bad_case
  | _ => bad_case
  end.
