(* Model of the concurrent write path of websocket/conn.go (C15).  Definitions only.

   Threads run flat instruction lists; the instructions of ONE frame write are produced from the
   event skeletons the translator extracts from Conn.write (data frames, via flushFrame) and
   Conn.WriteControl (Gen_websocket.websocket_write_skel / websocket_WriteControl_skel).
   Shared state: the 1-slot channel lock, the sticky write error, the transport (open/closed),
   the bytes handed to the transport as one global log of (thread, chunk), newest first.
   A frame is abstract: opcode, fin, payload length and the number of transport writes it takes
   (1, or 2 when a server sends buffered data + "extra"); a chunk is (frame, index). *)
From Coq Require Import String.
From Verif Require Import Gen.Gen_websocket.
From Verif Require Import Lib.Base Lib.Sx Lib.Sched.
Import List ListNotations.
Open Scope Z_scope.

Record frame := { f_op : Z; f_fin : bool; f_len : Z; f_nch : nat }.
Definition chunk := (frame * nat)%type.
Definition chunks_of (f : frame) : list chunk := map (fun k => (f, k)) (seq 0 (f_nch f)).
Definition is_close (f : frame) : bool := f_op f =? websocket_CloseMessage.

Definition frame_eqb (a b : frame) : bool :=
  (f_op a =? f_op b) && Bool.eqb (f_fin a) (f_fin b) && (f_len a =? f_len b) && Nat.eqb (f_nch a) (f_nch b).

(* error values: what a write operation returns *)
Definition e_close_sent : Z := 1.     (* ErrCloseSent *)
Definition e_transport : Z := 2.      (* error of the net.Conn, made sticky by writeFatal *)
Definition e_timeout : Z := 3.        (* errWriteTimeout: lock not obtained before the deadline *)

Inductive winstr :=
| WPrep                       (* prepWrite: return the sticky error if set *)
| WAcq (tmo : bool)           (* <-c.mu ; with tmo: give up with e_timeout if the lock is taken *)
| WTest                       (* err := c.writeErr; if err != nil { return err } *)
| WWrite (fatal : bool) (c : chunk)   (* c.conn.Write; on error [return c.writeFatal(err)] if fatal *)
| WLatch (close : bool)       (* if frameType == CloseMessage { c.writeFatal(ErrCloseSent) } *)
| WRel                        (* c.mu <- true on the paths that took the token (a release dominated by its acquire) *)
| WRelU                       (* c.mu <- true on EVERY path, also those that never took the token (a release
                                 deferred before a conditional acquire) *)
| WEnd                        (* the operation returns to its caller *)
| WCloseT                     (* Conn.Close: close the transport *)
| WBad
| WRecv.                      (* a frame from the peer reaches the reading goroutine -- unless the connection has been
                                 closed: then the reader has ended and nobody handles the frame *)

(* skeleton events *)
Inductive sev := SAcq (tmo : bool) | STest | SWrite (fatal : bool) | SLatch | SRel | SRelEarly | SNop | SBad.
Definition decode_sev (e : string * string) : sev :=
  let k := fst e in let a := snd e in
  if String.eqb k "acquire" then SAcq false
  else if String.eqb k "acquire_timeout" then SAcq true
  else if String.eqb k "test_err" then STest
  else if String.eqb k "write" then SWrite (String.eqb a "fatal")
  else if String.eqb k "latch_close" then (if String.eqb a "ErrCloseSent" then SLatch else SBad)
  else if String.eqb k "release" then SRel
  else if String.eqb k "release_not_dominated_by_acquire" then SRelEarly
  else if String.eqb k "set_deadline" then SNop
  else SBad.
Definition is_nop (e : sev) : bool := match e with SNop => true | _ => false end.
Definition decode_wskel (l : list (string * string)) : list sev :=
  filter (fun e => negb (is_nop e)) (map decode_sev l).

Definition write_skel : list sev := Eval vm_compute in decode_wskel websocket_write_skel.
Definition ctl_skel : list sev := Eval vm_compute in decode_wskel websocket_WriteControl_skel.

(* the decidable discipline for one frame write: acquire, test the sticky error, all transport
   writes (a failure is made sticky), the close-sent latch, release -- in this order *)
Definition ws_safeb (sk : list sev) : bool :=
  match sk with [SAcq _; STest; SWrite true; SLatch; SRel] => true | _ => false end.

(* structural facts about the rest of the write path, also regenerated *)
Fixpoint skel_eqb (a b : list (string * string)) : bool :=
  match a, b with
  | [], [] => true
  | (x1, x2) :: a', (y1, y2) :: b' => String.eqb x1 y1 && String.eqb x2 y2 && skel_eqb a' b'
  | _, _ => false
  end.
Definition site_ok (e : string * string) : bool :=
  (String.eqb (fst e) "Conn.write" && String.eqb (snd e) "c.conn.Write")
  || (String.eqb (fst e) "Conn.WriteControl" && String.eqb (snd e) "c.conn.Write")
  || (String.eqb (fst e) "Upgrader.Upgrade" && String.eqb (snd e) "netConn.Write").   (* handshake, before the Conn is returned *)
Definition repo_structure_ok : bool := Eval vm_compute in
  skel_eqb websocket_writeFatal_skel [("set_if_nil", "writeErr")]%string      (* first error wins *)
  && skel_eqb websocket_prepWrite_skel [("test_err_ret", "writeErr")]%string  (* prepWrite returns the sticky error *)
  && skel_eqb websocket_flushFrame_skel [("call", "c.write")]%string          (* data frames go through Conn.write *)
  && forallb site_ok websocket_transport_write_sites                           (* no other transport write *)
  && forallb (fun e => String.eqb (snd e) "WriteControl") websocket_reader_side_writes   (* the default ping/close
       handlers and the reader's own replies run on the READING goroutine: they must use the control
       path; the message-writer path (WriteMessage/NextWriter) is single-writer *)
  && negb (Nat.eqb (length websocket_reader_side_writes) 0).

(* instructions of one frame write; [tmo] = this call has a deadline that expires while waiting *)
Definition sev_code (tmo : bool) (f : frame) (e : sev) : list winstr :=
  match e with
  | SAcq t => [WAcq (t && tmo)]
  | STest => [WTest]
  | SWrite fatal => map (WWrite fatal) (chunks_of f)
  | SLatch => [WLatch (is_close f)]
  | SRel => [WRel]
  | SRelEarly => []            (* registered here, runs at the end of the call: see frame_code *)
  | SNop => []
  | SBad => [WBad]
  end.
Definition is_early (e : sev) : bool := match e with SRelEarly => true | _ => false end.
Definition frame_code (sk : list sev) (tmo : bool) (f : frame) : list winstr :=
  flat_map (sev_code tmo f) sk ++ (if existsb is_early sk then [WRelU] else []).

Inductive wop :=
| OCtl (tmo : bool) (f : frame)     (* WriteControl *)
| OMsg (fs : list frame)            (* one data message: prepWrite, then its frames *)
| OCloseConn                        (* Conn.Close *)
| OPing (f : frame).                (* a peer Ping arrives: the reading goroutine answers through the default
                                       handler = WriteControl(Pong, payload, now + writeWait); f is the Pong *)
Definition op_code (wsk csk : list sev) (o : wop) : list winstr :=
  match o with
  | OCtl tmo f => frame_code csk tmo f ++ [WEnd]
  | OMsg fs => WPrep :: flat_map (frame_code wsk false) fs ++ [WEnd]
  | OCloseConn => [WCloseT; WEnd]
  | OPing f => WRecv :: frame_code csk false f ++ [WEnd]   (* the handler's deadline (writeWait = 1 s) is taken as never expiring *)
  end.
Definition prog_code (wsk csk : list sev) (ops : list wop) : list winstr :=
  flat_map (op_code wsk csk) ops.

Record wthread := { wcode : list winstr; wfail : option Z }.
Record wstate := {
  wlk : option nat;                       (* who holds c.mu *)
  werr : option Z;                        (* c.writeErr *)
  wtc : bool;                             (* transport closed *)
  wths : list wthread;
  wwire : list (nat * chunk);             (* transport writes that succeeded, newest first *)
  wclosed : list (nat * list chunk);      (* ghost: finished lock regions that wrote, newest first *)
  wopen : list chunk;                     (* ghost: what the current holder has written, newest first *)
  wres : list (nat * option Z);            (* (thread, result) of every returned operation, newest first *)
  wmsg : option nat;                      (* c.writer: the thread that has a data message open (NextWriter .. Close) *)
  wcut : bool }.                          (* an open message was closed by ANOTHER thread's prepWrite: cut short *)

Definition first_wins (cur : option Z) (e : Z) : option Z :=
  match cur with Some x => Some x | None => Some e end.

Definition wstep (s : wstate) (i : nat) : wstate :=
  match nth_error (wths s) i with
  | None => s
  | Some t =>
    match wcode t with
    | [] => s
    | ins :: rest =>
      let adv tf := upd i {| wcode := rest; wfail := tf |} (wths s) in
      let skip := {| wlk := wlk s; werr := werr s; wtc := wtc s; wths := adv (wfail t);
                     wwire := wwire s; wclosed := wclosed s; wopen := wopen s; wres := wres s; wmsg := wmsg s; wcut := wcut s |} in
      match ins with
      | WPrep =>
          (* prepWrite: `if c.writer != nil { c.writer.Close(); c.writer = nil }` -- a message another
             thread has open is closed under its feet -- then the sticky error; NextWriter installs
             the new writer *)
          {| wlk := wlk s; werr := werr s; wtc := wtc s;
             wths := adv (match wfail t with Some e => Some e | None => werr s end);
             wwire := wwire s; wclosed := wclosed s; wopen := wopen s; wres := wres s;
             wmsg := Some i;
             wcut := (match wmsg s with Some j => if Nat.eqb j i then wcut s else true | None => wcut s end) |}
      | WAcq tmo =>
          match wfail t with
          | Some _ => skip
          | None =>
              match wlk s with
              | None => {| wlk := Some i; werr := werr s; wtc := wtc s; wths := adv None;
                           wwire := wwire s; wclosed := wclosed s; wopen := []; wres := wres s; wmsg := wmsg s; wcut := wcut s |}
              | Some _ =>
                  if tmo then {| wlk := wlk s; werr := werr s; wtc := wtc s; wths := adv (Some e_timeout);
                                 wwire := wwire s; wclosed := wclosed s; wopen := wopen s; wres := wres s; wmsg := wmsg s; wcut := wcut s |}
                  else s                                   (* blocked *)
              end
          end
      | WTest =>
          match wfail t with
          | Some _ => skip
          | None => {| wlk := wlk s; werr := werr s; wtc := wtc s; wths := adv (werr s);
                       wwire := wwire s; wclosed := wclosed s; wopen := wopen s; wres := wres s; wmsg := wmsg s; wcut := wcut s |}
          end
      | WWrite fatal c =>
          match wfail t with
          | Some _ => skip
          | None =>
              if wtc s then
                {| wlk := wlk s; werr := (if fatal then first_wins (werr s) e_transport else werr s);
                   wtc := wtc s; wths := adv (Some e_transport);
                   wwire := wwire s; wclosed := wclosed s; wopen := wopen s; wres := wres s; wmsg := wmsg s; wcut := wcut s |}
              else
                {| wlk := wlk s; werr := werr s; wtc := wtc s; wths := adv None;
                   wwire := (i, c) :: wwire s; wclosed := wclosed s;
                   wopen := (match wlk s with
                             | Some h => if Nat.eqb h i then c :: wopen s else wopen s
                             | None => wopen s end);
                   wres := wres s; wmsg := wmsg s; wcut := wcut s |}
          end
      | WLatch b =>
          match wfail t with
          | Some _ => skip
          | None => {| wlk := wlk s; werr := (if b then first_wins (werr s) e_close_sent else werr s);
                       wtc := wtc s; wths := adv None;
                       wwire := wwire s; wclosed := wclosed s; wopen := wopen s; wres := wres s; wmsg := wmsg s; wcut := wcut s |}
          end
      (* The lock is a channel of capacity 1 holding one token: [wlk = None] = the token is in the
         channel, [wlk = Some h] = thread h took it.  A release is the send `c.mu <- true`: it puts a
         token back if there is none, and BLOCKS FOREVER when the channel is full. *)
      | WRel =>
          match wlk s with
          | Some h =>
              if Nat.eqb h i then
                {| wlk := None; werr := werr s; wtc := wtc s; wths := adv (wfail t);
                   wwire := wwire s;
                   wclosed := (match wopen s with [] => wclosed s | _ => (i, rev (wopen s)) :: wclosed s end);
                   wopen := []; wres := wres s; wmsg := wmsg s; wcut := wcut s |}
              else
                match wfail t with
                | Some _ => skip          (* this path did not take the token: no send here *)
                | None =>                 (* it took the token, which was handed back behind its back and
                                             taken again by h: the send fills the channel *)
                    {| wlk := None; werr := werr s; wtc := wtc s; wths := adv None;
                       wwire := wwire s; wclosed := wclosed s; wopen := wopen s; wres := wres s; wmsg := wmsg s; wcut := wcut s |}
                end
          | None =>
              match wfail t with
              | Some _ => skip
              | None => s                 (* took the token, but the channel is full again: blocked forever *)
              end
          end
      | WRelU =>
          match wlk s with
          | Some _ =>
              {| wlk := None; werr := werr s; wtc := wtc s; wths := adv (wfail t);
                 wwire := wwire s; wclosed := wclosed s; wopen := wopen s; wres := wres s; wmsg := wmsg s; wcut := wcut s |}
          | None => s                     (* the channel is full: blocked forever *)
          end
      | WEnd =>
          {| wlk := wlk s; werr := werr s; wtc := wtc s; wths := adv None;
             wwire := wwire s; wclosed := wclosed s; wopen := wopen s; wres := (i, wfail t) :: wres s;
             wmsg := (match wmsg s with Some j => if Nat.eqb j i then None else Some j | None => None end);
             wcut := wcut s |}
      | WCloseT =>
          {| wlk := wlk s; werr := werr s; wtc := true; wths := adv (wfail t);
             wwire := wwire s; wclosed := wclosed s; wopen := wopen s; wres := wres s; wmsg := wmsg s; wcut := wcut s |}
      | WBad => skip
      | WRecv =>
          {| wlk := wlk s; werr := werr s; wtc := wtc s;
             wths := adv (match wfail t with Some e => Some e | None => if wtc s then Some e_transport else None end);
             wwire := wwire s; wclosed := wclosed s; wopen := wopen s; wres := wres s; wmsg := wmsg s; wcut := wcut s |}
      end
    end
  end.

Definition wrun : wstate -> list nat -> wstate := srun wstep.

Definition winit (codes : list (list winstr)) : wstate :=
  {| wlk := None; werr := None; wtc := false;
     wths := map (fun c => {| wcode := c; wfail := None |}) codes;
     wwire := []; wclosed := []; wopen := []; wres := []; wmsg := None; wcut := false |}.
Definition winit_ops (wsk csk : list sev) (progs : list (list wop)) : wstate :=
  winit (map (prog_code wsk csk) progs).

(* ---- the wire as frames: greedy check that a chronological wire is whole frames, each written
   by one thread, possibly followed by a proper prefix of one more frame *)
Definition chunk_eqb (a b : chunk) : bool := frame_eqb (fst a) (fst b) && Nat.eqb (snd a) (snd b).

(* consume chunks k, k+1, .. (n of them) of frame f written by t; a wire that ends early is a
   partial tail (allowed); a different chunk in between is an intrusion *)
Fixpoint expect (t : nat) (f : frame) (k n : nat) (w : list (nat * chunk)) : option (list (nat * chunk)) :=
  match n with
  | O => Some w
  | S n' =>
      match w with
      | [] => Some []
      | (t', c) :: w' => if Nat.eqb t' t && chunk_eqb c (f, k) then expect t f (S k) n' w' else None
      end
  end.
Fixpoint wholeb_fuel (fuel : nat) (w : list (nat * chunk)) : bool :=
  match fuel with
  | O => false
  | S fu =>
      match w with
      | [] => true
      | (t, (f, O)) :: _ =>
          match f_nch f with
          | O => false
          | _ => match expect t f 0 (f_nch f) w with Some rest => wholeb_fuel fu rest | None => false end
          end
      | _ => false
      end
  end.
Definition wholeb (w : list (nat * chunk)) : bool := wholeb_fuel (S (length w)) w.

(* bounded witness search: two threads, one control frame and one two-chunk data frame *)
Definition cex_frames : frame * frame :=
  ({| f_op := 9; f_fin := true; f_len := 4; f_nch := 1 |}, {| f_op := 2; f_fin := true; f_len := 300; f_nch := 2 |}).
Definition cex_state (wsk csk : list sev) : wstate :=
  winit_ops wsk csk [[OCtl false (fst cex_frames)]; [OMsg [snd cex_frames]]].
Definition corrupt_after (wsk csk : list sev) (sched : list nat) : bool :=
  negb (wholeb (rev (wwire (wrun (cex_state wsk csk) sched)))).
Definition find_cex (wsk csk : list sev) : option (list nat) :=
  let s := cex_state wsk csk in
  match wths s with
  | [a; b] => find_first (corrupt_after wsk csk) (interleavings (length (wcode a)) (length (wcode b)))
  | _ => None
  end.

(* a release deferred BEFORE the deadline-bounded acquire of WriteControl: it also runs on the
   timeout return, which never took the token *)
Definition early_release_skel : list sev := [SRelEarly; SAcq true; STest; SWrite true; SLatch].

(* thread i sits at a release it can never complete *)
Definition rel_blocked (s : wstate) (i : nat) : bool :=
  match nth_error (wths s) i with
  | Some t => match wcode t, wfail t, wlk s with
              | WRel :: _, None, None => true
              | WRelU :: _, _, None => true
              | _, _, _ => false
              end
  | None => false
  end.

(* three threads: a control write whose deadline expires, a second control write, a data writer
   with one two-write frame; the data writer runs a steps, then the two control writers run to the
   end, then the data writer continues *)
Definition cex3_state (wsk csk : list sev) : wstate :=
  winit_ops wsk csk [[OCtl true (fst cex_frames)]; [OCtl false (fst cex_frames)]; [OMsg [snd cex_frames]]].
Definition cex3_sched (a : nat) : list nat := repeat 2%nat a ++ repeat 0%nat 8 ++ repeat 1%nat 8 ++ repeat 2%nat 12.
Definition leaked_after (wsk csk : list sev) (sched : list nat) : bool :=
  let s := wrun (cex3_state wsk csk) sched in
  negb (wholeb (rev (wwire s))) && rel_blocked s 2.
Definition find_cex3 (wsk csk : list sev) : option (list nat) :=
  find_first (leaked_after wsk csk) (map cex3_sched (seq 0 12)).

(* the reader answering a Ping through the MESSAGE path (WriteMessage(PongMessage, ..)) instead of
   WriteControl: its program is a data message consisting of the pong frame.  Two threads: that
   reader and a data writer with a two-frame message; every interleaving is searched for a state
   in which the writer's open message has been cut *)
Definition cex4_state (wsk csk : list sev) (on_message_path : bool) : wstate :=
  let pong := {| f_op := 10; f_fin := true; f_len := 4; f_nch := 1 |} in
  let d1 := {| f_op := 2; f_fin := false; f_len := 16; f_nch := 1 |} in
  let d2 := {| f_op := 0; f_fin := true; f_len := 5; f_nch := 1 |} in
  winit_ops wsk csk [[if on_message_path then OMsg [pong] else OPing pong]; [OMsg [d1; d2]]].
Definition find_cex4 (wsk csk : list sev) (on_message_path : bool) : option (list nat) :=
  let s := cex4_state wsk csk on_message_path in
  match wths s with
  | [a; b] => find_first (fun sc => wcut (wrun s sc)) (interleavings (length (wcode a)) (length (wcode b)))
  | _ => None
  end.

(* ------------------------------------------------------------------ message framing (lengths) *)
(* messageWriter over a write buffer of B payload bytes (len(writeBuf) = B + maxFrameHeaderSize):
   state = (frames so far reversed, opcode of the next frame, bytes buffered) *)
Definition mk_frame (op : Z) (fin : bool) (len : Z) (nch : nat) : frame :=
  {| f_op := op; f_fin := fin; f_len := len; f_nch := nch |}.

Fixpoint mw_copy (fuel : nat) (B : Z) (acc : list frame) (op pos n : Z) : list frame * Z * Z :=
  match fuel with
  | O => (acc, op, pos)
  | S fu =>
      if n <=? 0 then (acc, op, pos)
      else if B - pos <=? 0 then        (* ncopy: buffer full -> flushFrame(false, nil) *)
        let acc' := mk_frame op false pos 1 :: acc in
        let take := Z.min B n in
        mw_copy fu B acc' websocket_continuationFrame take (n - take)
      else
        let take := Z.min (B - pos) n in
        mw_copy fu B acc op (pos + take) (n - take)
  end.

Definition mw_write (server : bool) (B : Z) (st : list frame * Z * Z) (n : Z) : list frame * Z * Z :=
  let '(acc, op, pos) := st in
  if server && (2 * (B + websocket_maxFrameHeaderSize) <? n) then
    (mk_frame op false (pos + n) 2 :: acc, websocket_continuationFrame, 0)   (* flushFrame(false, p) *)
  else mw_copy (S (Z.to_nat n)) B acc op pos n.

(* NextWriter(op); Write(n1); ..; Close() *)
Definition frames_of_writes (server : bool) (B op : Z) (ws : list Z) : list frame :=
  let '(acc, op', pos) := fold_left (mw_write server B) ws ([], op, 0) in
  rev (mk_frame op' true pos 1 :: acc).
(* WriteMessage(op, n bytes) *)
Definition frames_of_message (server : bool) (B op n : Z) : list frame :=
  if server then [mk_frame op true n (if B <? n then 2%nat else 1%nat)]
  else frames_of_writes server B op [n].

(* ------------------------------------------------------------------ harness interface *)
(* case: (server B (thread..) (action..))
     thread  = (op..)   op = (0 tmo opcode len) WriteControl | (1 opcode (n..)) NextWriter/Write../Close
                             | (2 opcode n) WriteMessage | (3) Conn.Close
                             | (4 len) a peer Ping with len payload bytes arrives and the reading goroutine
                               answers it (default ping handler)
     action  = (0 t)        thread t starts its next operation
             | (1 p next)   the transport write thread p is blocked in is let through; the thread
                            seen to obtain the lock next is [next] (-1: none seen)
   Between actions every started thread runs until it blocks: on the lock, in a transport write,
   or at the end of its operation.  The expansion of the actions into a schedule of single
   instructions is computed here; the observation is read off the state the LTS reaches under
   that schedule. *)
Definition sx_op (server : bool) (B : Z) (o : sx) : option wop :=
  match o with
  | SL [SZ 0; SZ tmo; SZ opc; SZ len] => Some (OCtl (negb (tmo =? 0)) (mk_frame opc true len 1))
  | SL [SZ 1; SZ opc; SL ns] =>
      match fold_right (fun x acc => match x, acc with SZ n, Some r => Some (n :: r) | _, _ => None end) (Some []) ns with
      | Some ws => Some (OMsg (frames_of_writes server B opc ws))
      | None => None
      end
  | SL [SZ 2; SZ opc; SZ n] => Some (OMsg (frames_of_message server B opc n))
  | SL [SZ 3] => Some OCloseConn
  | SL [SZ 4; SZ len] => Some (OPing (mk_frame websocket_PongMessage true len 1))
  | SL [SZ 5; SZ _] => Some OCloseConn       (* a transport write fault is armed: from the code's point of view the
                                              transport fails from its next write on (the failure is sticky) *)
  | SL [SZ 6; SZ _] => Some (OPing (mk_frame websocket_CloseMessage true 2 1))   (* a peer Close arrives: the reading
                                              goroutine echoes it through the default close handler (WriteControl) *)
  | SL [SZ 7; SZ n] => Some (OCtl false (mk_frame websocket_CloseMessage true n 1))   (* WritePreparedMessage(Close) *)
  | _ => None
  end.

Fixpoint sx_ops (server : bool) (B : Z) (l : list sx) : option (list wop) :=
  match l with
  | [] => Some []
  | o :: r => match sx_op server B o, sx_ops server B r with
              | Some a, Some b => Some (a :: b) | _, _ => None end
  end.
Fixpoint sx_threads (server : bool) (B : Z) (l : list sx) : option (list (list wop)) :=
  match l with
  | [] => Some []
  | SL ops :: r => match sx_ops server B ops, sx_threads server B r with
                   | Some a, Some b => Some (a :: b) | _, _ => None end
  | _ => None
  end.

Record mstate := {
  m_s : wstate;
  m_bud : list nat;            (* instructions thread k may still execute of its started operation *)
  m_ops : list (list nat);     (* lengths of the operations thread k has not started yet *)
  m_sched : list nat }.        (* the schedule produced so far, newest first *)

Definition runnable (m : mstate) (i : nat) : bool :=
  match nth_error (m_bud m) i, nth_error (wths (m_s m)) i with
  | Some (S _), Some t =>
      match wcode t with
      | WWrite _ _ :: _ => match wfail t with Some _ => true | None => false end   (* waits for the transport *)
      | WAcq tmo :: _ =>
          match wfail t, wlk (m_s m) with
          | None, Some _ => tmo                                                 (* blocked unless it times out *)
          | _, _ => true
          end
      | [] => false
      | _ => true
      end
  | _, _ => false
  end.

Definition micro (m : mstate) (i : nat) : mstate :=
  {| m_s := wstep (m_s m) i;
     m_bud := match nth_error (m_bud m) i with Some (S b) => upd i b (m_bud m) | _ => m_bud m end;
     m_ops := m_ops m; m_sched := i :: m_sched m |}.

Fixpoint settle (fuel : nat) (order : list nat) (m : mstate) : mstate :=
  match fuel with
  | O => m
  | S fu => match find_first (runnable m) order with
            | Some i => settle fu order (micro m i)
            | None => m
            end
  end.

Definition pending_write (m : mstate) (p : nat) : bool :=
  match nth_error (m_bud m) p, nth_error (wths (m_s m)) p with
  | Some (S _), Some t => match wcode t, wfail t with WWrite _ _ :: _, None => true | _, _ => false end
  | _, _ => false
  end.

Definition action (fuel : nat) (n : nat) (m : mstate) (a : sx) : mstate :=
  match a with
  | SL [SZ 0; SZ t] =>
      let t' := Z.to_nat t in
      match nth_error (m_bud m) t', nth_error (m_ops m) t' with
      | Some O, Some (len :: rest) =>
          settle fuel (t' :: seq 0 n)
            {| m_s := m_s m; m_bud := upd t' len (m_bud m); m_ops := upd t' rest (m_ops m); m_sched := m_sched m |}
      | _, _ => m
      end
  | SL [SZ 1; SZ p; SZ next] =>
      let p' := Z.to_nat p in
      if pending_write m p' then
        settle fuel ((if next <? 0 then [] else [Z.to_nat next]) ++ seq 0 n) (micro m p')
      else m
  | _ => m
  end.

Definition op_len (wsk csk : list sev) (o : wop) : nat := length (op_code wsk csk o).

Definition macro_sched (wsk csk : list sev) (progs : list (list wop)) (acts : list sx) : list nat :=
  let n := length progs in
  let total := fold_right (fun p acc => (length (prog_code wsk csk p) + acc)%nat) 1%nat progs in
  let m0 := {| m_s := winit_ops wsk csk progs; m_bud := repeat O n;
               m_ops := map (map (op_len wsk csk)) progs; m_sched := [] |} in
  rev (m_sched (fold_left (action total n) acts m0)).

(* the wire grouped into runs of consecutive chunks of one frame by one thread:
   (thread, frame, chunks seen) in chronological order *)
Fixpoint group_wire (w : list (nat * chunk)) (acc : list (nat * frame * nat)) : list (nat * frame * nat) :=
  match w with
  | [] => rev acc
  | (t, (f, k)) :: r =>
      match k, acc with
      | S _, (t', f', n) :: acc' =>
          if Nat.eqb t t' && frame_eqb f f' && Nat.eqb k n then group_wire r ((t', f', S n) :: acc')
          else group_wire r ((t, f, 1%nat) :: acc)
      | _, _ => group_wire r ((t, f, 1%nat) :: acc)
      end
  end.

Definition obs_frame (e : nat * frame * nat) : sx :=
  let '(t, f, n) := e in
  SL [snat t; SZ (f_op f); sbool (f_fin f); SZ (f_len f); sbool (Nat.eqb n (f_nch f))].
Definition obs_res (e : nat * option Z) : sx := SZ (match snd e with None => 0 | Some c => c end).

(* what the driver can see of a ping answered by the reader: the pong is on the wire (0) or not (9) *)
Fixpoint obs_results (ops : list wop) (rs : list (nat * option Z)) : list sx :=
  match ops, rs with
  | OPing _ :: ops', r :: rs' => SZ (match snd r with None => 0 | Some _ => 9 end) :: obs_results ops' rs'
  | _ :: ops', r :: rs' => obs_res r :: obs_results ops' rs'
  | _, _ => []
  end.

Definition run_c15 (c : sx) : sx :=
  match c with
  | SL [SZ server; SZ B; SL threads; SL acts] =>
      let srv := negb (server =? 0) in
      match sx_threads srv B threads with
      | None => bad_case
      | Some progs =>
          let sched := macro_sched write_skel ctl_skel progs acts in
          let s := wrun (winit_ops write_skel ctl_skel progs) sched in
          SL [SZ 0;
              SL (map obs_frame (group_wire (rev (wwire s)) []));
              SL (map (fun t => SL (obs_results (nth t progs []) (filter (fun e => Nat.eqb (fst e) t) (rev (wres s)))))
                      (seq 0 (length progs)));
              sbool (wholeb (rev (wwire s)))]
      end
  | _ => bad_case
  end.
