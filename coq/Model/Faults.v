(* C08: the I/O paths of rtmp and flv over the transport model of Lib/IO.v.

   FLV     the demuxer / muxer methods (flv/flv.go 89-134, 162-218) over a faulty transport; the
           byte-level parsers and writers are the flv builder's (Model/Flv.v: parse_header,
           parse_tag_header, strip_pts, mux_header, mux_tag_header, mux_tag_trailer), only the
           transport under them is replaced by Lib/IO.v's.
   RTMP    the read path as the sequence of io.ReadFull / binary.Read / io.CopyN calls it makes on
           a well-formed chunk stream (a "read plan": handshake 3 x CopyN on the raw transport,
           then per chunk: basic header 1+1+1 bytes, message header 11/7/3/0, extended timestamp
           4, payload min(chunk size, rest), all through bufio.Reader), grouped into items; the
           write path as the bufio.Writer writes and the Flush of WriteMessage.
           The data-dependent chunk reader itself is Model/RtmpChunk.v (rtmpchunk builder).
   (1 ...) errors-package nestings -> Model/ErrorsPkg.v.
   Definitions only. *)
From Verif Require Import Lib.Base Lib.Sx Lib.Err Lib.IO Model.ErrorsPkg.
From Verif Require Model.Flv.
From Verif Require Import Gen.Gen_rtmp.


(* ============================== generic: read plans ============================== *)
Inductive rop : Type :=
| RF (n : N)      (* io.ReadFull / binary.Read of n bytes *)
| CN (n : N).     (* io.CopyN of n bytes into a bytes.Buffer *)

Definition rop_size (o : rop) : N := match o with RF n => n | CN n => n end.
Definition copy_ask : N := 512%N.      (* bytes.MinRead: first spare capacity of a bytes.Buffer *)

(* what the FLV read operations return *)
Inductive flv_item : Type :=
| IHeader (ver : N) (hv ha : bool)
| ITagHeader (ty sz ts : N)
| ITagBody (b : bytes).

Section Plans.
  Variable S : Type.
  Variable rd : N -> S -> bytes * option N * S.

  Definition run_rop (o : rop) (st : S) : res (bytes * S) :=
    match o with
    | RF n => read_full S rd n st
    | CN n => copy_n S rd copy_ask n st
    end.

  (* one item: all its reads, in order; the bytes read are returned in order *)
  Fixpoint run_item (ops : list rop) (st : S) (acc : list bytes) : res (list bytes * S) :=
    match ops with
    | [] => Ok (frev acc, st)
    | o :: t => match run_rop o st with
                | Ok (b, st') => run_item t st' (b :: acc)
                | Err e => Err e
                | Panic p => Panic p
                end
    end.

  (* items until the first error: (items completed, their bytes; error; state) *)
  Fixpoint run_items (items : list (list rop)) (st : S) (done : list (list bytes))
    : list (list bytes) * option N * S :=
    match items with
    | [] => (frev done, None, st)
    | it :: t => match run_item it st [] with
                 | Ok (bs, st') => run_items t st' (bs :: done)
                 | Err e => (frev done, Some e, st)
                 | Panic p => (frev done, Some (2000 + p)%N, st)
                 end
    end.

  (* ============================== FLV demuxer ============================== *)
  (* every method: h := &bytes.Buffer{}; io.CopyN(h, v.r, n); parse h.Bytes().
     Errors of the parser (bad signature) are not transport errors: 100 + code. *)
  Definition flv_via {A} (n : N) (parse : bytes -> res A) (st : S) : res (A * S) :=
    match copy_n S rd copy_ask n st with
    | Ok (p, st') => match parse p with
                     | Ok v => Ok (v, st')
                     | Err e => Err (100 + e)%N
                     | Panic s => Panic s
                     end
    | Err e => Err e
    | Panic s => Panic s
    end.

  Definition flv_read_header := flv_via 13 Flv.parse_header.
  Definition flv_read_tag_header := flv_via 11 Flv.parse_tag_header.
  Definition flv_read_tag (n : N) := flv_via (u32 (n + 4)) Flv.strip_pts.

  (* the session of the package example: ReadTagHeader, ReadTag(size), ... until an error *)
  Fixpoint flv_read_tags (fuel : nat) (st : S) (acc : list flv_item) : list flv_item * N :=
    match fuel with
    | O => (frev acc, id_NoProgress)
    | Datatypes.S f =>
        match flv_read_tag_header st with
        | Err e => (frev acc, e)
        | Panic p => (frev acc, 2000 + p)%N
        | Ok ((ty, sz, ts), s1) =>
            match flv_read_tag sz s1 with
            | Err e => (frev (ITagHeader ty sz ts :: acc), e)
            | Panic p => (frev (ITagHeader ty sz ts :: acc), 2000 + p)%N
            | Ok (b, s2) => flv_read_tags f s2 (ITagBody b :: ITagHeader ty sz ts :: acc)
            end
        end
    end.

  Definition flv_read_session (fuel : nat) (st : S) : list flv_item * N :=
    match flv_read_header st with
    | Err e => ([], e)
    | Panic p => ([], 2000 + p)%N
    | Ok ((ver, hv, ha), s1) => flv_read_tags fuel s1 [IHeader ver hv ha]
    end.
End Plans.


(* ============================== FLV muxer ============================== *)
(* WriteHeader: one io.Copy; WriteTag: io.Copy of the 11-byte header, of the body (no Write
   call when empty), of the 4-byte previous-tag-size; the first error is returned as is *)
Definition flv_write_header (hv ha : bool) (w : wtr) : option N * wtr :=
  copy_bytes (Flv.mux_header hv ha) w.

Definition flv_write_tag (t : Flv.tag) (w : wtr) : option N * wtr :=
  match copy_bytes (Flv.mux_tag_header t) w with
  | (Some e, w1) => (Some e, w1)
  | (None, w1) =>
      match copy_bytes (Flv.t_body t) w1 with
      | (Some e, w2) => (Some e, w2)
      | (None, w2) => copy_bytes (Flv.mux_tag_trailer t) w2
      end
  end.

(* operations until the first error: (operations completed, error, transport) *)
Fixpoint flv_write_tags (tags : list Flv.tag) (w : wtr) (n : N) : N * option N * wtr :=
  match tags with
  | [] => (n, None, w)
  | t :: r => match flv_write_tag t w with
              | (Some e, w') => (n, Some e, w')
              | (None, w') => flv_write_tags r w' (N.succ n)
              end
  end.

Definition flv_write_session (hv ha : bool) (tags : list Flv.tag) (w : wtr) : N * option N * wtr :=
  match flv_write_header hv ha w with
  | (Some e, w') => (0%N, Some e, w')
  | (None, w') => flv_write_tags tags w' 1%N
  end.

(* ============================== RTMP read plan ============================== *)
(* what the harness case says about one message; [rm_set] = the chunk size a Set Chunk Size
   message announces (0: not such a message) *)
Record rmsg : Type := mk_rmsg { rm_fmt : N; rm_cid : N; rm_type : N; rm_ts : N; rm_len : N; rm_set : N }.

Definition EXT : N := Z.to_N rtmp_extendedTimestamp.
Definition DEFCHUNK : N := Z.to_N rtmp_defaultChunkSize.
Definition hdr_size (fmt : N) : N := Z.to_N (nth (N.to_nat fmt) rtmp_tbl_message_header_sizes 0%Z).

(* readBasicHeader: one byte, a second one for the 2-byte form (cid 64..319), a third one
   for the 3-byte form -- each a binary.Read of a uint8 *)
Definition bh_len (cid : N) : N := if (cid <=? 63)%N then 1 else if (cid <=? 319)%N then 2 else 3.
Definition bh_reads (cid : N) : list rop := repeat (RF 1) (N.to_nat (bh_len cid)).
Definition ext_reads (ext : bool) : list rop := if ext then [RF 4] else [].

(* the chunks after the first: basic header (type 3: no message header), extended timestamp
   again when the chunk stream has one, payload *)
Fixpoint cont_reads (fuel : nat) (cid : N) (ext : bool) (cs rem : N) : list rop :=
  match fuel with
  | O => []
  | Datatypes.S f =>
      if (rem =? 0)%N then []
      else let n := N.min cs rem in
           bh_reads cid ++ RF 0 :: ext_reads ext ++ RF n :: cont_reads f cid ext cs (rem - n)%N
  end.

Definition msg_reads (cs : N) (m : rmsg) : list rop :=
  let ext := (EXT <=? rm_ts m)%N in
  bh_reads (rm_cid m) ++ RF (hdr_size (rm_fmt m)) :: ext_reads ext ++
  (if (rm_len m =? 0)%N then []
   else let n := N.min cs (rm_len m) in
        RF n :: cont_reads (Datatypes.S (N.to_nat (rm_len m / cs))) (rm_cid m) ext cs (rm_len m - n)%N).

Definition next_chunk_size (cs : N) (m : rmsg) : N := if (rm_set m =? 0)%N then cs else rm_set m.

Fixpoint msgs_plan (cs : N) (ms : list rmsg) : list (list rop) :=
  match ms with
  | [] => []
  | m :: t => msg_reads cs m :: msgs_plan (next_chunk_size cs m) t
  end.

Definition hs_plan : list (list rop) := [[CN 1]; [CN 1536]; [CN 1536]].

(* handshake on the raw transport, then NewProtocol (bufio.Reader) and ReadMessage until the
   first error; one more ReadMessage follows the last message (its first read fails) *)
Definition rtmp_read_session (hs : bool) (ms : list rmsg) (s : stream) : N * N :=
  let '(d1, e1, s1) := if hs then run_items stream tr_read hs_plan s [] else ([], None, s) in
  match e1 with
  | Some e => (N.of_nat (length d1), e)
  | None =>
      let '(d2, e2, _) := run_items (bufr stream) (br_read stream tr_read)
                            (msgs_plan DEFCHUNK ms ++ [[RF 1]]) (bufr_new s1) [] in
      (N.of_nat (length d1 + length d2), match e2 with Some e => e | None => 1000%N end)
  end.

(* ---- what a plan yields on k bytes followed by the terminal error t, computed directly ----
   (Proofs/Faults.v proves that rtmp_read_session returns exactly this for every sticky stream
   that delivers k bytes, however segmented: rtmp_read_session_spec.  The correspondence run uses it
   for long wires, where simulating the transport for every cut offset would cost wire x offsets.) *)
Definition short_code (o : rop) (a t : N) : N :=
  match o with
  | RF _ => if (a =? 0)%N then t else if (t =? id_EOF)%N then id_UnexpectedEOF else t
  | CN _ => t
  end.
Fixpoint item_outcome (ops : list rop) (a t : N) : N + N :=
  match ops with
  | [] => inl a
  | o :: r => if (rop_size o <=? a)%N then item_outcome r (a - rop_size o)%N t
              else inr (short_code o a t)
  end.
Fixpoint plan_outcome (items : list (list rop)) (a t : N) (n : N) : N * option N :=
  match items with
  | [] => (n, None)
  | it :: r => match item_outcome it a t with
               | inl a' => plan_outcome r a' t (N.succ n)
               | inr e => (n, Some e)
               end
  end.
Definition rtmp_read_outcome (hs : bool) (ms : list rmsg) (k t : N) : N * N :=
  let (n, e) := plan_outcome ((if hs then hs_plan else []) ++ msgs_plan DEFCHUNK ms ++ [[RF 1]]) k t 0%N in
  (n, match e with Some x => x | None => 1000%N end).

(* the same session over a transport whose fault is transient (Lib/IO.v tr_read_t) *)
Definition rtmp_read_session_t (hs : bool) (ms : list rmsg) (s : stream) : N * N :=
  let '(d1, e1, s1) := if hs then run_items stream tr_read_t hs_plan s [] else ([], None, s) in
  match e1 with
  | Some e => (N.of_nat (length d1), e)
  | None =>
      let '(d2, e2, _) := run_items (bufr stream) (br_read stream tr_read_t)
                            (msgs_plan DEFCHUNK ms ++ [[RF 1]]) (bufr_new s1) [] in
      (N.of_nat (length d1 + length d2), match e2 with Some e => e | None => 1000%N end)
  end.

(* bytes of the wire a plan reads *)
Definition plan_total (items : list (list rop)) : N :=
  fold_right (fun it a => fold_right (fun o b => rop_size o + b)%N a it) 0%N items.

(* ============================== RTMP write plan ============================== *)
(* WriteMessage: for each chunk io.Copy(v.w, header) and io.Copy(v.w, payload part) into the
   bufio.Writer, then Flush; the first error ends the operation *)
Fixpoint bw_copies (pieces : list bytes) (b : bufw) : option N * bufw :=
  match pieces with
  | [] => (None, b)
  | p :: t => match bw_copy_bytes p b with
              | (Some e, b') => (Some e, b')
              | (None, b') => bw_copies t b'
              end
  end.

Definition rtmp_write_message (pieces : list bytes) (b : bufw) : option N * bufw :=
  match bw_copies pieces b with
  | (Some e, b') => (Some e, b')
  | (None, b') => bw_flush b'
  end.

(* messages until the first error: (messages written, error, writer) *)
Fixpoint rtmp_write_ops (ops : list (list bytes)) (b : bufw) (n : N) : N * option N * bufw :=
  match ops with
  | [] => (n, None, b)
  | o :: t => match rtmp_write_message o b with
              | (Some e, b') => (n, Some e, b')
              | (None, b') => rtmp_write_ops t b' (N.succ n)
              end
  end.

(* the pieces WriteMessage copies into the bufio.Writer: c0 header, payload part, then c3
   header, payload part, ...; nothing at all for an empty payload *)
Fixpoint chunk_sizes (fuel : nat) (h0 h3 cs rem : N) (first : bool) : list N :=
  match fuel with
  | O => []
  | Datatypes.S f =>
      if (rem =? 0)%N then []
      else let n := N.min cs rem in
           (if first then h0 else h3) :: n :: chunk_sizes f h0 h3 cs (rem - n)%N false
  end.

Definition msg_write_sizes (cs : N) (m : rmsg) : list N :=
  let e := if (EXT <=? rm_ts m)%N then 4%N else 0%N in
  chunk_sizes (Datatypes.S (N.to_nat (rm_len m / cs))) (bh_len (rm_cid m) + 11 + e)%N
              (bh_len (rm_cid m) + e)%N cs (rm_len m) true.

(* the content of the wire does not matter to the write path: zero bytes of the right sizes *)
Definition zeros (n : N) : bytes := repeat 0%N (N.to_nat n).
Fixpoint msgs_write_ops (cs : N) (ms : list rmsg) : list (list bytes) :=
  match ms with
  | [] => []
  | m :: t => map zeros (msg_write_sizes cs m) :: msgs_write_ops (next_chunk_size cs m) t
  end.

(* handshake: three io.Copy on the raw transport *)
Fixpoint raw_copies (sizes : list N) (w : wtr) (n : N) : N * option N * wtr :=
  match sizes with
  | [] => (n, None, w)
  | k :: t => match copy_bytes (repeat 0%N (N.to_nat k)) w with
              | (Some e, w') => (n, Some e, w')
              | (None, w') => raw_copies t w' (N.succ n)
              end
  end.

Definition rtmp_write_session (hs : bool) (ms : list rmsg) (w : wtr) : N * option N * wtr :=
  let '(n1, e1, w1) := if hs then raw_copies [1; 1536; 1536]%N w 0%N else (0%N, None, w) in
  match e1 with
  | Some e => (n1, Some e, w1)
  | None => let '(n2, e2, b) := rtmp_write_ops (msgs_write_ops DEFCHUNK ms) (bufw_new w1) n1 in
            (n2, e2, bw_under b)
  end.

(* ============================== RTMP public write entry points ============================== *)
(* An operation of a write session goes through WriteMessage directly, or through WritePacket with
   a packet of some kind (0 connect, 1 createStream, 2 connect response, 3 createStream response,
   4 call, 5 publish, 6 play, 7 SetChunkSize, 8 WindowAcknowledgementSize, 9 SetPeerBandwidth,
   10 UserControl), transaction id [tid], and [named] = the CommandName is not empty.

   rtmp.go, WritePacket:
       m.Payload = pkt.MarshalBinary(); m.MessageType, m.streamID, m.betterCid = ...
       if err = v.onPacketWriten(m, pkt); err != nil { return WithMessage(err, "on write packet") }
       if err = v.WriteMessage(m); err != nil {
           v.onPacketWriteFailed(pkt)
           return oe.WithMessage(err, "write message")      -- the WriteMessage error, one more layer
       }
   requestTransaction yields (tid, name) for ConnectAppPacket / CreateStreamPacket only;
   onPacketWriten registers transactions[tid] = name when tid > 0 && len(name) > 0 (never fails);
   onPacketWriteFailed deletes transactions[tid] under the same condition.
   Errors are cause ids here (as everywhere on the write side): WithMessage keeps the cause. *)
Inductive wentry : Type := ViaMessage | ViaPacket (kind tid : N) (named : bool).

Definition request_tid (e : wentry) : option N :=
  match e with
  | ViaPacket kind tid named =>
      if ((kind =? 0)%N || (kind =? 1)%N) && (0 <? tid)%N && named then Some tid else None
  | ViaMessage => None
  end.
Definition entry_kind (e : wentry) : N := match e with ViaPacket k _ _ => k | ViaMessage => 0%N end.

(* the transactions map: tid -> command (the packet kind stands for its name) *)
Definition txs : Type := list (N * N).
Definition tx_del (tid : N) (t : txs) : txs := filter (fun p => negb (fst p =? tid)%N) t.
Definition tx_set (tid v : N) (t : txs) : txs := (tid, v) :: tx_del tid t.
Definition on_packet_writen (e : wentry) (t : txs) : txs :=
  match request_tid e with Some x => tx_set x (entry_kind e) t | None => t end.
Definition on_packet_write_failed (e : wentry) (t : txs) : txs :=
  match request_tid e with Some x => tx_del x t | None => t end.

Definition rtmp_write_entry (e : wentry) (pieces : list bytes) (t : txs) (b : bufw)
  : option N * txs * bufw :=
  match e with
  | ViaMessage => let (oe, b') := rtmp_write_message pieces b in (oe, t, b')
  | ViaPacket _ _ _ =>
      let t1 := on_packet_writen e t in
      match rtmp_write_message pieces b with
      | (Some err, b') => (Some err, on_packet_write_failed e t1, b')
      | (None, b') => (None, t1, b')
      end
  end.

(* operations until the first error: (operations done, error, writer, transactions) *)
Fixpoint rtmp_write_eops (ops : list (wentry * list bytes)) (t : txs) (b : bufw) (n : N)
  : N * option N * bufw * txs :=
  match ops with
  | [] => (n, None, b, t)
  | (e, o) :: r => match rtmp_write_entry e o t b with
                   | (Some err, t', b') => (n, Some err, b', t')
                   | (None, t', b') => rtmp_write_eops r t' b' (N.succ n)
                   end
  end.

Definition rtmp_write_session_e (hs : bool) (ops : list (wentry * rmsg)) (w : wtr)
  : N * option N * wtr * txs :=
  let '(n1, e1, w1) := if hs then raw_copies [1; 1536; 1536]%N w 0%N else (0%N, None, w) in
  match e1 with
  | Some e => (n1, Some e, w1, [])
  | None =>
      let '(n2, e2, b, t) :=
        rtmp_write_eops (combine (map fst ops) (msgs_write_ops DEFCHUNK (map snd ops)))
                        [] (bufw_new w1) n1 in
      (n2, e2, bw_under b, t)
  end.

(* the message WritePacket builds: chunk stream and message type of the packet kind, timestamp 0,
   payload length of MarshalBinary (AMF0: string 3 + n, number 9, null 1, object 1 + sum (2 + key +
   value) + 3); [arg] = length of the one string the harness puts into the packet (tcUrl property of
   the connect command object, property d of the connect response args, call argument, stream name)
   or the integer field of a control packet *)
Definition pkt_name_len (kind : N) : N :=
  match kind with
  | 0 => 7 | 1 => 12 | 2 => 7 | 3 => 7 | 4 => 8 | 5 => 7 | _ => 4
  end%N.
Definition pkt_len (kind tid : N) (named : bool) (arg : N) : N :=
  let nm := (3 + (if named then pkt_name_len kind else 0))%N in
  match kind with
  | 0 => nm + 9 + (1 + (2 + 5 + (3 + arg)) + 3)
  | 1 => nm + 9 + 1
  | 2 => nm + 9 + 4 + (if (arg =? 0) then 0 else 1 + (2 + 1 + (3 + arg)) + 3)
  | 3 => nm + 9 + 1 + 9
  | 4 => nm + 9 + 1 + (if (arg =? 0) then 0 else 3 + arg)
  | 5 => nm + 9 + 1 + (3 + arg) + 7
  | 6 => nm + 9 + 1 + (3 + arg)
  | 7 => 4 | 8 => 4 | 9 => 5
  | _ => if (tid =? 26) then 3 else if (tid =? 3) then 10 else 6
  end%N.
Definition pkt_msg (kind tid : N) (named : bool) (arg : N) : rmsg :=
  let ty := match kind with 7 => 1 | 8 => 5 | 9 => 6 | 10 => 4 | _ => 20 end%N in
  mk_rmsg 0 (if (kind <? 7)%N then 3 else 2)%N ty 0 (pkt_len kind tid named arg)
          (if (kind =? 7)%N then arg else 0%N).

(* ============================== harness interface ============================== *)
Definition sxN (s : sx) : option N := match s with SZ z => Some (Z.to_N z) | _ => None end.
Fixpoint sxNs (l : list sx) : option (list N) :=
  match l with
  | [] => Some []
  | SZ z :: t => match sxNs t with Some r => Some (Z.to_N z :: r) | None => None end
  | _ => None
  end.

(* body = x<hex> | (len seed): byte j = (seed + 31 j) mod 256 *)
Fixpoint fill (n : nat) (v : N) : bytes :=
  match n with O => [] | Datatypes.S k => (v mod 256)%N :: fill k (v + 31)%N end.
Definition sx_body (s : sx) : option bytes :=
  match s with
  | SB b => Some b
  | SL [SZ l; SZ seed] => if (l <=? 16777216)%Z then Some (fill (Z.to_nat l) (Z.to_N seed)) else None
  | _ => None
  end.
Definition sx_body_len (s : sx) : option N :=
  match s with
  | SB b => Some (lenN b)
  | SL [SZ l; SZ _] => if (l <? 16777216)%Z then Some (Z.to_N l) else None   (* as the harness: < 2^24 *)
  | _ => None
  end.

(* offsets / call indices:  (0 lo hi) | (1 k ...) *)
Fixpoint n_range (lo : N) (count : nat) : list N :=
  match count with O => [] | Datatypes.S c => lo :: n_range (N.succ lo) c end.
Definition sx_ks (s : sx) : option (list N) :=
  match s with
  | SL [SZ 0%Z; SZ lo; SZ hi] =>
      Some (n_range (Z.to_N lo) (Datatypes.S (Z.to_nat hi) - Z.to_nat lo))
  | SL (SZ 1%Z :: l) => sxNs l
  | _ => None
  end.

(* cut [b] into Data segments whose sizes cycle through [sizes] (0 = the rest); the last one
   carries the terminal error when [together] *)
Definition next_size (pend all : list N) : N * list N :=
  match pend with
  | k :: r => (k, r)
  | [] => match all with k :: r => (k, r) | [] => (0%N, []) end
  end.
Fixpoint seg_go (fuel : nat) (b : bytes) (pend all : list N) (acc : list bytes) : list bytes :=
  match fuel with
  | O => frev (b :: acc)
  | Datatypes.S f =>
      match b with
      | [] => frev acc
      | _ => let (k, pend') := next_size pend all in
             if (k =? 0)%N then frev (b :: acc)
             else let (a, r) := split_at k b in seg_go f r pend' all (a :: acc)
      end
  end.
Fixpoint seal (l : list bytes) (term : N) (together : bool) : stream :=
  match l with
  | [] => if together then [Last [] term] else [Fault term]
  | [x] => if together then [Last x term] else [Data x; Fault term]
  | x :: t => Data x :: seal t term together
  end.
Definition mk_stream (data : bytes) (sizes : list N) (term : N) (together : bool) : stream :=
  seal (seg_go (Datatypes.S (length data)) data sizes sizes []) term together.

(* transient fault: the same, followed by the rest of the wire in further Data segments *)
Definition mk_stream_t (data rest : bytes) (sizes : list N) (term : N) (together : bool) : stream :=
  mk_stream data sizes term together ++
  map Data (seg_go (Datatypes.S (length rest)) rest sizes sizes []).

(* cause id as the harness prints it: a sentinel id, or -2 for anything else *)
Definition obs_cause (e : N) : sx := if (e <=? 9)%N then sN e else SZ (-2)%Z.
Definition obs_ocause (e : option N) : sx := match e with None => SZ (-1)%Z | Some x => obs_cause x end.

Definition zbool (z : Z) : bool := negb (z =? 0)%Z.
Definition first_n (k : N) (b : bytes) : bytes := fst (split_at k b).

(* ---- FLV ---- *)
Definition sx_flv_tag (x : sx) : option Flv.tag :=
  match x with
  | SL [SZ ty; SZ ts; body] =>
      match sx_body body with Some b => Some (Flv.mk_tag (Z.to_N ty) (Z.to_N ts) b) | None => None end
  | _ => None
  end.
Fixpoint sx_flv_tags (l : list sx) : option (list Flv.tag) :=
  match l with
  | [] => Some []
  | x :: t => match sx_flv_tag x, sx_flv_tags t with Some a, Some r => Some (a :: r) | _, _ => None end
  end.

(* mode: bit 0 = the error arrives together with the last bytes; mode >= 2 = transient fault *)
Definition run_flv_read (hv ha : bool) (tags : list Flv.tag) (term : N) (mode : Z)
                        (sizes ks : list N) : sx :=
  let wire := Flv.mux hv ha tags in
  let fuel := Datatypes.S (length tags) in
  let together := Z.odd mode in
  let transient := (2 <=? mode)%Z && negb (term =? 0)%N in
  s_ok (map (fun k =>
               let '(items, e) :=
                 if transient then
                   let (a, r) := split_at k wire in
                   flv_read_session stream tr_read_t fuel (mk_stream_t a r sizes term together)
                 else flv_read_session stream tr_read fuel
                        (mk_stream (first_n k wire) sizes term together) in
               SL [snat (length items); obs_cause e]) ks).

Definition run_flv_write (sticky : bool) (hv ha : bool) (tags : list Flv.tag) (term m : N) (is : list N) : sx :=
  s_ok (map (fun i =>
               let '(n, e, w) := flv_write_session hv ha tags
                                   (wtr_new_s sticky (Some i) m (if (term =? 0)%N then None else Some term)) in
               SL [sN n; obs_ocause e; sN (lenN (wt_received w))]) is).

(* ---- RTMP ---- *)
Definition sx_rmsg (x : sx) : option rmsg :=
  match x with
  | SL [SZ f; SZ cid; SZ ty; SZ ts; SZ _; body] =>
      match sx_body_len body with
      | Some l =>
          let set :=
            if (ty =? rtmp_MessageTypeSetChunkSize)%Z && (4 <=? l)%N then
              match sx_body body with
              | Some (a :: b :: c :: d :: _) => ube4 a b c d
              | _ => 0%N
              end
            else 0%N in
          Some (mk_rmsg (Z.to_N f) (Z.to_N cid) (Z.to_N ty) (Z.to_N ts) l set)
      | None => None
      end
  | _ => None
  end.
Fixpoint sx_rmsgs (l : list sx) : option (list rmsg) :=
  match l with
  | [] => Some []
  | x :: t => match sx_rmsg x, sx_rmsgs t with Some a, Some r => Some (a :: r) | _, _ => None end
  end.

(* the content of the wire is irrelevant to a read plan: k zero bytes *)
Definition run_rtmp_read (hs : bool) (ms : list rmsg) (term : N) (mode : Z)
                         (sizes ks : list N) : sx :=
  let together := Z.odd mode in
  let transient := (2 <=? mode)%Z && negb (term =? 0)%N in
  let total := plan_total ((if hs then hs_plan else []) ++ msgs_plan DEFCHUNK ms) in
  s_ok (map (fun k =>
               let '(n, e) :=
                 if transient then
                   rtmp_read_session_t hs ms
                     (mk_stream_t (repeat 0%N (N.to_nat k)) (repeat 0%N (N.to_nat (total - k))) sizes term together)
                 else if (4096 <? total)%N then rtmp_read_outcome hs ms k term
                 else rtmp_read_session hs ms
                        (mk_stream (repeat 0%N (N.to_nat k)) sizes term together) in
               SL [sN n; obs_cause e]) ks).

(* an operation of a write case: a message (through WriteMessage), or
   (9 kind tid named sid arg seed): WritePacket of the packet described above *)
Definition sx_wop (x : sx) : option (wentry * rmsg) :=
  match x with
  | SL [SZ 9%Z; SZ kind; SZ tid; SZ named; SZ sid; SZ arg; SZ seed] =>
      let k := Z.to_N kind in
      let u32 := fun z => (0 <=? z)%Z && (z <=? 4294967295)%Z in
      (* the ranges the harness accepts *)
      if (0 <=? kind)%Z && (k <=? 10)%N && (0 <=? tid)%Z && (tid <=? 65535)%Z && u32 named && u32 sid && u32 arg &&
         ((6 <? k)%N || (arg <=? 65000)%Z) && (0 <=? seed)%Z && (seed <=? 2147483647)%Z then
        Some (ViaPacket k (Z.to_N tid) (zbool named), pkt_msg k (Z.to_N tid) (zbool named) (Z.to_N arg))
      else None
  | _ => match sx_rmsg x with Some m => Some (ViaMessage, m) | None => None end
  end.
Fixpoint sx_wops (l : list sx) : option (list (wentry * rmsg)) :=
  match l with
  | [] => Some []
  | x :: t => match sx_wop x, sx_wops t with Some a, Some r => Some (a :: r) | _, _ => None end
  end.

Definition run_rtmp_write (sticky : bool) (hs : bool) (ops : list (wentry * rmsg)) (term m : N) (is : list N) : sx :=
  s_ok (map (fun i =>
               let '(n, e, w, t) := rtmp_write_session_e hs ops
                                   (wtr_new_s sticky (Some i) m (if (term =? 0)%N then None else Some term)) in
               SL [sN n; obs_ocause e; sN (lenN (wt_received w)); sN (N.of_nat (length t))]) is).

(* an optional trailing stickiness flag of a write case: absent or non-zero = sticky *)
Definition sx_sticky (l : list sx) : bool :=
  match l with [SZ 0%Z] => false | _ => true end.

Definition run_c08 (c : sx) : sx :=
  match c with
  | SL (SZ 1%Z :: args) => run_errors args
  | SL [SZ 2%Z; SZ 0%Z; SZ hv; SZ ha; SL tags; SZ term; SZ mode; SL segs; ks] =>
      match sx_flv_tags tags, sxNs segs, sx_ks ks with
      | Some tg, Some sz, Some kl => run_flv_read (zbool hv) (zbool ha) tg (Z.to_N term) mode sz kl
      | _, _, _ => bad_case
      end
  | SL (SZ 2%Z :: SZ 1%Z :: SZ hv :: SZ ha :: SL tags :: SZ term :: SZ m :: is :: st) =>
      match sx_flv_tags tags, sx_ks is with
      | Some tg, Some il => run_flv_write (sx_sticky st) (zbool hv) (zbool ha) tg (Z.to_N term) (Z.to_N m) il
      | _, _ => bad_case
      end
  | SL [SZ 3%Z; SZ 0%Z; SZ hs; SL msgs; SZ term; SZ mode; SL segs; ks] =>
      match sx_rmsgs msgs, sxNs segs, sx_ks ks with
      | Some ms, Some sz, Some kl => run_rtmp_read (zbool hs) ms (Z.to_N term) mode sz kl
      | _, _, _ => bad_case
      end
  | SL (SZ 3%Z :: SZ 1%Z :: SZ hs :: SL msgs :: SZ term :: SZ m :: is :: st) =>
      match sx_wops msgs, sx_ks is with
      | Some ms, Some il => run_rtmp_write (sx_sticky st) (zbool hs) ms (Z.to_N term) (Z.to_N m) il
      | _, _ => bad_case
      end
  | _ => bad_case
  end.
