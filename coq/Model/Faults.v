(* C08 correspondence entry point: dispatch on the case tag.
   (1 ...) errors-package nesting          -> Model/ErrorsPkg.v
   Definitions only. *)
From Verif Require Import Lib.Base Lib.Sx Lib.Err Model.ErrorsPkg.

Definition run_c08 (c : sx) : sx :=
  match c with
  | SL (SZ 1%Z :: args) => run_errors args
  | _ => bad_case
  end.
