(* Model of json/json.go (C17): the comment-stripping reader.  Definitions only.

   firstMatch, indexEnd, the bufio.Scanner split function of NewCommentReader instantiated with
   the marker tables of NewJsonPlusReader (regenerated from the source: Gen_json), the part of
   bufio.Scanner.Scan (Go 1.23) that the reader exercises -- buffer window start/end/len(buf),
   shifting, doubling up to maxTokenSize, ErrTooLong, ErrNoProgress, advance checks, the atEOF
   protocol -- and commentReader.Read draining the tokens.

   The transport is a list of read segments followed by EOF (fin = 0) or a read error (fin = e).
   Positions and advance are Z (Go int, -1 = not found is [None]); lengths of data are N. *)
From Verif Require Import Lib.Base Lib.Sx.
From Verif Require Import Gen.Gen_json.
Open Scope N_scope.

(* ---- error classes (observation codes) ---- *)
Definition E_NOTMATCH : N := 1.    (* commentNotMatch *)
Definition E_TOOLONG : N := 2.     (* bufio.ErrTooLong *)
Definition E_NOPROGRESS : N := 3.  (* io.ErrNoProgress: > 100 consecutive empty reads *)
Definition E_ADVANCE : N := 4.     (* bufio.ErrNegativeAdvance / ErrAdvanceTooFar *)
Definition E_STUCK : N := 6.       (* a token with advance 0 (Scan would spin / panic "too many empty tokens") *)
Definition E_FUEL : N := 9.        (* model ran out of fuel *)
(* any other code >= 10 is an error injected by the underlying reader *)

(* ---- tables and constants from the source ---- *)
Definition start_matches : list bytes := json_NewJsonPlusReader__startMatches.
Definition end_matches : list bytes := json_NewJsonPlusReader__endMatches.
Definition is_comments : list bool := json_NewJsonPlusReader__isComments.
Definition required_matches : list bool := json_NewJsonPlusReader__requiredMatches.
Definition max_token : N := Z.to_N json_maxTokenSize.     (* v.s.Buffer(nil, maxTokenSize) *)
Definition max_int : N := 9223372036854775807.            (* int is 64 bits on the checked platform *)
Definition start_buf_size : N := 4096.                    (* bufio.startBufSize *)
Definition max_empty_reads : N := 100.                    (* bufio.maxConsecutiveEmptyReads *)
Definition backslash : N := 92.

Definition lenZ (b : bytes) : Z := Z.of_N (lenN b).
Definition is_nil (b : bytes) : bool := match b with [] => true | _ => false end.

(* bytes.HasPrefix(d, p) *)
Fixpoint is_prefix (p d : bytes) : bool :=
  match p, d with
  | [], _ => true
  | x :: p', y :: d' => (x =? y) && is_prefix p' d'
  | _ :: _, [] => false
  end.

(* bytes.Index(d, pat): first position at which pat occurs *)
Fixpoint index (pat d : bytes) {struct d} : option N :=
  if is_prefix pat d then Some 0
  else match d with [] => None | _ :: d' => option_map N.succ (index pat d') end.

(* indexEnd(data, end, escape=true): for i := 0; i < len(data); i++ { if data[i] == '\\' { i++ }
   else if HasPrefix(data[i:], end) { return i } }; return -1 *)
Fixpoint index_esc (e d : bytes) {struct d} : option N :=
  match d with
  | [] => None
  | c :: t =>
      if c =? backslash then
        match t with [] => None | _ :: t' => option_map (N.add 2) (index_esc e t') end
      else if is_prefix e d then Some 0
      else option_map N.succ (index_esc e t)
  end.

Definition index_end (d e : bytes) (escape : bool) : option N :=
  if escape then index_esc e d else index e d.

(* firstMatch(data, flags) (fix 73a5c57): walk the data once; at each position take the first
   flag, in table order, that is a prefix of the rest; stop at the first position that has one.
     for pos = 0; pos < len(data); pos++ { for index = range flags {
       if len(flag) > 0 && flag[0] != data[pos] { continue }
       if bytes.HasPrefix(data[pos:], flag) { return } } }
     return -1, -1 *)
Fixpoint find_flag (d : bytes) (flags : list bytes) (i : nat) : option nat :=
  match flags with
  | [] => None
  | f :: rest =>
      let skip := match f, d with c0 :: _, c :: _ => negb (c0 =? c) | _, _ => false end in
      if skip then find_flag d rest (S i)
      else if is_prefix f d then Some i else find_flag d rest (S i)
  end.
Fixpoint fm_at (d : bytes) (flags : list bytes) (pos : N) : option (N * nat) :=
  match d with
  | [] => None
  | _ :: t => match find_flag d flags O with
              | Some i => Some (pos, i)
              | None => fm_at t flags (N.succ pos)
              end
  end.
Definition first_match (data : bytes) (flags : list bytes) : option (N * nat) := fm_at data flags 0.

(* checked accessors: an out-of-range index or slice bound is a Go run-time panic *)
Definition tbl {A} (l : list A) (i : nat) (site : N) : res A :=
  match nth_error l i with Some a => Ok a | None => Panic site end.
Definition slice_from (d : bytes) (n : Z) (site : N) : res bytes :=
  if (n <? 0)%Z || (lenZ d <? n)%Z then Panic site else Ok (skipn (Z.to_nat n) d).
Definition slice_to (d : bytes) (n : Z) (site : N) : res bytes :=
  if (n <? 0)%Z || (lenZ d <? n)%Z then Panic site else Ok (firstn (Z.to_nat n) d).

(* what the split function returns: (0, nil, nil) = More; (advance, token, nil) = Tok; an error = Err *)
Inductive split_res := More | Tok (adv : Z) (tok : bytes).

Definition split (data : bytes) (atEOF : bool) : res split_res :=
  if atEOF && is_nil data then Ok More
  else match first_match data start_matches with
  | None => if atEOF then Ok (Tok (lenZ data) data) else Ok More
  | Some (pos, i) =>
      let* sm := tbl start_matches i 1 in
      let* lft := slice_from data (Z.of_N pos + lenZ sm)%Z 2 in
      let* em := tbl end_matches i 3 in
      let* isc := tbl is_comments i 4 in
      let* extra :=
         match index_end lft em (negb isc) with
         | Some x => Ok (Some (Z.of_N x))
         | None =>
             if atEOF then
               let* req := tbl required_matches i 5 in
               if req then Err E_NOTMATCH else Ok (Some (lenZ lft - lenZ em)%Z)
             else Ok None
         end in
      match extra with
      | None => Ok More
      | Some extra =>
          let advance := (Z.of_N pos + lenZ sm + extra + lenZ em)%Z in
          if negb isc then let* t := slice_to data advance 7 in Ok (Tok advance t)
          else let* t := slice_to data (Z.of_N pos) 8 in Ok (Tok advance t)
      end
  end.

(* ---- bufio.Scanner state: buf[start:end] = pend, plen = end - start, cap = len(buf) ---- *)
Record sc := { pend : bytes; plen : N; start : N; cap : N }.
Definition sc0 : sc := {| pend := []; plen := 0; start := 0; cap := 0 |}.

(* one underlying Read into buf[end:len(buf)] (space bytes), repeated while it returns (0, nil).
   Returns the bytes read, the remaining segments and the new s.err (None = nil, Some 0 = EOF). *)
Fixpoint read_more (space : N) (loop : N) (segs : list bytes) (fin : N) (dt : bool)
  : bytes * list bytes * option N :=
  match segs with
  | [] => ([], [], Some fin)
  | seg :: rest =>
      match seg with
      | [] => if max_empty_reads <? loop + 1 then ([], rest, Some E_NOPROGRESS)
              else read_more space (loop + 1) rest fin dt
      | _ :: _ =>
          if space =? 0 then
            (* Read(p) with len(p) = 0 returns (0, nil): counted like an empty read; unreachable
               because the buffer is never full when the read loop is entered *)
            ([], segs, Some E_NOPROGRESS)
          else
            (* dt: the underlying reader returns its last bytes together with the final error
               (n > 0, err) instead of (n, nil) followed by (0, err) *)
            let last (a : bytes) := match rest with
                                    | [] => if dt then (a, [], Some fin) else (a, [], None)
                                    | _ => (a, rest, None)
                                    end in
            match takeN space seg with
            | Some (a, r) => match r with [] => last a | _ => (a, r :: rest, None) end
            | None => last seg
            end
      end
  end.

(* setErr: the first error other than EOF sticks *)
Definition set_err (cur : option N) (e : N) : N :=
  match cur with Some c => if c =? 0 then e else c | None => e end.

Definition push (tok : bytes) (out : list bytes) : list bytes :=
  match tok with [] => out | _ => tok :: out end.   (* commentReader.Read skips empty tokens *)

(* commentReader.Read called until it fails, over Scanner.Scan: [out] is the reversed list of the
   non-empty tokens written to the output so far; the result carries the output and how the
   stream ended (Ok tt = io.EOF). *)
Fixpoint drain (fuel : nat) (st : sc) (segs : list bytes) (fin : N) (dt : bool) (serr : option N)
  (out : list bytes) : list bytes * res unit :=
  match fuel with
  | O => (out, Err E_FUEL)
  | S fuel' =>
      let at_eof := match serr with Some _ => true | None => false end in
      let sp := if (0 <? plen st) || at_eof then split (pend st) at_eof else Ok More in
      match sp with
      | Panic s => (out, Panic s)
      | Err e => (out, Err (set_err serr e))
      | Ok (Tok adv tok) =>
          if (adv <? 0)%Z || (Z.of_N (plen st) <? adv)%Z then (out, Err (set_err serr E_ADVANCE))
          else if (adv =? 0)%Z then (out, Err E_STUCK)
          else
            let n := Z.to_N adv in
            let st' := {| pend := skipn (N.to_nat n) (pend st); plen := plen st - n;
                          start := start st + n; cap := cap st |} in
            (* a non-empty token is written to the output buffer, then commentReader.Read tests
               s.Err(): after a read error (not EOF) it returns that error at once and the
               buffered token is never delivered *)
            match serr, tok with
            | Some e, _ :: _ => if e =? 0 then drain fuel' st' segs fin dt serr (push tok out)
                                else (out, Err e)
            | _, _ => drain fuel' st' segs fin dt serr (push tok out)
            end
      | Ok More =>
          match serr with
          | Some e => (out, if e =? 0 then Ok tt else Err e)
          | None =>
              (* shift *)
              let st1 := if (0 <? start st) && ((start st + plen st =? cap st) || (cap st / 2 <? start st))
                         then {| pend := pend st; plen := plen st; start := 0; cap := cap st |} else st in
              (* full: grow or fail *)
              if (start st1 + plen st1 =? cap st1) && ((max_token <=? cap st1) || (max_int / 2 <? cap st1))
              then (out, Err E_TOOLONG)
              else
                let st2 := if start st1 + plen st1 =? cap st1
                           then let ns := cap st1 * 2 in
                                let ns := if ns =? 0 then start_buf_size else ns in
                                {| pend := pend st1; plen := plen st1; start := 0; cap := N.min ns max_token |}
                           else st1 in
                let space := cap st2 - (start st2 + plen st2) in
                let '(got, segs', serr') := read_more space 0 segs fin dt in
                let st3 := {| pend := pend st2 ++ got; plen := plen st2 + lenN got;
                              start := start st2; cap := cap st2 |} in
                drain fuel' st3 segs' fin dt serr' out
          end
      end
  end.

(* ---- the same scanner, one commentReader.Read(p) at a time ----
   scan_tok: the inner loop "for v.s.Scan() { if len(token) > 0 { write; break } }" -- Scanner.Scan
   until the first non-empty token or until it returns false.  The code is the body of [drain];
   the unused fuel is handed back so that a sequence of calls spends fuel exactly like drain. *)
Inductive sres :=
| STok (tok : bytes) (st : sc) (segs : list bytes) (serr : option N)
| SEnd (r : res unit).      (* Scan returned false; r = what s.Err() says (Ok tt = nil) *)

Fixpoint scan_tok (fuel : nat) (st : sc) (segs : list bytes) (fin : N) (dt : bool) (serr : option N)
  : sres * nat :=
  match fuel with
  | O => (SEnd (Err E_FUEL), O)
  | S fuel' =>
      let at_eof := match serr with Some _ => true | None => false end in
      let sp := if (0 <? plen st) || at_eof then split (pend st) at_eof else Ok More in
      match sp with
      | Panic s => (SEnd (Panic s), fuel')
      | Err e => (SEnd (Err (set_err serr e)), fuel')
      | Ok (Tok adv tok) =>
          if (adv <? 0)%Z || (Z.of_N (plen st) <? adv)%Z then (SEnd (Err (set_err serr E_ADVANCE)), fuel')
          else if (adv =? 0)%Z then (SEnd (Err E_STUCK), fuel')
          else
            let n := Z.to_N adv in
            let st' := {| pend := skipn (N.to_nat n) (pend st); plen := plen st - n;
                          start := start st + n; cap := cap st |} in
            match tok with
            | [] => scan_tok fuel' st' segs fin dt serr
            | _ :: _ => (STok tok st' segs serr, fuel')
            end
      | Ok More =>
          match serr with
          | Some e => (SEnd (if e =? 0 then Ok tt else Err e), fuel')
          | None =>
              let st1 := if (0 <? start st) && ((start st + plen st =? cap st) || (cap st / 2 <? start st))
                         then {| pend := pend st; plen := plen st; start := 0; cap := cap st |} else st in
              if (start st1 + plen st1 =? cap st1) && ((max_token <=? cap st1) || (max_int / 2 <? cap st1))
              then (SEnd (Err E_TOOLONG), fuel')
              else
                let st2 := if start st1 + plen st1 =? cap st1
                           then let ns := cap st1 * 2 in
                                let ns := if ns =? 0 then start_buf_size else ns in
                                {| pend := pend st1; plen := plen st1; start := 0; cap := N.min ns max_token |}
                           else st1 in
                let space := cap st2 - (start st2 + plen st2) in
                let '(got, segs', serr') := read_more space 0 segs fin dt in
                let st3 := {| pend := pend st2 ++ got; plen := plen st2 + lenN got;
                              start := start st2; cap := cap st2 |} in
                scan_tok fuel' st3 segs' fin dt serr'
          end
      end
  end.

(* commentReader: v.b (bytes.Buffer) and v.s *)
Record rstate := { rb : bytes; rst : sc; rsegs : list bytes; rserr : option N; rfuel : nat }.

Inductive rd_status := RNil | REnd (r : res unit).   (* err == nil | io.EOF (Ok tt) or an error *)

(* bytes.Buffer.Read(p) on a non-empty buffer: n = copy(p, buf); also (0, nil) for len(p) = 0 *)
Fixpoint deliver (n : N) (b : bytes) : bytes * bytes :=
  match b with
  | [] => ([], [])
  | c :: t => if n =? 0 then ([], b) else let '(a, r) := deliver (n - 1) t in (c :: a, r)
  end.

(* one call Read(p) with len(p) = n *)
Definition read_p (fin : N) (dt : bool) (n : N) (s : rstate) : bytes * rd_status * rstate :=
  match rb s with
  | _ :: _ =>
      let '(a, r) := deliver n (rb s) in
      (a, RNil, {| rb := r; rst := rst s; rsegs := rsegs s; rserr := rserr s; rfuel := rfuel s |})
  | [] =>
      match scan_tok (rfuel s) (rst s) (rsegs s) fin dt (rserr s) with
      | (STok tok st' segs' serr', f') =>
          (* the token is in v.b now; then err = v.s.Err() is tested before the buffer is read *)
          let failed := match serr' with Some e => negb (e =? 0) | None => false end in
          if failed then
            ([], REnd (Err (match serr' with Some e => e | None => 0 end)),
             {| rb := tok; rst := st'; rsegs := segs'; rserr := serr'; rfuel := f' |})
          else
            let '(a, r) := deliver n tok in
            (a, RNil, {| rb := r; rst := st'; rsegs := segs'; rserr := serr'; rfuel := f' |})
      | (SEnd r, f') =>
          ([], REnd r, {| rb := []; rst := rst s; rsegs := rsegs s; rserr := rserr s; rfuel := f' |})
      end
  end.

(* a consumer calling Read with buffers of the given sizes until the first error (io.EOF
   included) or until it stops calling; None = it stopped while the reader had not ended *)
Fixpoint consume (fin : N) (dt : bool) (rds : list N) (s : rstate) (acc : list bytes)
  : list bytes * option (res unit) :=
  match rds with
  | [] => (acc, None)
  | n :: t =>
      let '(a, e, s') := read_p fin dt n s in
      match e with
      | RNil => consume fin dt t s' (push a acc)
      | REnd r => (push a acc, Some r)
      end
  end.

Definition flat (out : list bytes) : bytes := concat (rev out).

Definition drain_fuel (segs : list bytes) : nat :=
  S (S (S (2 * length (concat segs)))).

Definition reader_dt (segs : list bytes) (fin : N) (dt : bool) : bytes * res unit :=
  let '(out, r) := drain (drain_fuel segs) sc0 segs fin dt None [] in (flat out, r).
Definition reader (segs : list bytes) (fin : N) : bytes * res unit := reader_dt segs fin false.

Definition rstate0 (segs : list bytes) : rstate :=
  {| rb := []; rst := sc0; rsegs := segs; rserr := None; rfuel := drain_fuel segs |}.
(* what a consumer with read sizes rds receives, and how it ended (None: it stopped reading) *)
Definition reader_rd (segs : list bytes) (fin : N) (dt : bool) (rds : list N) : bytes * option (res unit) :=
  let '(out, r) := consume fin dt rds (rstate0 segs) [] in (flat out, r).

(* ---- the segmentation-free specification: split applied to the whole remaining input ---- *)
Fixpoint strip_go (fuel : nat) (d : bytes) (out : list bytes) : list bytes * res unit :=
  match fuel with
  | O => (out, Err E_FUEL)
  | S fuel' =>
      match split d true with
      | Panic s => (out, Panic s)
      | Err e => (out, Err e)
      | Ok More => (out, Ok tt)
      | Ok (Tok adv tok) =>
          if (adv <=? 0)%Z || (lenZ d <? adv)%Z then (out, Err E_ADVANCE)
          else strip_go fuel' (skipn (Z.to_nat adv) d) (push tok out)
      end
  end.
Definition strip (d : bytes) : bytes * res unit :=
  let '(out, r) := strip_go (S (S (length d))) d [] in (flat out, r).

(* ---- NewCommentReader with caller-supplied marker tables ----
   The split function and the reader are the same code for every table; the definitions above are
   the instance for the tables of NewJsonPlusReader, about which the theorems are stated.  The
   generic versions below take the tables as an argument (split_t) and the split function as an
   argument (scan_tok_g / read_p_g / consume_g: the bodies of scan_tok / read_p / consume); they
   are what is run against NewCommentReader with other tables, and instantiated with the JSON+
   tables they are the definitions above (Proofs/JsonPlusRead.v, generic_is_json). *)
Record tables := { t_start : list bytes; t_end : list bytes; t_isc : list bool; t_req : list bool }.
Definition json_tables : tables :=
  {| t_start := start_matches; t_end := end_matches; t_isc := is_comments; t_req := required_matches |}.

Definition split_t (tb : tables) (data : bytes) (atEOF : bool) : res split_res :=
  if atEOF && is_nil data then Ok More
  else match first_match data (t_start tb) with
  | None => if atEOF then Ok (Tok (lenZ data) data) else Ok More
  | Some (pos, i) =>
      let* sm := tbl (t_start tb) i 1 in
      let* lft := slice_from data (Z.of_N pos + lenZ sm)%Z 2 in
      let* em := tbl (t_end tb) i 3 in
      let* isc := tbl (t_isc tb) i 4 in
      let* extra :=
         match index_end lft em (negb isc) with
         | Some x => Ok (Some (Z.of_N x))
         | None =>
             if atEOF then
               let* req := tbl (t_req tb) i 5 in
               if req then Err E_NOTMATCH else Ok (Some (lenZ lft - lenZ em)%Z)
             else Ok None
         end in
      match extra with
      | None => Ok More
      | Some extra =>
          let advance := (Z.of_N pos + lenZ sm + extra + lenZ em)%Z in
          if negb isc then let* t := slice_to data advance 7 in Ok (Tok advance t)
          else let* t := slice_to data (Z.of_N pos) 8 in Ok (Tok advance t)
      end
  end.

Section Generic.
  Variable splitf : bytes -> bool -> res split_res.

  Fixpoint scan_tok_g (fuel : nat) (st : sc) (segs : list bytes) (fin : N) (dt : bool) (serr : option N)
    : sres * nat :=
    match fuel with
    | O => (SEnd (Err E_FUEL), O)
    | S fuel' =>
        let at_eof := match serr with Some _ => true | None => false end in
        let sp := if (0 <? plen st) || at_eof then splitf (pend st) at_eof else Ok More in
        match sp with
        | Panic s => (SEnd (Panic s), fuel')
        | Err e => (SEnd (Err (set_err serr e)), fuel')
        | Ok (Tok adv tok) =>
            if (adv <? 0)%Z || (Z.of_N (plen st) <? adv)%Z then (SEnd (Err (set_err serr E_ADVANCE)), fuel')
            else if (adv =? 0)%Z then (SEnd (Err E_STUCK), fuel')
            else
              let n := Z.to_N adv in
              let st' := {| pend := skipn (N.to_nat n) (pend st); plen := plen st - n;
                            start := start st + n; cap := cap st |} in
              match tok with
              | [] => scan_tok_g fuel' st' segs fin dt serr
              | _ :: _ => (STok tok st' segs serr, fuel')
              end
        | Ok More =>
            match serr with
            | Some e => (SEnd (if e =? 0 then Ok tt else Err e), fuel')
            | None =>
                let st1 := if (0 <? start st) && ((start st + plen st =? cap st) || (cap st / 2 <? start st))
                           then {| pend := pend st; plen := plen st; start := 0; cap := cap st |} else st in
                if (start st1 + plen st1 =? cap st1) && ((max_token <=? cap st1) || (max_int / 2 <? cap st1))
                then (SEnd (Err E_TOOLONG), fuel')
                else
                  let st2 := if start st1 + plen st1 =? cap st1
                             then let ns := cap st1 * 2 in
                                  let ns := if ns =? 0 then start_buf_size else ns in
                                  {| pend := pend st1; plen := plen st1; start := 0; cap := N.min ns max_token |}
                             else st1 in
                  let space := cap st2 - (start st2 + plen st2) in
                  let '(got, segs', serr') := read_more space 0 segs fin dt in
                  let st3 := {| pend := pend st2 ++ got; plen := plen st2 + lenN got;
                                start := start st2; cap := cap st2 |} in
                  scan_tok_g fuel' st3 segs' fin dt serr'
            end
        end
    end.

  Definition read_p_g (fin : N) (dt : bool) (n : N) (s : rstate) : bytes * rd_status * rstate :=
    match rb s with
    | _ :: _ =>
        let '(a, r) := deliver n (rb s) in
        (a, RNil, {| rb := r; rst := rst s; rsegs := rsegs s; rserr := rserr s; rfuel := rfuel s |})
    | [] =>
        match scan_tok_g (rfuel s) (rst s) (rsegs s) fin dt (rserr s) with
        | (STok tok st' segs' serr', f') =>
            let failed := match serr' with Some e => negb (e =? 0) | None => false end in
            if failed then
              ([], REnd (Err (match serr' with Some e => e | None => 0 end)),
               {| rb := tok; rst := st'; rsegs := segs'; rserr := serr'; rfuel := f' |})
            else
              let '(a, r) := deliver n tok in
              (a, RNil, {| rb := r; rst := st'; rsegs := segs'; rserr := serr'; rfuel := f' |})
        | (SEnd r, f') =>
            ([], REnd r, {| rb := []; rst := rst s; rsegs := rsegs s; rserr := rserr s; rfuel := f' |})
        end
    end.

  Fixpoint consume_g (fin : N) (dt : bool) (rds : list N) (s : rstate) (acc : list bytes)
    : list bytes * option (res unit) :=
    match rds with
    | [] => (acc, None)
    | n :: t =>
        let '(a, e, s') := read_p_g fin dt n s in
        match e with
        | RNil => consume_g fin dt t s' (push a acc)
        | REnd r => (push a acc, Some r)
        end
    end.
End Generic.

Definition reader_rd_t (tb : tables) (segs : list bytes) (fin : N) (dt : bool) (rds : list N)
  : bytes * option (res unit) :=
  let '(out, r) := consume_g (split_t tb) fin dt rds (rstate0 segs) [] in (flat out, r).

(* ---- documents: token lists decorated with comments ---- *)
Inductive item :=
| Run (b : bytes)      (* punctuation, numbers, literals, white space: no quote, apostrophe, slash *)
| Str (body : bytes)   (* string literal: quote body quote *)
| Line (body : bytes)  (* slash slash body newline *)
| Block (body : bytes) (* slash star body star slash *).

Definition quote : N := 34.
Definition apos : N := 39.
Definition slash : N := 47.
Definition star : N := 42.
Definition nl : N := 10.

Definition render_item (it : item) : bytes :=
  match it with
  | Run b => b
  | Str b => quote :: b ++ [quote]
  | Line b => slash :: slash :: b ++ [nl]
  | Block b => slash :: star :: b ++ [star; slash]
  end.
Definition plain_item (it : item) : bytes :=
  match it with Run b => b | Str b => quote :: b ++ [quote] | _ => [] end.

(* a document and an optional unterminated line comment at the very end *)
Definition render_dec (d : list item) (tail : option bytes) : bytes :=
  concat (map render_item d) ++ match tail with Some b => slash :: slash :: b | None => [] end.
Definition render_plain (d : list item) : bytes := concat (map plain_item d).

(* guards (decidable) *)
Definition run_ok (b : bytes) : bool :=
  forallb (fun c => negb ((c =? quote) || (c =? apos) || (c =? slash))) b.
(* a string body is a sequence of plain bytes (not quote, not backslash) and backslash pairs *)
Fixpoint body_ok (b : bytes) : bool :=
  match b with
  | [] => true
  | c :: t => if c =? backslash then match t with [] => false | _ :: t' => body_ok t' end
              else negb (c =? quote) && body_ok t
  end.
Definition line_ok (b : bytes) : bool := forallb (fun c => negb (c =? nl)) b.
(* the first star-slash of body ++ star-slash is the terminator itself *)
Definition block_ok (b : bytes) : bool :=
  match index [star; slash] (b ++ [star; slash]) with Some k => k =? lenN b | None => false end.
Definition item_ok (it : item) : bool :=
  match it with Run b => run_ok b | Str b => body_ok b | Line b => line_ok b | Block b => block_ok b end.
Definition doc_ok (d : list item) (tail : option bytes) : bool :=
  forallb item_ok d && match tail with Some b => line_ok b | None => true end.

(* ---- harness interface ----
   case (0 (xseg ...) fin rd dt)                  raw input, explicit read segments
   case (1 (item ...) tail (len ...) fin rd dt)
   case (3 (bitem ...) seglen rd)                 a very large document, run-length encoded (see big_plain)
   case (2 tables (xseg ...) fin rd dt)           NewCommentReader with caller-supplied tables (see sx_tables)   document; item = (0 xrun)|(1 xstr)|(2 xline)|(3 xblock),
                                                  tail = () | (xbody); the rendering is cut into
                                                  segments of the given lengths (rest = last segment)
   dt <> 0: the last bytes are returned together with the final error.
   rd: the consumer's buffer sizes, see rds_of; the output is what the consumer has received.
   observation (0 xout) | (1 code xout) | (2); kind 1 appends the guard bit doc_ok *)
Definition obs_of (r : bytes * res unit) (extra : list sx) : sx :=
  match r with
  | (o, Ok _) => SL (SZ 0 :: SB o :: extra)
  | (o, Err e) => SL (SZ 1 :: sN e :: SB o :: extra)
  | (_, Panic _) => s_panic
  end.

Fixpoint sx_segs (l : list sx) : option (list bytes) :=
  match l with
  | [] => Some []
  | SB b :: t => match sx_segs t with Some r => Some (b :: r) | None => None end
  | _ => None
  end.

Fixpoint sx_items (l : list sx) : option (list item) :=
  match l with
  | [] => Some []
  | SL [SZ k; SB b] :: t =>
      match sx_items t with
      | Some r =>
          if (k =? 0)%Z then Some (Run b :: r) else if (k =? 1)%Z then Some (Str b :: r)
          else if (k =? 2)%Z then Some (Line b :: r) else if (k =? 3)%Z then Some (Block b :: r) else None
      | None => None
      end
  | _ => None
  end.

Fixpoint cut (lens : list sx) (d : bytes) : list bytes :=
  match lens with
  | [] => match d with [] => [] | _ => [d] end
  | SZ n :: t => match takeN (Z.to_N n) d with
                 | Some (a, r) => a :: cut t r
                 | None => match d with [] => [] | _ => [d] end
                 end
  | _ :: t => cut t d
  end.

(* the consumer's read sizes: rd = n (buffers of n bytes, as many calls as it takes: at most one
   per input byte plus two) or rd = (calls n1 n2 ...) (the sizes n1 n2 ... cyclically, calls calls) *)
Fixpoint cyc (calls : nat) (pat cur : list sx) : list N :=
  match calls with
  | O => []
  | S c => match cur with
           | SZ n :: t => Z.to_N n :: cyc c pat t
           | _ :: t => cyc c pat t
           | [] => match pat with SZ n :: t => Z.to_N n :: cyc c pat t | _ => [] end
           end
  end.
Definition rds_of (rd : sx) (text : bytes) : option (list N) :=
  match rd with
  | SZ n => Some (repeat (Z.to_N n) (S (S (length text))))
  | SL (SZ calls :: pat) => Some (cyc (Z.to_nat calls) pat pat)
  | _ => None
  end.

Definition obs_rd (r : bytes * option (res unit)) (extra : list sx) : sx :=
  match r with
  | (o, Some (Ok _)) => SL (SZ 0 :: SB o :: extra)
  | (o, Some (Err e)) => SL (SZ 1 :: sN e :: SB o :: extra)
  | (_, Some (Panic _)) => s_panic
  | (o, None) => SL (SZ 4 :: SB o :: extra)        (* the consumer stopped reading first *)
  end.

(* ---- very large documents, described run-length encoded ----
   A body is a list of (pattern, repetitions); the document is never expanded on the model side:
   by theorem c17_strip the reader's output for a guarded document is its undecorated text, and
   of that text the model reports the length and the byte sum, computed from the description
   (Proofs/JsonPlusBig.v: big_obs_sound relates this to the output of [reader_dt] on the expanded
   document).  The implementation is run on the expanded document. *)
Definition rle := list (bytes * N).
Fixpoint rep (p : bytes) (n : nat) : bytes := match n with O => [] | S k => p ++ rep p k end.
Definition expand (r : rle) : bytes := concat (map (fun pc => rep (fst pc) (N.to_nat (snd pc))) r).

Inductive bitem := BRun (r : rle) | BStr (r : rle) | BLine (r : rle) | BBlock (r : rle).
Definition expand_item (b : bitem) : item :=
  match b with BRun r => Run (expand r) | BStr r => Str (expand r) | BLine r => Line (expand r) | BBlock r => Block (expand r) end.

Fixpoint sumN (b : bytes) : N := match b with [] => 0 | c :: t => c + sumN t end.
Definition rle_len (r : rle) : N := fold_right (fun pc acc => lenN (fst pc) * snd pc + acc) 0 r.
Definition rle_sum (r : rle) : N := fold_right (fun pc acc => sumN (fst pc) * snd pc + acc) 0 r.
Definition rle_all (f : bytes -> bool) (r : rle) : bool := forallb (fun pc => f (fst pc)) r.

(* the cheap guard: every pattern is fine on its own (a string pattern ends outside an escape; a
   block comment pattern has no star at all) *)
Definition big_item_ok (b : bitem) : bool :=
  match b with
  | BRun r => rle_all run_ok r
  | BStr r => rle_all body_ok r
  | BLine r => rle_all line_ok r
  | BBlock r => rle_all (forallb (fun c => negb (c =? star))) r
  end.
Definition big_ok (d : list bitem) : bool := forallb big_item_ok d.
Definition bitem_rle (b : bitem) : rle := match b with BRun r | BStr r | BLine r | BBlock r => r end.

(* (length, byte sum) of the undecorated text *)
Definition big_plain (d : list bitem) : N * N :=
  fold_right (fun b acc =>
                match b with
                | BRun r => (rle_len r + fst acc, rle_sum r + snd acc)
                | BStr r => (rle_len r + 2 + fst acc, rle_sum r + 2 * quote + snd acc)
                | _ => acc
                end) (0, 0) d.

Fixpoint sx_rle (l : list sx) : option rle :=
  match l with
  | [] => Some []
  | SL [SB p; SZ n] :: t => match sx_rle t with Some r => Some ((p, Z.to_N n) :: r) | None => None end
  | _ => None
  end.
Fixpoint sx_bitems (l : list sx) : option (list bitem) :=
  match l with
  | [] => Some []
  | SL (SZ k :: body) :: t =>
      match sx_rle body, sx_bitems t with
      | Some r, Some rest =>
          if (k =? 0)%Z then Some (BRun r :: rest) else if (k =? 1)%Z then Some (BStr r :: rest)
          else if (k =? 2)%Z then Some (BLine r :: rest) else if (k =? 3)%Z then Some (BBlock r :: rest) else None
      | _, _ => None
      end
  | _ => None
  end.

Fixpoint sx_bools (l : list sx) : option (list bool) :=
  match l with
  | [] => Some []
  | SZ b :: t => match sx_bools t with Some r => Some (negb (b =? 0)%Z :: r) | None => None end
  | _ => None
  end.
(* tables = ((xstart ...) (xend ...) (iscomment ...) (required ...)), the four arguments of NewCommentReader *)
Definition sx_tables (l : list sx) : option tables :=
  match l with
  | [SL a; SL b; SL c; SL d] =>
      match sx_segs a, sx_segs b, sx_bools c, sx_bools d with
      | Some a', Some b', Some c', Some d' => Some {| t_start := a'; t_end := b'; t_isc := c'; t_req := d' |}
      | _, _, _, _ => None
      end
  | _ => None
  end.

Definition run_c17 (c : sx) : sx :=
  match c with
  | SL [SZ 0; SL segs; SZ fin; rd; SZ dt] =>
      match sx_segs segs with
      | Some s =>
          match rds_of rd (concat s) with
          | Some rds => if wf_bytesb (concat s) then obs_rd (reader_rd s (Z.to_N fin) (negb (dt =? 0)%Z) rds) [] else bad_case
          | None => bad_case
          end
      | None => bad_case
      end
  | SL [SZ 1; SL items; SL tl; SL lens; SZ fin; rd; SZ dt] =>
      match sx_items items, (match tl with [] => Some None | [SB b] => Some (Some b) | _ => None end) with
      | Some d, Some tail =>
          let text := render_dec d tail in
          match rds_of rd text with
          | Some rds =>
              if wf_bytesb text
              then obs_rd (reader_rd (cut lens text) (Z.to_N fin) (negb (dt =? 0)%Z) rds) [sbool (doc_ok d tail)]
              else bad_case
          | None => bad_case
          end
      | _, _ => bad_case
      end
  | SL [SZ 3; SL bitems; SZ _; SZ _] =>
      (* (3 ((kind (xpattern count)...) ...) seglen rdsize): a very large document; observation
         (0 length bytesum) of the output *)
      match sx_bitems bitems with
      | Some d => if big_ok d && forallb (fun b => rle_all wf_bytesb (bitem_rle b)) d
                  then let '(l, sm) := big_plain d in SL [SZ 0; sN l; sN sm] else bad_case
      | None => bad_case
      end
  | SL [SZ 2; SL tbs; SL segs; SZ fin; rd; SZ dt] =>
      (* NewCommentReader with the given tables *)
      match sx_tables tbs, sx_segs segs with
      | Some tb, Some sg =>
          match rds_of rd (concat sg) with
          | Some rds =>
              if wf_bytesb (concat sg) then obs_rd (reader_rd_t tb sg (Z.to_N fin) (negb (dt =? 0)%Z) rds) [] else bad_case
          | None => bad_case
          end
      | _, _ => bad_case
      end
  | _ => bad_case
  end.
