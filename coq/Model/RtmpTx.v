(* Model of RTMP request/response matching with a concurrent writer and reader (C04).
   Definitions only.

   Threads: writers (each a list of request indices, executed through WritePacket), one or more
   readers (ReadMessage; DecodeMessage -> parseAMFObject's lookup+delete), and for every request k
   a peer thread that may answer k once, at any time after k's transport write succeeded.
   The instruction list of one WritePacket and of the three accesses to the transaction table are
   produced from the skeletons tools/repo2coq/gen_skel.go extracts from rtmp/rtmp.go
   (Gen_rtmp.rtmp_WritePacket_skel, rtmp_onPacketWriten_skel, rtmp_onPacketWriteFailed_skel,
   rtmp_parseAMFObject_tx_skel).  Shared state: the table (association list, Go map semantics),
   its mutex, the set of requests handed to the transport, the responses in flight.  A map access
   is two instructions (enter, exit); two threads inside map accesses at the same time set the
   flag [t_raced] -- that is how unsynchronised access shows in the model. *)
From Coq Require Import String.
From Verif Require Import Gen.Gen_rtmp.
From Verif Require Import Lib.Base Lib.Sx Lib.Sched.
Import List ListNotations.
Open Scope Z_scope.

(* a request: transaction id, command (1 connect, 2 createStream, 0: a packet that expects no
   response), and whether the transport fails when it is written (in the cases: from this write on) *)
Record req := { q_tid : Z; q_name : Z; q_fail : bool }.
(* onPacketWriten registers, and onPacketWriteFailed rolls back, iff requestTransaction yields tid > 0
   and a non-empty command name *)
(* requestTransaction: only connect (1) and createStream (2) carry a transaction; every other packet
   kind -- 0 a call such as releaseStream, 3 a connect response, 4 a createStream response,
   5 publish, 6 play -- has none, whatever its transaction id field says *)
Definition needs (q : req) : bool := (0 <? q_tid q) && ((q_name q =? 1) || (q_name q =? 2)).

Inductive mop :=
| MStore (k : nat)        (* transactions[tid_k] = name_k *)
| MDelete (k : nat)       (* delete(transactions, tid_k) *)
| MLoad                   (* name, ok = transactions[tid of the response in hand] *)
| MDeleteHeld.            (* delete(transactions, that tid) -- only reached when ok *)

Inductive tinstr :=
| XMarshal | XEnd
| XLock | XUnlock
| XEnter | XExit (o : mop)
| XWrite (k : nat)        (* WriteMessage of request k: transport write + flush *)
| XRead                   (* ReadMessage: take the oldest response in flight *)
| XAnswer (k : nat)       (* the peer answers request k *)
| XBad.

(* skeleton events *)
Inductive tev := TMarshal | TRegister | TWrite | TUnregFail | TBad.
Inductive aev := ALock | AUnlock | AStore | ALoad | ADelete | ABad.
Definition decode_tev (e : string * string) : tev :=
  let k := fst e in
  if String.eqb k "marshal" then TMarshal
  else if String.eqb k "register" then TRegister
  else if String.eqb k "write" then TWrite
  else if String.eqb k "unregister_on_fail" then TUnregFail
  else TBad.
Definition decode_aev (e : string * string) : aev :=
  let k := fst e in
  if String.eqb k "lock" then ALock
  else if String.eqb k "unlock" then AUnlock
  else if String.eqb k "map_store" then AStore
  else if String.eqb k "map_load" then ALoad
  else if String.eqb k "map_delete" then ADelete
  else ABad.

(* WriteMessage: writes of the message into the buffered writer, the flush, and anything else *)
Inductive wev := WChunk | WFlush | WHook | WRegister | WBad.
Definition decode_wev (e : string * string) : wev :=
  let k := fst e in
  if String.eqb k "chunk_write" then WChunk
  else if String.eqb k "flush" then WFlush
  else if String.eqb k "written_hook" then WHook
  else if String.eqb k "register" then WRegister
  else WBad.

Record tskel := {
  k_wm : list wev;        (* WriteMessage *)
  k_wp : list tev;        (* WritePacket *)
  k_reg : list aev;       (* onPacketWriten *)
  k_unreg : list aev;     (* onPacketWriteFailed *)
  k_look : list aev;      (* the lookup in parseAMFObject *)
  k_same_kinds : bool }.  (* registration and roll-back apply to the SAME packet kinds: both take (tid, name)
                             from requestTransaction under the same guard, and requestTransaction knows
                             exactly the connect and createStream requests *)

Fixpoint skel_eqb (a b : list (string * string)) : bool :=
  match a, b with
  | [], [] => true
  | (x1, x2) :: a', (y1, y2) :: b' => String.eqb x1 y1 && String.eqb x2 y2 && skel_eqb a' b'
  | _, _ => false
  end.
(* the seeded variant: registration inside WriteMessage, after the chunk writes and before the
   flush -- "before Flush" is not enough, a chunk write can already complete the request at the
   transport (bufio.Writer passes large writes through and flushes whenever its buffer is full) *)
Definition before_flush_skel : tskel :=
  {| k_wm := [WChunk; WChunk; WRegister; WFlush; WHook];
     k_wp := [TMarshal; TWrite; TUnregFail];
     k_reg := [ALock; AStore; AUnlock]; k_unreg := [ALock; ADelete; AUnlock];
     k_look := [ALock; ALoad; ADelete; AUnlock]; k_same_kinds := true |}.

Definition repo_skel : tskel := Eval vm_compute in
  {| k_wm := map decode_wev rtmp_WriteMessage_skel;
     k_wp := map decode_tev rtmp_WritePacket_skel;
     k_reg := map decode_aev rtmp_onPacketWriten_skel;
     k_unreg := map decode_aev rtmp_onPacketWriteFailed_skel;
     k_look := map decode_aev rtmp_parseAMFObject_tx_skel;
     k_same_kinds :=
       skel_eqb rtmp_onPacketWriten_kinds rtmp_onPacketWriteFailed_kinds
       && skel_eqb rtmp_onPacketWriten_kinds [("kinds_from", "requestTransaction"); ("guard", "tid > 0 && len(name) > 0")]%string
       && skel_eqb rtmp_requestTransaction_kinds [("case", "ConnectAppPacket"); ("case", "CreateStreamPacket")]%string |}.
(* the pinned snapshot: bytes first, bookkeeping afterwards, no clean-up *)
Definition old_skel : tskel :=
  {| k_wm := [WChunk; WChunk; WFlush; WHook];
     k_wp := [TMarshal; TWrite; TRegister];
     k_reg := [ALock; AStore; AUnlock]; k_unreg := []; k_look := [ALock; ALoad; ADelete; AUnlock];
     k_same_kinds := true |}.

(* the table is touched nowhere else (NewProtocol creates it before the Protocol is shared) *)
Definition repo_sites_ok : bool := Eval vm_compute in
  skel_eqb rtmp_transactions_other_sites [("NewProtocol", "touches transactions")]%string.

(* the decidable discipline: register before WriteMessage is entered, i.e. before the FIRST write of
   the request into the buffered writer (not merely before the flush: every chunk write is
   transport-visible), WriteMessage itself only writes chunks, flushes and runs its hook; clean up
   when the write fails; every table access inside the lock *)
Definition tx_safeb (sk : tskel) : bool :=
  k_same_kinds sk &&
  match k_wm sk, k_wp sk, k_reg sk, k_unreg sk, k_look sk with
  | [WChunk; WChunk; WFlush; WHook],
    [TMarshal; TRegister; TWrite; TUnregFail], [ALock; AStore; AUnlock], [ALock; ADelete; AUnlock],
    [ALock; ALoad; ADelete; AUnlock] => true
  | _, _, _, _, _ => false
  end.

(* a roll-back that applies to MORE packet kinds than the registration (e.g. to every command packet
   with tid > 0): a failed write of a call deletes the entry of an outstanding request with the
   same number.  The instruction lists are the same as in the safe skeleton -- the difference is in
   which packets run the roll-back -- so it is modelled by the flag alone and rejected by it. *)
Definition wide_rollback_skel : tskel :=
  {| k_wm := [WChunk; WChunk; WFlush; WHook]; k_wp := [TMarshal; TRegister; TWrite; TUnregFail];
     k_reg := [ALock; AStore; AUnlock]; k_unreg := [ALock; ADelete; AUnlock];
     k_look := [ALock; ALoad; ADelete; AUnlock]; k_same_kinds := false |}.

(* instructions of one table access region; [st] and [de] say what a store / a delete is here *)
Definition aev_code (st de : mop) (e : aev) : list tinstr :=
  match e with
  | ALock => [XLock]
  | AUnlock => [XUnlock]
  | AStore => [XEnter; XExit st]
  | ALoad => [XEnter; XExit MLoad]
  | ADelete => [XEnter; XExit de]
  | ABad => [XBad]
  end.
Definition access_code (st de : mop) (l : list aev) : list tinstr := flat_map (aev_code st de) l.

(* WriteMessage of request k.  The request counts as handed to the transport from its FIRST chunk
   write on (XWrite k: from then on the peer may hold all of it and answer); later chunk writes,
   the flush and the hook change nothing the matching depends on.  A registration placed in here
   runs where it stands. *)
Fixpoint wm_code (sk_reg : list aev) (k : nat) (q : req) (first : bool) (l : list wev) : list tinstr :=
  match l with
  | [] => []
  | WChunk :: r => (if first then [XWrite k] else []) ++ wm_code sk_reg k q false r
  | WFlush :: r => (if first then [XWrite k] else []) ++ wm_code sk_reg k q false r
  | WHook :: r => wm_code sk_reg k q first r
  | WRegister :: r =>
      (if needs q then access_code (MStore k) (MDelete k) sk_reg else []) ++ wm_code sk_reg k q first r
  | WBad :: r => XBad :: wm_code sk_reg k q first r
  end.

Definition tev_code (sk : tskel) (k : nat) (q : req) (e : tev) : list tinstr :=
  match e with
  | TMarshal => [XMarshal]
  | TRegister => if needs q then access_code (MStore k) (MDelete k) (k_reg sk) else []
  | TWrite => wm_code (k_reg sk) k q true (k_wm sk)
  | TUnregFail => if needs q && q_fail q then access_code (MStore k) (MDelete k) (k_unreg sk) else []
  | TBad => [XBad]
  end.
(* WritePacket of request k *)
Definition req_code (sk : tskel) (k : nat) (q : req) : list tinstr :=
  flat_map (tev_code sk k q) (k_wp sk) ++ [XEnd].
(* ReadMessage + DecodeMessage of one response *)
Definition reader_code (sk : tskel) : list tinstr :=
  XRead :: access_code MLoad MDeleteHeld (k_look sk).

Inductive tthread :=
| TWriter (cur : option nat) (pc : nat) (todo : list nat)
| TReader (pc : nat) (held : option nat) (found : option Z)
| TPeer (k : nat) (done : bool).

Record tstate := {
  t_lk : option nat;
  t_inuse : option nat;            (* a thread is inside a map access *)
  t_raced : bool;                  (* two threads were inside map accesses at the same time *)
  t_tab : list (Z * Z);            (* transactions: tid -> command *)
  t_ths : list tthread;
  t_sent : list nat;               (* requests whose transport write succeeded *)
  t_failed : list nat;             (* requests whose transport write failed *)
  t_queue : list nat;              (* responses in flight, oldest first *)
  t_answered : list nat;
  t_reg : list nat;                (* ghost: requests registered so far *)
  t_clean : list nat;              (* ghost: requests removed again after a failed write *)
  t_del : list nat;                (* ghost: requests whose entry the reader has deleted *)
  t_log : list (nat * option Z) }. (* (request, Some command it was matched as | None = "No matched request"), newest first *)

Fixpoint tab_get (tid : Z) (m : list (Z * Z)) : option Z :=
  match m with [] => None | (k, v) :: r => if k =? tid then Some v else tab_get tid r end.
Fixpoint tab_del (tid : Z) (m : list (Z * Z)) : list (Z * Z) :=
  match m with [] => [] | (k, v) :: r => if k =? tid then tab_del tid r else (k, v) :: tab_del tid r end.
Definition tab_set (tid v : Z) (m : list (Z * Z)) : list (Z * Z) := (tid, v) :: tab_del tid m.

Definition qdef : req := {| q_tid := 0; q_name := 0; q_fail := false |}.
Definition rq (reqs : list req) (k : nat) : req := nth k reqs qdef.

Definition fetch (sk : tskel) (reqs : list req) (t : tthread) : option tinstr :=
  match t with
  | TWriter (Some k) pc _ => nth_error (req_code sk k (rq reqs k)) pc
  | TWriter None _ _ => None
  | TReader pc _ _ => nth_error (reader_code sk) pc
  | TPeer k false => Some (XAnswer k)
  | TPeer _ true => None
  end.

(* the thread after its instruction completed *)
Definition advance (sk : tskel) (t : tthread) : tthread :=
  match t with
  | TWriter cur pc todo => TWriter cur (S pc) todo
  | TReader pc held found =>
      if Nat.eqb (S pc) (length (reader_code sk)) then TReader 0 None None else TReader (S pc) held found
  | TPeer k _ => TPeer k true
  end.
Definition next_request (t : tthread) : tthread :=
  match t with
  | TWriter _ _ (k :: rest) => TWriter (Some k) 0 rest
  | TWriter _ _ [] => TWriter None 0 []
  | _ => t
  end.
Definition held_of (t : tthread) : option nat := match t with TReader _ h _ => h | _ => None end.
Definition found_of (t : tthread) : option Z := match t with TReader _ _ f => f | _ => None end.

Definition mem (k : nat) (l : list nat) : bool := existsb (Nat.eqb k) l.

Definition set_ths (s : tstate) (ths : list tthread) : tstate :=
  {| t_lk := t_lk s; t_inuse := t_inuse s; t_raced := t_raced s; t_tab := t_tab s; t_ths := ths;
     t_sent := t_sent s; t_failed := t_failed s; t_queue := t_queue s; t_answered := t_answered s;
     t_reg := t_reg s; t_clean := t_clean s; t_del := t_del s; t_log := t_log s |}.

Definition tstep (sk : tskel) (reqs : list req) (s : tstate) (i : nat) : tstate :=
  match nth_error (t_ths s) i with
  | None => s
  | Some t =>
    match fetch sk reqs t with
    | None => s
    | Some ins =>
      let adv := upd i (advance sk t) (t_ths s) in
      match ins with
      | XMarshal | XBad => set_ths s adv
      | XEnd => set_ths s (upd i (next_request t) (t_ths s))
      | XLock =>
          match t_lk s with
          | None => {| t_lk := Some i; t_inuse := t_inuse s; t_raced := t_raced s; t_tab := t_tab s; t_ths := adv;
                       t_sent := t_sent s; t_failed := t_failed s; t_queue := t_queue s; t_answered := t_answered s;
                       t_reg := t_reg s; t_clean := t_clean s; t_del := t_del s; t_log := t_log s |}
          | Some _ => s
          end
      | XUnlock =>
          {| t_lk := (match t_lk s with Some h => if Nat.eqb h i then None else Some h | None => None end);
             t_inuse := t_inuse s; t_raced := t_raced s; t_tab := t_tab s; t_ths := adv;
             t_sent := t_sent s; t_failed := t_failed s; t_queue := t_queue s; t_answered := t_answered s;
             t_reg := t_reg s; t_clean := t_clean s; t_del := t_del s; t_log := t_log s |}
      | XEnter =>
          {| t_lk := t_lk s; t_inuse := Some i;
             t_raced := (match t_inuse s with Some _ => true | None => t_raced s end);
             t_tab := t_tab s; t_ths := adv;
             t_sent := t_sent s; t_failed := t_failed s; t_queue := t_queue s; t_answered := t_answered s;
             t_reg := t_reg s; t_clean := t_clean s; t_del := t_del s; t_log := t_log s |}
      | XExit o =>
          let inuse' := match t_inuse s with Some h => if Nat.eqb h i then None else Some h | None => None end in
          match o with
          | MStore k =>
              {| t_lk := t_lk s; t_inuse := inuse'; t_raced := t_raced s;
                 t_tab := tab_set (q_tid (rq reqs k)) (q_name (rq reqs k)) (t_tab s); t_ths := adv;
                 t_sent := t_sent s; t_failed := t_failed s; t_queue := t_queue s; t_answered := t_answered s;
                 t_reg := k :: t_reg s; t_clean := t_clean s; t_del := t_del s; t_log := t_log s |}
          | MDelete k =>
              {| t_lk := t_lk s; t_inuse := inuse'; t_raced := t_raced s;
                 t_tab := tab_del (q_tid (rq reqs k)) (t_tab s); t_ths := adv;
                 t_sent := t_sent s; t_failed := t_failed s; t_queue := t_queue s; t_answered := t_answered s;
                 t_reg := t_reg s; t_clean := k :: t_clean s; t_del := t_del s; t_log := t_log s |}
          | MLoad =>
              match t with
              | TReader pc (Some k) _ =>
                  let r := tab_get (q_tid (rq reqs k)) (t_tab s) in
                  {| t_lk := t_lk s; t_inuse := inuse'; t_raced := t_raced s; t_tab := t_tab s;
                     t_ths := upd i (advance sk (TReader pc (Some k) r)) (t_ths s);
                     t_sent := t_sent s; t_failed := t_failed s; t_queue := t_queue s; t_answered := t_answered s;
                     t_reg := t_reg s; t_clean := t_clean s; t_del := t_del s; t_log := (k, r) :: t_log s |}
              | _ =>
                  {| t_lk := t_lk s; t_inuse := inuse'; t_raced := t_raced s; t_tab := t_tab s; t_ths := adv;
                     t_sent := t_sent s; t_failed := t_failed s; t_queue := t_queue s; t_answered := t_answered s;
                     t_reg := t_reg s; t_clean := t_clean s; t_del := t_del s; t_log := t_log s |}
              end
          | MDeleteHeld =>
              match held_of t, found_of t with
              | Some k, Some _ =>
                  {| t_lk := t_lk s; t_inuse := inuse'; t_raced := t_raced s;
                     t_tab := tab_del (q_tid (rq reqs k)) (t_tab s); t_ths := adv;
                     t_sent := t_sent s; t_failed := t_failed s; t_queue := t_queue s; t_answered := t_answered s;
                     t_reg := t_reg s; t_clean := t_clean s; t_del := k :: t_del s; t_log := t_log s |}
              | _, _ =>
                  {| t_lk := t_lk s; t_inuse := inuse'; t_raced := t_raced s; t_tab := t_tab s; t_ths := adv;
                     t_sent := t_sent s; t_failed := t_failed s; t_queue := t_queue s; t_answered := t_answered s;
                     t_reg := t_reg s; t_clean := t_clean s; t_del := t_del s; t_log := t_log s |}
              end
          end
      | XWrite k =>
          if q_fail (rq reqs k) then
            {| t_lk := t_lk s; t_inuse := t_inuse s; t_raced := t_raced s; t_tab := t_tab s; t_ths := adv;
               t_sent := t_sent s; t_failed := k :: t_failed s; t_queue := t_queue s; t_answered := t_answered s;
               t_reg := t_reg s; t_clean := t_clean s; t_del := t_del s; t_log := t_log s |}
          else
            {| t_lk := t_lk s; t_inuse := t_inuse s; t_raced := t_raced s; t_tab := t_tab s; t_ths := adv;
               t_sent := k :: t_sent s; t_failed := t_failed s; t_queue := t_queue s; t_answered := t_answered s;
               t_reg := t_reg s; t_clean := t_clean s; t_del := t_del s; t_log := t_log s |}
      | XRead =>
          match t, t_queue s with
          | TReader pc _ _, k :: rest =>
              {| t_lk := t_lk s; t_inuse := t_inuse s; t_raced := t_raced s; t_tab := t_tab s;
                 t_ths := upd i (advance sk (TReader pc (Some k) None)) (t_ths s);
                 t_sent := t_sent s; t_failed := t_failed s; t_queue := rest; t_answered := t_answered s;
                 t_reg := t_reg s; t_clean := t_clean s; t_del := t_del s; t_log := t_log s |}
          | _, _ => s                                             (* nothing to read: blocked *)
          end
      | XAnswer k =>
          if mem k (t_sent s) && needs (rq reqs k) && negb (mem k (t_answered s)) then
            {| t_lk := t_lk s; t_inuse := t_inuse s; t_raced := t_raced s; t_tab := t_tab s; t_ths := adv;
               t_sent := t_sent s; t_failed := t_failed s; t_queue := t_queue s ++ [k]; t_answered := k :: t_answered s;
               t_reg := t_reg s; t_clean := t_clean s; t_del := t_del s; t_log := t_log s |}
          else s                                   (* request not on the wire yet, or already answered: blocked *)
      end
    end
  end.

Definition trun (sk : tskel) (reqs : list req) : tstate -> list nat -> tstate := srun (tstep sk reqs).

(* threads: writers (lists of request indices), [nr] readers, then one peer per request *)
Definition writer_of (l : list nat) : tthread := next_request (TWriter None 0 l).
Definition tinit (reqs : list req) (writers : list (list nat)) (nr : nat) : tstate :=
  {| t_lk := None; t_inuse := None; t_raced := false; t_tab := [];
     t_ths := map writer_of writers ++ repeat (TReader 0 None None) nr
              ++ map (fun k => TPeer k false) (seq 0 (length reqs));
     t_sent := []; t_failed := []; t_queue := []; t_answered := [];
     t_reg := []; t_clean := []; t_del := []; t_log := [] |}.

(* ---- bounded witness search: one connect request, writer = thread 0, reader = 1, peer = 2:
   the writer runs a steps, the peer answers, the reader processes the response, the writer
   finishes; a = 0, 1, 2, ... *)
Definition cex_reqs : list req := [{| q_tid := 1; q_name := 1; q_fail := false |}].
Definition no_match (s : tstate) : bool := existsb (fun e => match snd e with None => true | Some _ => false end) (t_log s).
Definition cex_sched (a : nat) : list nat := repeat 0%nat a ++ [2%nat] ++ repeat 1%nat 8 ++ repeat 0%nat 16.
Definition find_cex (sk : tskel) : option (list nat) :=
  find_first (fun sc => no_match (trun sk cex_reqs (tinit cex_reqs [[0%nat]] 1) sc)) (map cex_sched (seq 0 16)).

(* ------------------------------------------------------------------ harness interface *)
(* case: ((req..) (event..))   req = (tid name fail)
   event = (0 k (a..))  WritePacket(request k); while the transport write of k is in progress the peer
                        answers the requests a.. (each already on the wire, k itself included) and
                        the reader decodes each answer before the write returns
         | (1 k)        the peer answers request k now; the reader decodes it
         | (2 cs)       the writer sends SetChunkSize(cs) (changes how requests are cut into chunk
                        writes on the real transport; no step of the model)
   observation: (0 (decode-result..) table-size raced)
     decode-result = (k 1) matched as connect response | (k 2) as createStream response
                   | (k 0) "No matched request"                                              *)
Definition sx_req (x : sx) : option req :=
  match x with
  | SL [SZ tid; SZ name; SZ fail] => Some {| q_tid := tid; q_name := name; q_fail := negb (fail =? 0) |}
  | SL [SZ tid; SZ name; SZ fail; SZ _] => Some {| q_tid := tid; q_name := name; q_fail := negb (fail =? 0) |}   (* request size: not the model's concern *)
  | _ => None
  end.
Fixpoint sx_reqs (l : list sx) : option (list req) :=
  match l with
  | [] => Some []
  | x :: r => match sx_req x, sx_reqs r with Some a, Some b => Some (a :: b) | _, _ => None end
  end.
(* a failed flush is sticky in bufio.Writer: once a write has failed, every later one fails too *)
Fixpoint sticky_fail (dead : bool) (l : list req) : list req :=
  match l with
  | [] => []
  | q :: r => let d := dead || q_fail q in
              {| q_tid := q_tid q; q_name := q_name q; q_fail := d |} :: sticky_fail d r
  end.
Fixpoint sx_nats (l : list sx) : option (list nat) :=
  match l with
  | [] => Some []
  | SZ z :: r => match sx_nats r with Some t => Some (Z.to_nat z :: t) | None => None end
  | _ => None
  end.

(* position of the transport write inside request k's code *)
Fixpoint index_of_write (c : list tinstr) (n : nat) : nat :=
  match c with
  | [] => n
  | XWrite _ :: _ => n
  | _ :: r => index_of_write r (S n)
  end.

Section Macro.
  Variables (sk : tskel) (reqs : list req).
  Let nw := 1%nat.                       (* thread 0 writer, thread 1 reader, 2+k peer of request k *)
  Definition answer_sched (k : nat) : list nat := (2 + k)%nat :: repeat 1%nat (length (reader_code sk)).
  Definition event_sched (e : sx) : option (list nat) :=
    match e with
    | SL [SZ 0; SZ k; SL ans] =>
        match sx_nats ans with
        | None => None
        | Some al =>
            let k' := Z.to_nat k in
            let code := req_code sk k' (rq reqs k') in
            let w := index_of_write code 0 in
            Some (repeat 0%nat (S w) ++ flat_map answer_sched al ++ repeat 0%nat (length code - S w))
        end
    | SL [SZ 1; SZ k] => Some (answer_sched (Z.to_nat k))
    | SL [SZ 2; SZ _] => Some []          (* SetChunkSize: no request, nothing to match *)
    | _ => None
    end.
  Fixpoint events_sched (es : list sx) : option (list nat) :=
    match es with
    | [] => Some []
    | e :: r => match event_sched e, events_sched r with Some a, Some b => Some (a ++ b) | _, _ => None end
    end.
  Fixpoint writer_order (es : list sx) : list nat :=
    match es with
    | [] => []
    | SL [SZ 0; SZ k; _] :: r => Z.to_nat k :: writer_order r
    | _ :: r => writer_order r
    end.
End Macro.

Definition obs_log (e : nat * option Z) : sx :=
  SL [snat (fst e); SZ (match snd e with Some n => n | None => 0 end)].

Definition run_c04 (c : sx) : sx :=
  match c with
  | SL [SL rs; SL es] =>
      match sx_reqs rs with
      | None => bad_case
      | Some reqs0 =>
          let reqs := sticky_fail false reqs0 in
          match events_sched repo_skel reqs es with
          | None => bad_case
          | Some sched =>
              let s := trun repo_skel reqs (tinit reqs [writer_order es] 1) sched in
              SL [SZ 0; SL (map obs_log (rev (t_log s))); snat (length (t_tab s)); sbool (t_raced s)]
          end
      end
  | SL [SZ 9; SZ n] =>
      (* free-running: n connect/createStream requests, each answered as soon as it is written *)
      let n' := Z.to_nat n in
      let reqs := map (fun k => {| q_tid := Z.of_nat (S k); q_name := 1 + Z.of_nat (k mod 2); q_fail := false |}) (seq 0 n') in
      let sched := flat_map (fun k => repeat 0%nat 7 ++ [(2 + k)%nat] ++ repeat 1%nat 7) (seq 0 n') in
      let s := trun repo_skel reqs (tinit reqs [seq 0 n'] 1) sched in
      SL [SZ 0; snat (length (filter (fun e => match snd e with Some _ => true | None => false end) (t_log s)));
          snat (length (filter (fun e => match snd e with Some _ => false | None => true end) (t_log s)));
          snat (length (t_tab s)); sbool (t_raced s)]
  | _ => bad_case
  end.
