(* Model of avc/avc.go (C12): NALUHeader / NALU, AVCDecoderConfigurationRecord and AVCSample
   MarshalBinary / UnmarshalBinary.  Definitions only.

   Receivers are passed as state: UnmarshalBinary of the record and of the sample APPEND to
   the parameter-set / NALU lists already in the receiver, and a call that fails half way
   leaves what it has appended so far; both are part of the model.  Indexing and slicing go
   through checked accessors giving [Panic].  Go's `|` of fields that can overlap for
   out-of-range values (NAL header, sample length) is [N.lor]; masks and shifts of
   non-overlapping fields are written with mod and / and annotated with the Go expression.
   The enum String helpers are the bodies generated from avc.go (Gen/Gen_avc.v).

   The independent writers of ISO/IEC 14496-10 7.3.1 (NAL unit header), ISO/IEC 14496-15
   5.2.4.1.1 (AVCDecoderConfigurationRecord) and 5.3.4.2 (sample) used by the theorems
   (names starting spec_) are at the end; they use Lib/Bitfield.v only. *)
From Verif Require Import Lib.Base Lib.Sx Lib.Bitfield Lib.GoSem.
From Verif Require Import Gen.Gen_avc.
Open Scope N_scope.

(* ---- NALUHeader / NALU ---- *)
Record nalu := mk_nalu { nref : N; ntype : N; ndata : bytes }.

(* NALU.MarshalBinary: []byte{byte(NALRefIDC)<<5 | byte(NALUType)} ++ Data *)
Definition nalu_marshal (n : nalu) : bytes :=
  N.lor (u8 (u8 (nref n) * 32)) (u8 (ntype n)) :: ndata n.

(* NALU.Size: 1 + len(v.Data) *)
Definition nalu_size (n : nalu) : N := 1 + lenN (ndata n).

(* NALU.UnmarshalBinary on NewNALU(): every field is assigned *)
Definition nalu_unmarshal (data : bytes) : res nalu :=
  if negb (len_gt data 0) then Err 1 else                  (* len(data) < 1: "empty NALU" *)
  let* b := idx data 0 1 in
  let* d := drop_chk 1 data 2 in                           (* v.Data = data[1:] *)
  Ok (mk_nalu ((b / 32) mod 4)                             (* uint8(data[0]>>5) & 0x03 *)
              (b mod 32)                                   (* uint8(data[0]) & 0x1f *)
              d).

(* ---- AVCSample ---- *)
(* uint8(8*(sizeOfNALU-1-i)): the shift count is truncated to 8 bits *)
Definition sh_amt (size i : N) : N := (8 * (size - 1 - i)) mod 256.
(* uint64 shifts; a count >= 64 gives 0 *)
Definition shr64 (x a : N) : N := if 64 <=? a then 0 else x / 2 ^ a.
Definition shl64 (x a : N) : N := if 64 <=? a then 0 else u64 (x * 2 ^ a).

(* for i := 0; i < sizeOfNALU; i++ { buf.WriteByte(byte(length >> uint8(8*(sizeOfNALU-1-i)))) } *)
Fixpoint len_prefix (size len i : N) (n : nat) : bytes :=
  match n with
  | O => []
  | S n' => u8 (shr64 len (sh_amt size i)) :: len_prefix size len (i + 1) n'
  end.

Definition sample_marshal (lsm1 : N) (ns : list nalu) : bytes :=
  let size := u8 lsm1 + 1 in                               (* int(v.lengthSizeMinusOne) + 1 *)
  flat_map (fun n => let b := nalu_marshal n in
                     len_prefix size (u64 (lenN b)) 0 (N.to_nat size) ++ b) ns.

(* for i := 0; i < sizeOfNALU; i++ { length |= uint64(b[i]) << uint8(8*(sizeOfNALU-1-i)) } *)
Fixpoint read_len (size : N) (lb : bytes) (i acc : N) : N :=
  match lb with
  | [] => acc
  | b :: t => read_len size t (i + 1) (N.lor acc (shl64 b (sh_amt size i)))
  end.

(* the loop of AVCSample.UnmarshalBinary; [acc] is v.NALUs reversed; fuel for structural
   recursion only (every iteration consumes at least one byte) *)
Fixpoint sample_loop (fuel : nat) (size : N) (b : bytes) (acc : list nalu) : list nalu * res unit :=
  match b with
  | [] => (rev acc, Ok tt)
  | _ :: _ =>
      match fuel with
      | O => (rev acc, Err 100)
      | S f =>
          if len_ltN b size then (rev acc, Err 8) else                 (* len(b) < sizeOfNALU *)
          match splitN b size with                                     (* b[i], b = b[sizeOfNALU:] *)
          | None => (rev acc, Panic 3)
          | Some (lb, b1) =>
              let length := read_len size lb 0 0 in
              if len_ltN b1 length then (rev acc, Err 9) else          (* uint64(len(b)) < length *)
              match splitN b1 length with                              (* b[:length], b[length:] *)
              | None => (rev acc, Panic 4)
              | Some (nb, b2) =>
                  match nalu_unmarshal nb with
                  | Err e => (rev acc, Err e)
                  | Panic s => (rev acc, Panic s)
                  | Ok n => sample_loop f size b2 (n :: acc)
                  end
              end
          end
      end
  end.

Definition sample_unmarshal (lsm1 : N) (have : list nalu) (data : bytes) : list nalu * res unit :=
  sample_loop (S (length data)) (u8 lsm1 + 1) data (rev have).

(* ---- AVCDecoderConfigurationRecord ---- *)
Record avcrec := mk_rec {
  r_ver : N; r_prof : N; r_compat : N; r_level : N; r_lsm1 : N;
  r_sps : list nalu; r_pps : list nalu }.
(* NewAVCDecoderConfigurationRecord *)
Definition rec0 : avcrec := mk_rec 1 0 0 0 0 [] [].

(* uint16(len(b)) as two bytes, then b *)
Definition sets_marshal (ns : list nalu) : bytes :=
  flat_map (fun n => let b := nalu_marshal n in
                     let l := u16 (lenN b) in
                     (l / 256) mod 256 :: l mod 256 :: b) ns.

Definition rec_marshal (r : avcrec) : bytes :=
  [ u8 (r_ver r); u8 (r_prof r); u8 (r_compat r); u8 (r_level r);
    252 + u8 (r_lsm1 r) mod 4;                             (* 0xfc | byte(LengthSizeMinusOne)&0x03 *)
    224 + u8 (countN (r_sps r)) mod 32 ]                   (* 0xe0 | byte(len(SPS))&0x1f *)
  ++ sets_marshal (r_sps r)
  ++ [ u8 (countN (r_pps r)) ]                             (* byte(len(PPS)) *)
  ++ sets_marshal (r_pps r).

(* one of the two parameter-set loops; [acc] is the receiver's list reversed; [e2] is the
   code of the "requires 2+" message of this loop.  Returns the list and the bytes left. *)
Fixpoint read_sets (cnt : nat) (b : bytes) (acc : list nalu) (e2 : N) : list nalu * res bytes :=
  match cnt with
  | O => (rev acc, Ok b)
  | S c =>
      if negb (len_gt b 1) then (rev acc, Err e2) else               (* len(b) < 2 *)
      match idx b 0 5, idx b 1 6, drop_chk 2 b 7 with
      | Ok b0, Ok b1, Ok b' =>
          let l := b0 * 256 + b1 in                                    (* int(uint16(b[0])<<8 | uint16(b[1])) *)
          if len_ltN b' l then (rev acc, Err 4) else
          match splitN b' l with
          | None => (rev acc, Panic 8)
          | Some (nb, b'') =>
              match nalu_unmarshal nb with
              | Err e => (rev acc, Err e)
              | Panic s => (rev acc, Panic s)
              | Ok n => read_sets c b'' (n :: acc) e2
              end
          end
      | Panic s, _, _ | _, Panic s, _ | _, _, Panic s => (rev acc, Panic s)
      | _, _, _ => (rev acc, Panic 9)
      end
  end.

Definition rec_unmarshal (st : avcrec) (data : bytes) : avcrec * res unit :=
  if negb (len_gt data 5) then (st, Err 2) else                        (* len(b) < 6 *)
  match idx data 0 10, idx data 1 11, idx data 2 12, idx data 3 13, idx data 4 14, drop_chk 5 data 15 with
  | Ok d0, Ok d1, Ok d2, Ok d3, Ok d4, Ok b =>
      let st1 := mk_rec d0 d1 d2 d3 (d4 mod 4) (r_sps st) (r_pps st) in     (* uint8(b[4]) & 0x03 *)
      match idx b 0 16, drop_chk 1 b 17 with
      | Ok n0, Ok b1 =>
          let nsps := n0 mod 32 in                                      (* uint8(b[0]) & 0x1f *)
          match read_sets (N.to_nat nsps) b1 (rev (r_sps st)) 3 with
          | (sps, Err e) => (mk_rec d0 d1 d2 d3 (d4 mod 4) sps (r_pps st), Err e)
          | (sps, Panic s) => (mk_rec d0 d1 d2 d3 (d4 mod 4) sps (r_pps st), Panic s)
          | (sps, Ok b2) =>
              let st2 := mk_rec d0 d1 d2 d3 (d4 mod 4) sps (r_pps st) in
              if negb (len_gt b2 0) then (st2, Err 5) else              (* "no PPS length" *)
              match idx b2 0 18, drop_chk 1 b2 19 with
              | Ok npps, Ok b3 =>
                  match read_sets (N.to_nat npps) b3 (rev (r_pps st)) 6 with
                  | (pps, Err e) => (mk_rec d0 d1 d2 d3 (d4 mod 4) sps pps, Err e)
                  | (pps, Panic s) => (mk_rec d0 d1 d2 d3 (d4 mod 4) sps pps, Panic s)
                  | (pps, Ok _) => (mk_rec d0 d1 d2 d3 (d4 mod 4) sps pps, Ok tt)
                  end
              | _, _ => (st2, Panic 18)
              end
          end
      | _, _ => (st1, Panic 16)
      end
  | _, _, _, _, _, _ => (st, Panic 10)
  end.

(* ---- histories on several objects ----
   A NALU, a configuration record and a sample are plain values: UnmarshalBinary stores what it
   parsed in the fields, the caller may assign the fields (header fields, Data, the parameter-set
   and NALU lists and their elements), MarshalBinary writes the CURRENT field values into a fresh
   result.  Objects do not share anything; results are values that later calls cannot change
   (the harness keeps every returned slice and re-reads it after the last operation). *)
Inductive avc_obj : Type :=
| ONalu (n : nalu)
| ORec (r : avcrec)
| OSample (l : N) (ns : list nalu).

Definition obj_marshal (v : avc_obj) : bytes :=
  match v with
  | ONalu n => nalu_marshal n
  | ORec r => rec_marshal r
  | OSample l ns => sample_marshal l ns
  end.

Definition slots := list (N * avc_obj).
Fixpoint slot_get (s : slots) (k : N) : option avc_obj :=
  match s with
  | [] => None
  | (k', v) :: t => if k' =? k then Some v else slot_get t k
  end.
Fixpoint slot_set (s : slots) (k : N) (v : avc_obj) : slots :=
  match s with
  | [] => [(k, v)]
  | (k', v') :: t => if k' =? k then (k, v) :: t else (k', v') :: slot_set t k v
  end.

Fixpoint list_set {A} (l : list A) (i : nat) (x : A) : list A :=
  match l, i with
  | [], _ => []
  | _ :: t, O => x :: t
  | y :: t, S i' => y :: list_set t i' x
  end.

Inductive avc_op : Type :=
| ANew (k kind arg : N)                      (* kind 0 NewAVCDecoderConfigurationRecord, 1 NewAVCSample(arg), 2 NewNALU *)
| AUnmarshal (k : N) (data : bytes)
| AMarshal (k : N)
| ASetNalu (k : N) (n : nalu)                 (* a NALU object: assign NALRefIDC, NALUType, Data *)
| ASetElem (k which : N) (idx : nat) (n : nalu)   (* assign the fields of the idx-th unit of list [which] (0 SPS / NALUs, 1 PPS) *)
| AAppend (k which : N) (n : nalu)
| AClear (k which : N)
| ASetScalars (k ver prof compat level lsm1 : N)  (* record: the five scalar fields; sample: lengthSizeMinusOne *)
| AMarshal2 (k1 k2 : N).                     (* MarshalBinary of two objects (concurrently in the implementation) *)

(* the pure field updates *)
Definition obj_update (v : avc_obj) (op : avc_op) : option avc_obj :=
  match op, v with
  | ASetNalu _ n, ONalu _ => Some (ONalu n)
  | ASetElem _ which idx n, ORec r =>
      Some (ORec (if which =? 0
                  then mk_rec (r_ver r) (r_prof r) (r_compat r) (r_level r) (r_lsm1 r) (list_set (r_sps r) idx n) (r_pps r)
                  else mk_rec (r_ver r) (r_prof r) (r_compat r) (r_level r) (r_lsm1 r) (r_sps r) (list_set (r_pps r) idx n)))
  | ASetElem _ _ idx n, OSample l ns => Some (OSample l (list_set ns idx n))
  | AAppend _ which n, ORec r =>
      Some (ORec (if which =? 0
                  then mk_rec (r_ver r) (r_prof r) (r_compat r) (r_level r) (r_lsm1 r) (r_sps r ++ [n]) (r_pps r)
                  else mk_rec (r_ver r) (r_prof r) (r_compat r) (r_level r) (r_lsm1 r) (r_sps r) (r_pps r ++ [n])))
  | AAppend _ _ n, OSample l ns => Some (OSample l (ns ++ [n]))
  | AClear _ which, ORec r =>
      Some (ORec (if which =? 0
                  then mk_rec (r_ver r) (r_prof r) (r_compat r) (r_level r) (r_lsm1 r) [] (r_pps r)
                  else mk_rec (r_ver r) (r_prof r) (r_compat r) (r_level r) (r_lsm1 r) (r_sps r) []))
  | AClear _ _, OSample l _ => Some (OSample l [])
  | ASetScalars _ ver prof compat level lsm1, ORec r => Some (ORec (mk_rec ver prof compat level lsm1 (r_sps r) (r_pps r)))
  | ASetScalars _ _ _ _ _ lsm1, OSample _ ns => Some (OSample lsm1 ns)
  | _, _ => None
  end.

Definition op_slot (op : avc_op) : N :=
  match op with
  | ANew k _ _ | AUnmarshal k _ | AMarshal k | ASetNalu k _ | ASetElem k _ _ _ | AAppend k _ _ | AClear k _
  | ASetScalars k _ _ _ _ _ | AMarshal2 k _ => k
  end.

Definition s_nalu0 (n : nalu) : sx := SL [SZ (Z.of_N (nref n)); SZ (Z.of_N (ntype n)); SB (ndata n)].

(* one operation: the slots afterwards and the observation *)
Definition avc_step (s : slots) (op : avc_op) : slots * sx :=
  match op with
  | ANew k kind arg =>
      let v := if kind =? 0 then ORec (mk_rec 1 0 0 0 0 [] [])
               else if kind =? 1 then OSample arg [] else ONalu (mk_nalu 0 0 []) in
      (slot_set s k v, SL [SZ 0])
  | AUnmarshal k data =>
      match slot_get s k with
      | Some (ONalu n) =>
          match nalu_unmarshal data with
          | Ok n' => (slot_set s k (ONalu n'), SL [SZ 0; s_nalu0 n'])
          | Err _ => (s, SL [SZ 1])
          | Panic _ => (s, SL [SZ 2])
          end
      | Some (ORec r) =>
          let (r', x) := rec_unmarshal r data in
          (slot_set s k (ORec r'),
           match x with Ok _ => SL [SZ 0] | Err _ => SL [SZ 1] | Panic _ => SL [SZ 2] end)
      | Some (OSample l ns) =>
          let (ns', x) := sample_unmarshal l ns data in
          (slot_set s k (OSample l ns'),
           match x with Ok _ => SL [SZ 0] | Err _ => SL [SZ 1] | Panic _ => SL [SZ 2] end)
      | None => (s, SL [SZ (-1)])
      end
  | AMarshal k =>
      match slot_get s k with
      | Some v => (s, SL [SZ 0; SB (obj_marshal v)])
      | None => (s, SL [SZ (-1)])
      end
  | AMarshal2 k1 k2 =>
      match slot_get s k1, slot_get s k2 with
      | Some v1, Some v2 => (s, SL [SZ 0; SB (obj_marshal v1); SB (obj_marshal v2)])
      | _, _ => (s, SL [SZ (-1)])
      end
  | _ =>
      match slot_get s (op_slot op) with
      | Some v => match obj_update v op with
                  | Some v' => (slot_set s (op_slot op) v', SL [SZ 0])
                  | None => (s, SL [SZ (-1)])
                  end
      | None => (s, SL [SZ (-1)])
      end
  end.

Fixpoint avc_run (s : slots) (ops : list avc_op) : slots * list sx :=
  match ops with
  | [] => (s, [])
  | op :: rest =>
      let (s1, o) := avc_step s op in
      let (s2, os) := avc_run s1 rest in (s2, o :: os)
  end.

(* ---- specification: independent ISO writers ---- *)
(* ISO/IEC 14496-10 7.3.1: forbidden_zero_bit f(1), nal_ref_idc u(2), nal_unit_type u(5), payload *)
Definition spec_nalu_bytes (n : nalu) : bytes :=
  pack_fields [ (0, 1); (nref n, 2); (ntype n, 5) ] ++ ndata n.

(* ISO/IEC 14496-15 5.2.4.1.1; a NAL unit is an opaque byte string here *)
Definition spec_sets (ns : list bytes) : bytes :=
  flat_map (fun n => pack_fields [ (lenN n, 16) ] ++ n) ns.    (* parameterSetLength, NALUnit *)

Definition spec_record (ver prof compat level lsm1 : N) (sps pps : list bytes) : bytes :=
  pack_fields [ (ver, 8)                 (* configurationVersion *)
              ; (prof, 8)                (* AVCProfileIndication *)
              ; (compat, 8)              (* profile_compatibility *)
              ; (level, 8)               (* AVCLevelIndication *)
              ; (63, 6)                  (* reserved '111111'b *)
              ; (lsm1, 2)                (* lengthSizeMinusOne *)
              ; (7, 3)                   (* reserved '111'b *)
              ; (countN sps, 5) ]        (* numOfSequenceParameterSets *)
  ++ spec_sets sps
  ++ pack_fields [ (countN pps, 8) ]     (* numOfPictureParameterSets *)
  ++ spec_sets pps.

(* ISO/IEC 14496-15 5.3.4.2: NALUnitLength of (lengthSizeMinusOne+1)*8 bits, then the NAL unit *)
Definition spec_sample (lsm1 : N) (ns : list bytes) : bytes :=
  flat_map (fun n => pack_fields [ (lenN n, 8 * (lsm1 + 1)) ] ++ n) ns.

(* ---- harness interface (see harness/C12/c12_test.go for the case formats) ---- *)
Definition s_nalu (n : nalu) : sx := SL [sN (nref n); sN (ntype n); SB (ndata n)].
Definition s_nalus (ns : list nalu) : sx := SL (map s_nalu ns).

Definition p_nalu (s : sx) : option nalu :=
  match s with
  | SL [SZ r; SZ t; SB d] => Some (mk_nalu (Z.to_N r) (Z.to_N t) d)
  | _ => None
  end.
Fixpoint p_nalus (l : list sx) : option (list nalu) :=
  match l with
  | [] => Some []
  | s :: t => match p_nalu s, p_nalus t with
              | Some n, Some ns => Some (n :: ns)
              | _, _ => None
              end
  end.
Fixpoint p_bytes (l : list sx) : option (list bytes) :=
  match l with
  | [] => Some []
  | SB b :: t => match p_bytes t with Some bs => Some (b :: bs) | None => None end
  | _ :: _ => None
  end.

Definition s_rec_fields (r : avcrec) : list sx :=
  [sN (r_ver r); sN (r_prof r); sN (r_compat r); sN (r_level r); sN (r_lsm1 r); s_nalus (r_sps r); s_nalus (r_pps r)].

Definition obs_rdec (x : avcrec * res unit) : sx :=
  match x with
  | (r, Ok _) => SL (SZ 0 :: s_rec_fields r)
  | (r, Err _) => SL (SZ 1 :: s_rec_fields r)
  | (_, Panic _) => s_panic
  end.

Definition obs_sdec (x : list nalu * res unit) : sx :=
  match x with
  | (ns, Ok _) => SL [SZ 0; s_nalus ns]
  | (ns, Err _) => SL [SZ 1; s_nalus ns]
  | (_, Panic _) => s_panic
  end.

(* NAL unit bytes -> header fields (forbidden bit dropped) and payload, for case 8 *)
Definition split_nalu (b : bytes) : nalu :=
  match b with
  | [] => mk_nalu 0 0 []
  | x :: t => mk_nalu ((x / 32) mod 4) (x mod 32) t
  end.

Definition conformant_set (b : bytes) : bool :=
  match b with
  | [] => false
  | x :: _ => (x <? 128) && (lenN b <=? 65535)
  end.

(* the text of a generated String helper as bytes *)
Definition str_of (r : res String.string) : sx :=
  match r with Ok s => SB (string_bytes s) | _ => s_panic end.

(* case 10: a history; the final observation also lists the value of every slot (0..3) *)
Definition p_avc_op (s : sx) : option avc_op :=
  match s with
  | SL [SZ 0; SZ k; SZ kind; SZ arg] => Some (ANew (Z.to_N k) (Z.to_N kind) (Z.to_N arg))
  | SL [SZ 1; SZ k; SB data] => Some (AUnmarshal (Z.to_N k) data)
  | SL [SZ 2; SZ k] => Some (AMarshal (Z.to_N k))
  | SL [SZ 3; SZ k; SZ r; SZ t; SB d] => Some (ASetNalu (Z.to_N k) (mk_nalu (Z.to_N r) (Z.to_N t) d))
  | SL [SZ 4; SZ k; SZ w; SZ i; SZ r; SZ t; SB d] =>
      Some (ASetElem (Z.to_N k) (Z.to_N w) (Z.to_nat i) (mk_nalu (Z.to_N r) (Z.to_N t) d))
  | SL [SZ 5; SZ k; SZ w; SZ r; SZ t; SB d] => Some (AAppend (Z.to_N k) (Z.to_N w) (mk_nalu (Z.to_N r) (Z.to_N t) d))
  | SL [SZ 6; SZ k; SZ w] => Some (AClear (Z.to_N k) (Z.to_N w))
  | SL [SZ 7; SZ k; SZ ver; SZ prof; SZ compat; SZ level; SZ l] =>
      Some (ASetScalars (Z.to_N k) (Z.to_N ver) (Z.to_N prof) (Z.to_N compat) (Z.to_N level) (Z.to_N l))
  | SL [SZ 8; SZ k1; SZ k2] => Some (AMarshal2 (Z.to_N k1) (Z.to_N k2))
  | _ => None
  end.
Fixpoint p_avc_ops (l : list sx) : option (list avc_op) :=
  match l with
  | [] => Some []
  | s :: t => match p_avc_op s, p_avc_ops t with
              | Some o, Some os => Some (o :: os)
              | _, _ => None
              end
  end.
Definition obs_obj (v : option avc_obj) : sx :=
  match v with
  | None => SL []
  | Some (ONalu n) => SL [SZ 2; s_nalu n]
  | Some (ORec r) => SL (SZ 0 :: s_rec_fields r)
  | Some (OSample l ns) => SL [SZ 1; sN l; s_nalus ns]
  end.

(* cases 11/12: large samples / records given compactly as (ref type len fill) unit specs with
   generated payloads; only lengths and adler32 checksums are observed *)
Definition p_cnalu (s : sx) : option nalu :=
  match s with
  | SL [SZ r; SZ t; SZ len; SZ fill] => Some (mk_nalu (Z.to_N r) (Z.to_N t) (gen_payload (Z.to_nat len) 0 (Z.to_N fill)))
  | _ => None
  end.
Fixpoint p_cnalus (l : list sx) : option (list nalu) :=
  match l with
  | [] => Some []
  | s :: t => match p_cnalu s, p_cnalus t with
              | Some n, Some ns => Some (n :: ns)
              | _, _ => None
              end
  end.
Definition s_nalu_sum (n : nalu) : sx := SL [sN (nref n); sN (ntype n); sN (lenN (ndata n)); sN (adler32 (ndata n))].
Definition s_nalus_sum (ns : list nalu) : sx := SL (map s_nalu_sum ns).
Definition s_res (x : res unit) : sx :=
  match x with Ok _ => SL [SZ 0] | Err _ => SL [SZ 1] | Panic _ => s_panic end.

Definition run_c12 (c : sx) : sx :=
  match c with
  | SL [SZ 1; SB data] =>
      match nalu_unmarshal data with
      | Ok n => s_ok [sN (nref n); sN (ntype n); SB (ndata n); SB (nalu_marshal n)]
      | Err _ => SL [SZ 1]
      | Panic _ => s_panic
      end
  | SL [SZ 2; SZ r; SZ t; SB d] =>
      let b := nalu_marshal (mk_nalu (Z.to_N r) (Z.to_N t) d) in
      match nalu_unmarshal b with
      | Ok n => s_ok [SB b; sN (nref n); sN (ntype n); SB (ndata n); sN (nalu_size n)]
      | Err _ => s_ok [SB b; SL [SZ 1]]
      | Panic _ => s_panic
      end
  | SL [SZ 3; SZ l; SL ns] =>
      match p_nalus ns with
      | Some ns =>
          let b := sample_marshal (Z.to_N l) ns in
          s_ok [SB b; obs_sdec (sample_unmarshal (Z.to_N l) [] b)]
      | None => bad_case
      end
  | SL [SZ 4; SZ l; SB data] =>
      match sample_unmarshal (Z.to_N l) [] data with
      | (ns, Ok _) => SL [obs_sdec (ns, Ok tt); SB (sample_marshal (Z.to_N l) ns)]
      | x => SL [obs_sdec x]
      end
  | SL [SZ 5; SZ ver; SZ prof; SZ compat; SZ level; SZ l; SL sps; SL pps] =>
      match p_nalus sps, p_nalus pps with
      | Some sps, Some pps =>
          let b := rec_marshal (mk_rec (Z.to_N ver) (Z.to_N prof) (Z.to_N compat) (Z.to_N level) (Z.to_N l) sps pps) in
          s_ok [SB b; obs_rdec (rec_unmarshal rec0 b)]
      | _, _ => bad_case
      end
  | SL [SZ 6; SB data] =>
      match rec_unmarshal rec0 data with
      | (r, Ok _) => SL [obs_rdec (r, Ok tt); SB (rec_marshal r)]
      | x => SL [obs_rdec x]
      end
  | SL [SZ 7; SB d1; SB d2] =>
      match rec_unmarshal rec0 d1 with
      | (_, Panic _) => SL [s_panic]
      | (r1, x) => SL [obs_rdec (r1, x); obs_rdec (rec_unmarshal r1 d2)]
      end
  | SL [SZ 8; SZ prof; SZ compat; SZ level; SZ l; SL sps; SL pps; SB ext] =>
      match p_bytes sps, p_bytes pps with
      | Some sps, Some pps =>
          let iso := spec_record 1 (Z.to_N prof) (Z.to_N compat) (Z.to_N level) (Z.to_N l) sps pps in
          let d := obs_rdec (rec_unmarshal rec0 (iso ++ ext)) in
          if (Z.to_N prof <=? 255) && (Z.to_N compat <=? 255) && (Z.to_N level <=? 255) && (Z.to_N l <=? 3)
             && (countN sps <=? 31) && (countN pps <=? 255)
             && forallb conformant_set sps && forallb conformant_set pps
          then s_ok [SB iso; d;
                     SB (rec_marshal (mk_rec 1 (Z.to_N prof) (Z.to_N compat) (Z.to_N level) (Z.to_N l)
                                             (map split_nalu sps) (map split_nalu pps)))]
          else s_ok [SB iso; d]
      | _, _ => bad_case
      end
  | SL [SZ 11; SZ l; SL specs] =>
      match p_cnalus specs with
      | Some ns =>
          let b := sample_marshal (Z.to_N l) ns in
          let (ns', x) := sample_unmarshal (Z.to_N l) [] b in
          SL [sN (lenN b); sN (adler32 b); s_res x; s_nalus_sum ns']
      | None => bad_case
      end
  | SL [SZ 12; SZ prof; SZ compat; SZ level; SZ l; SL sps; SL pps] =>
      match p_cnalus sps, p_cnalus pps with
      | Some sps, Some pps =>
          let b := rec_marshal (mk_rec 1 (Z.to_N prof) (Z.to_N compat) (Z.to_N level) (Z.to_N l) sps pps) in
          let (r, x) := rec_unmarshal rec0 b in
          SL [sN (lenN b); sN (adler32 b); s_res x; sN (r_ver r); sN (r_prof r); sN (r_compat r); sN (r_level r); sN (r_lsm1 r);
              s_nalus_sum (r_sps r); s_nalus_sum (r_pps r)]
      | _, _ => bad_case
      end
  | SL (SZ 13 :: _) => SL [SZ 0]      (* oracle-only marker: sizes beyond what the model run is fed (>= 2^24 bytes) *)
  | SL [SZ 10; SL ops] =>
      match p_avc_ops ops with
      | Some ops =>
          let (s, outs) := avc_run [] ops in
          SL [SL outs; SL (map (fun k => obs_obj (slot_get s k)) [0; 1; 2; 3])]
      | None => bad_case
      end
  | SL [SZ 9; SZ v] =>
      s_ok [str_of (avc_NALUType_String (v mod 256)%Z); str_of (avc_AVCProfile_String (v mod 65536)%Z);
            str_of (avc_AVCLevel_String (v mod 256)%Z)]
  | _ => bad_case
  end.
