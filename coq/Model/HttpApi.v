(* Model of http/http.go and http/api.go (C19).  Definitions only.

   Server half: Error / CplxError / Data / jsonHandler with the default Filter* functions.
   A response is (status, content type, Server header, body); the body is abstract: either the
   JSON object json.Marshal produces for the handler's value (optionally wrapped as
   callback(json)), given as its member list, or a plain text.  encoding/json itself is not
   modelled: what is needed of it (a value is marshalable or not; parse after marshal gives the
   object back) is an explicit oracle in Proofs/HttpApi.v.
   Client half: ApiRequest = apiGet + apiParse on what json.Unmarshal sees of the body
   ([view]), followed by the HTTP status test (fix 219c663). *)
From Verif Require Import Lib.Base Lib.Sx.
From Verif Require Import Gen.Gen_http.
From Coq Require Import String.
Open Scope Z_scope.

(* Go values handed to Data(): the JSON value trees of the property, plus leaves that
   encoding/json refuses (channels, functions, complex numbers; NaN and infinities) *)
Inductive jv :=
| JNull
| JBool (b : bool)
| JNum (bits : N)                 (* float64, IEEE-754 bit pattern *)
| JStr (s : bytes)                (* any bytes; see utf8_fix *)
| JArr (l : list jv)
| JObj (m : list (bytes * jv))    (* map[string]interface{}: unique keys *)
| JBad (k : N)                    (* chan / func / complex128: json.UnsupportedTypeError *)
| JInt (z : Z).                   (* Go int: the code and server members *)

Definition nan_or_inf (bits : N) : bool := ((bits / 4503599627370496) mod 2048 =? 2047)%N.

Fixpoint marshalable (v : jv) : bool :=
  match v with
  | JBad _ => false
  | JNum bits => negb (nan_or_inf bits)
  | JArr l => (fix all (l : list jv) : bool :=
                 match l with [] => true | x :: t => marshalable x && all t end) l
  | JObj m => (fix all (m : list (bytes * jv)) : bool :=
                 match m with [] => true | (_, x) :: t => marshalable x && all t end) m
  | _ => true
  end.

Definition members_marshalable (m : list (bytes * jv)) : bool := forallb (fun kv => marshalable (snd kv)) m.

(* what the handlers are given *)
Inductive payload :=
| PData (v : jv) (merr : bytes)          (* Data(ctx, v); merr = the text of json.Marshal's error when v is refused *)
| PSys (c : Z)                           (* Error(ctx, SystemError(c)) *)
| PCplx (c : Z) (msg : bytes)            (* Error(ctx, SystemComplexError{c, msg}) / CplxError *)
| PApp (c : Z) (msg : bytes)             (* Error(ctx, e) with e.Code() = c, e.Error() = msg *)
| PPlain (st : option Z) (msg : bytes)   (* any other error; st = its Status() if it implements HTTPStatus *)
| PRaw (st : option Z) (m : list (bytes * jv)) (merr : bytes).
    (* Data(ctx, v) with a replaced FilterData hook (the Filter* variables are public API): the
       hook returns an arbitrary object with members m, which may implement HTTPStatus (st) *)

Inductive abody :=
| BEnv (cb : bytes) (members : list (bytes * jv))   (* json.Marshal(object), wrapped as cb(json) when cb <> "" *)
| BText (t : bytes).

Inductive ctype := CtJson | CtJs | CtText.
Definition ctype_str (c : ctype) : string :=
  match c with
  | CtJson => http_HttpJson_str
  | CtJs => http_HttpJavaScript_str
  | CtText => "text/plain; charset=utf-8"%string      (* set by net/http.Error *)
  end.

Record resp := { status : Z; ctyp : ctype; server : bytes; body : abody }.

Record cfg := { srv_name : bytes (* the variable Server *); pid : Z (* os.Getpid() *) }.

Definition k_code : bytes := [99; 111; 100; 101]%N.
Definition k_data : bytes := [100; 97; 116; 97]%N.
Definition k_server : bytes := [115; 101; 114; 118; 101; 114]%N.
Definition is_nil (b : bytes) : bool := match b with [] => true | _ => false end.

(* jsonHandler after a successful json.Marshal: the filtered values of the default filters never
   implement HTTPStatus, so the status is 200; SetHeader; content type by the callback parameter *)
Definition json_handler (g : cfg) (cb : bytes) (members : list (bytes * jv)) : resp :=
  {| status := 200; ctyp := if is_nil cb then CtJson else CtJs; server := srv_name g; body := BEnv cb members |}.

(* the last branch of Error(): SetHeader, http.Error(w, text, status) -- text/plain, text + newline;
   the callback parameter is not looked at *)
Definition plain_handler (g : cfg) (st : option Z) (msg : bytes) : resp :=
  {| status := match st with Some s => s | None => 500 end; ctyp := CtText; server := srv_name g;
     body := BText (msg ++ [10%N]) |}.

Definition respond (g : cfg) (cb : bytes) (p : payload) : resp :=
  match p with
  | PData v merr =>
      (* FilterData: {"code":0,"server":pid,"data":v}; json.Marshal sorts map keys *)
      if marshalable v then json_handler g cb [(k_code, JInt 0); (k_data, v); (k_server, JInt (pid g))]
      else plain_handler g None merr       (* jsonHandler: Marshal failed -> Error(ctx, err), a plain error *)
  | PSys c => json_handler g cb [(k_code, JInt c)]
  | PCplx c msg => json_handler g cb [(k_code, JInt c); (k_data, JStr msg)]
  | PApp c msg => json_handler g cb [(k_code, JInt c); (k_data, JStr msg)]
  | PPlain st msg => plain_handler g st msg
  | PRaw st m merr =>
      (* jsonHandler: marshal; status := rv.(HTTPStatus).Status() if implemented, else 200 *)
      if members_marshalable m
      then {| status := match st with Some s => s | None => 200 end;
              ctyp := if is_nil cb then CtJson else CtJs; server := srv_name g; body := BEnv cb m |}
      else plain_handler g None merr
  end.

(* ---- which handler an error value gets: the dispatch of Error() ----
   An error value as Error() sees it: its dynamic type may be SystemComplexError (a value, not a
   pointer) or SystemError; otherwise it may have a Code() int method (AppError) and a Status()
   int method (HTTPStatus); Error() gives its text.  Cause() / Unwrap() methods and whatever they
   return are not looked at: the kind is decided by the value that was passed in.  The order of
   the tests is the order in the code. *)
Record dyn := { d_cplx : option (Z * bytes); d_sys : option Z; d_code : option Z; d_status : option Z; d_text : bytes }.

Definition kind_of (d : dyn) : payload :=
  match d_cplx d with
  | Some (c, m) => PCplx c m                        (* err.(SystemComplexError) *)
  | None =>
      match d_sys d with
      | Some c => PSys c                            (* err.(SystemError) *)
      | None =>
          match d_code d with
          | Some c => PApp c (d_text d)             (* err.(AppError) *)
          | None => PPlain (d_status d) (d_text d)  (* unknown error: status from HTTPStatus, else 500 *)
          end
      end
  end.

(* the error values of the harness: shape 0 SystemComplexError{c, text}; 1 SystemError(c);
   2 a struct with the methods selected by mask (1 Code() = c, 2 Status() = st, 4 Cause(), 8 Unwrap());
   3 *SystemComplexError; 4 a struct embedding SystemError; 5 a pointer with Code() = c whose
   Cause() and Unwrap() return the value itself; wrap <> 0: wrapped by the errors
   package (Wrap / WithMessage / WithStack), which has neither Code() nor Status() *)
Definition dyn_of (shape c st : Z) (text : bytes) (mask wrap : Z) : dyn :=
  let none := {| d_cplx := None; d_sys := None; d_code := None; d_status := None; d_text := text |} in
  if negb (wrap =? 0) then none
  else if shape =? 0 then {| d_cplx := Some (c, text); d_sys := None; d_code := None; d_status := None; d_text := text |}
  else if shape =? 1 then {| d_cplx := None; d_sys := Some c; d_code := None; d_status := None; d_text := text |}
  else if shape =? 2 then
    {| d_cplx := None; d_sys := None;
       d_code := if Z.odd mask then Some c else None;
       d_status := if Z.odd (mask / 2) then Some st else None; d_text := text |}
  else if shape =? 5 then {| d_cplx := None; d_sys := None; d_code := Some c; d_status := None; d_text := text |}
  else none.

(* ---- WriteVersion(w, r, version): "major.minor.revision-extra", every number through
   strconv.Atoi with the error ignored ---- *)
(* strings.Split(s, sep) for a one-byte separator *)
Fixpoint split_on (sep : N) (s : bytes) (cur : bytes) : list bytes :=
  match s with
  | [] => [rev cur]
  | c :: t => if (c =? sep)%N then rev cur :: split_on sep t [] else split_on sep t (c :: cur)
  end.

Definition is_digit (c : N) : bool := ((48 <=? c) && (c <=? 57))%N.
Definition max_i64 : Z := 9223372036854775807.
Definition max_u64 : Z := 18446744073709551615.
(* strconv.ParseUint(s, 10, 64), left to right: the first invalid byte is a syntax error, the
   first uint64 overflow a range error -- whichever comes first decides *)
Inductive scan_res := ScanOk (n : Z) | ScanSyntax | ScanRange.
Fixpoint atoi_scan (n : Z) (s : bytes) : scan_res :=
  match s with
  | [] => ScanOk n
  | c :: t =>
      if negb (is_digit c) then ScanSyntax
      else if max_u64 / 10 + 1 <=? n then ScanRange
      else let n1 := n * 10 + (Z.of_N c - 48) in
           if max_u64 <? n1 then ScanRange else atoi_scan n1 t
  end.
(* strconv.Atoi with the error dropped: 0 on a syntax error, the nearest int on a range error *)
Definition atoi (s : bytes) : Z :=
  let '(neg, ds) := match s with
                    | 45%N :: t => (true, t)
                    | 43%N :: t => (false, t)
                    | _ => (false, s)
                    end in
  match ds with
  | [] => 0
  | _ => match atoi_scan 0 ds with
         | ScanSyntax => 0
         | ScanRange => if neg then - (max_i64 + 1) else max_i64
         | ScanOk un => if neg then (if max_i64 + 1 <? un then - (max_i64 + 1) else - un)
                        else (if max_i64 <? un then max_i64 else un)
         end
  end.

Definition nth_part (l : list bytes) (i : nat) : Z := match nth_error l i with Some p => atoi p | None => 0 end.

Definition k_major : bytes := [109; 97; 106; 111; 114]%N.
Definition k_minor : bytes := [109; 105; 110; 111; 114]%N.
Definition k_revision : bytes := [114; 101; 118; 105; 115; 105; 111; 110]%N.
Definition k_extra : bytes := [101; 120; 116; 114; 97]%N.
Definition k_version : bytes := [118; 101; 114; 115; 105; 111; 110]%N.
Definition k_signature : bytes := [115; 105; 103; 110; 97; 116; 117; 114; 101]%N.

Definition version_value (g : cfg) (version : bytes) : jv :=
  let vs := split_on 45 version [] in
  let extra := match vs with _ :: e :: _ => atoi e | _ => 0 end in
  let ps := split_on 46 (match vs with v0 :: _ => v0 | [] => [] end) [] in
  (* json.Marshal sorts the keys of the map *)
  JObj [(k_extra, JInt extra); (k_major, JInt (nth_part ps 0)); (k_minor, JInt (nth_part ps 1));
        (k_revision, JInt (nth_part ps 2)); (k_signature, JStr (srv_name g)); (k_version, JStr version)].

Definition respond_version (g : cfg) (cb : bytes) (version : bytes) : resp :=
  respond g cb (PData (version_value g version) []).

(* ---- client ---- *)
(* what apiParse sees after json.Unmarshal(body, &map): *)
Inductive view :=
| VFail               (* not a JSON object *)
| VNoCode             (* no member "code" *)
| VNotNum             (* "code" is not a number *)
| VCode (c : Z).      (* int(value) of the float64 *)

(* float64(z) for an integer literal: round to nearest, ties to even, 53 significant bits *)
Definition round53 (z : Z) : Z :=
  let a := Z.abs z in
  if a <? 9007199254740992 then z
  else
    let e := Z.log2 a - 52 in
    let q := a / 2 ^ e in
    let r := a mod 2 ^ e in
    let half := 2 ^ (e - 1) in
    let q' := if r <? half then q else if half <? r then q + 1 else if Z.even q then q else q + 1 in
    Z.sgn z * (q' * 2 ^ e).

(* int(f) for a float64 given by its bits: truncation toward zero (|f| < 2^63) *)
Definition f64_to_int (bits : N) : Z :=
  let b := Z.of_N bits in
  let neg := 9223372036854775808 <=? b in
  let e := (b / 4503599627370496) mod 2048 in
  let frac := b mod 4503599627370496 in
  let m := if e =? 0 then frac else frac + 4503599627370496 in
  let e' := if e =? 0 then 1 else e in
  let a := if 1075 <=? e' then m * 2 ^ (e' - 1075) else m / 2 ^ (1075 - e') in
  if neg then - a else a.

Fixpoint lookup (k : bytes) (m : list (bytes * jv)) : option jv :=
  match m with
  | [] => None
  | (k', v) :: t => if bytes_eqb k k' then Some v else lookup k t
  end.

(* the view of a marshalled object (oracle law: parse after marshal gives the members back) *)
Definition view_of_members (m : list (bytes * jv)) : view :=
  match lookup k_code m with
  | None => VNoCode
  | Some (JInt z) => VCode (round53 z)
  | Some (JNum bits) => VCode (f64_to_int bits)   (* only with a replaced filter hook *)
  | Some _ => VNotNum
  end.

(* ApiRequest: (code, err != nil) *)
Definition client (st : Z) (v : view) : Z * bool :=
  match v with
  | VCode c =>
      if c =? 0 then (0, (st <? 200) || (300 <=? st))   (* fix 219c663: only HTTP 2xx is success *)
      else (c, true)
  | _ => (0, true)
  end.

(* the view of an abstract body; [tv] is the oracle's answer for a text body, [jtv] its answer
   for the text callback(json) (in practice VFail: a JSONP body is not a JSON document) *)
Definition body_view (b : abody) (tv jtv : view) : view :=
  match b with
  | BEnv [] m => view_of_members m
  | BEnv _ _ => jtv
  | BText _ => tv
  end.

(* ---- harness interface ----
   case (payload xcb xserver pid api xmb jtv fx)   fx = (mw dt len ...), see [fetched]     api: which wrapper is called (Data / WriteData / Success,
                                              Error / WriteError / CplxError / WriteCplxError); not modelled apart
     payload = (0 v xmerr tv) | (1 c) | (2 c xmsg w) | (3 c xmsg hs) | (4 st xmsg tv) | (5 xversion): WriteVersion | (6 st (5 (xkey v)...) xmerr tv): Data with a replaced FilterData
               | (8 shape c st xtext mask cause wrap tv): Error() on an error value with a combination of optional methods   st = -1: no Status()
     v = (0) | (1 b) | (2 bits) | (3 xstr) | (4 v...) | (5 (xkey v)...) | (6 k)
     tv = (0) | (1) | (2) | (3 c): what encoding/json + apiParse make of the text body
   xmb: json.Marshal of the expected envelope object, computed by the harness itself (empty for
   text bodies).
   observation (status ctype xserver body client xwire xgot)   xwire = the complete body bytes,
   xgot = the body ApiRequest returns (what apiGet fetched)
     ctype 0 json 1 javascript 2 text;  body = (0 xcb ((xkey v)...)) | (1 xtext)
     client = (err code);  jtv: the oracle's view of the text callback(json) *)
Fixpoint sx_jv (fuel : nat) (s : sx) : option jv :=
  match fuel with
  | O => None
  | S f =>
      match s with
      | SL [SZ 0] => Some JNull
      | SL [SZ 1; SZ b] => Some (JBool (negb (b =? 0)))
      | SL [SZ 2; SZ bits] => Some (JNum (Z.to_N bits))
      | SL [SZ 3; SB str] => Some (JStr str)
      | SL (SZ 4 :: items) =>
          (fix go (l : list sx) : option jv :=
             match l with
             | [] => Some (JArr [])
             | x :: t => match sx_jv f x, go t with
                         | Some v, Some (JArr r) => Some (JArr (v :: r))
                         | _, _ => None
                         end
             end) items
      | SL (SZ 5 :: items) =>
          (fix go (l : list sx) : option jv :=
             match l with
             | [] => Some (JObj [])
             | SL [SB k; x] :: t => match sx_jv f x, go t with
                                    | Some v, Some (JObj r) => Some (JObj ((k, v) :: r))
                                    | _, _ => None
                                    end
             | _ => None
             end) items
      | SL [SZ 6; SZ k] => Some (JBad (Z.to_N k))
      | _ => None
      end
  end.

Fixpoint jv_sx (v : jv) : sx :=
  match v with
  | JNull => SL [SZ 0]
  | JBool b => SL [SZ 1; sbool b]
  | JNum bits => SL [SZ 2; sN bits]
  | JStr s => SL [SZ 3; SB s]
  | JArr l => SL (SZ 4 :: (fix go (l : list jv) := match l with [] => [] | x :: t => jv_sx x :: go t end) l)
  | JObj m => SL (SZ 5 :: (fix go (m : list (bytes * jv)) :=
                             match m with [] => [] | (k, x) :: t => SL [SB k; jv_sx x] :: go t end) m)
  | JBad k => SL [SZ 6; sN k]
  | JInt z => SL [SZ 7; SZ z]
  end.

Definition sx_view (s : sx) : option view :=
  match s with
  | SL [SZ 0] => Some VFail
  | SL [SZ 1] => Some VNoCode
  | SL [SZ 2] => Some VNotNum
  | SL [SZ 3; SZ c] => Some (VCode c)
  | _ => None
  end.

Definition sx_payload (s : sx) : option (payload * view) :=
  match s with
  | SL [SZ 0; v; SB merr; tv] =>
      match sx_jv 64 v, sx_view tv with Some v', Some t => Some (PData v' merr, t) | _, _ => None end
  | SL [SZ 1; SZ c] => Some (PSys c, VFail)
  | SL [SZ 2; SZ c; SB msg; SZ _] => Some (PCplx c msg, VFail)   (* variant: Error / CplxError *)
  | SL [SZ 3; SZ c; SB msg; SZ _] => Some (PApp c msg, VFail)    (* variant: the error also has a Status() *)
  | SL [SZ 4; SZ st; SB msg; tv] =>
      match sx_view tv with
      | Some t => Some (PPlain (if st <? 0 then None else Some st) msg, t)
      | None => None
      end
  | SL [SZ 8; SZ shape; SZ c; SZ st; SB text; SZ mask; SZ _; SZ wrap; tv] =>
      match sx_view tv with
      | Some t => Some (kind_of (dyn_of shape c st text mask wrap), t)
      | None => None
      end
  | SL [SZ 6; SZ st; mm; SB merr; tv] =>
      match sx_jv 64 mm, sx_view tv with
      | Some (JObj m), Some t => Some (PRaw (if st <? 0 then None else Some st) m merr, t)
      | _, _ => None
      end
  | _ => None
  end.

(* the float64 bit pattern of an integer (a Go int inside the data member is read back by a
   JSON decoder as a float64) *)
Definition f64_bits_of_int (z : Z) : N :=
  let a := Z.abs (round53 z) in
  if a =? 0 then 0%N
  else let e := Z.log2 a in
       let mant := (if e <=? 52 then a * 2 ^ (52 - e) else a / 2 ^ (e - 52)) - 4503599627370496 in
       Z.to_N ((if z <? 0 then 9223372036854775808 else 0) + (e + 1023) * 4503599627370496 + mant).

(* encoding/json writes every byte that does not start a valid UTF-8 sequence (utf8.DecodeRune
   gives RuneError with size 1) as U+FFFD; the table is unicode/utf8's first / acceptRanges *)
Definition u_first (b : N) : option (N * N * N) :=
  (if b <? 194 then None
   else if b <? 224 then Some (2, 128, 191)
   else if b =? 224 then Some (3, 160, 191)
   else if b <? 237 then Some (3, 128, 191)
   else if b =? 237 then Some (3, 128, 159)
   else if b <? 240 then Some (3, 128, 191)
   else if b =? 240 then Some (4, 144, 191)
   else if b <? 244 then Some (4, 128, 191)
   else if b =? 244 then Some (4, 128, 143)
   else None)%N.
Definition in_r (lo hi c : N) : bool := ((lo <=? c) && (c <=? hi))%N.
Definition u_fffd : bytes := [239; 191; 189]%N.

Fixpoint utf8_fix (s : bytes) : bytes :=
  match s with
  | [] => []
  | b :: t =>
      if (b <? 128)%N then b :: utf8_fix t
      else match u_first b with
           | None => u_fffd ++ utf8_fix t
           | Some (size, lo, hi) =>
               if (size =? 2)%N then
                 match t with
                 | c1 :: t' => if in_r lo hi c1 then b :: c1 :: utf8_fix t' else u_fffd ++ utf8_fix t
                 | _ => u_fffd ++ utf8_fix t
                 end
               else if (size =? 3)%N then
                 match t with
                 | c1 :: c2 :: t' => if in_r lo hi c1 && in_r 128 191 c2 then b :: c1 :: c2 :: utf8_fix t'
                                     else u_fffd ++ utf8_fix t
                 | _ => u_fffd ++ utf8_fix t
                 end
               else
                 match t with
                 | c1 :: c2 :: c3 :: t' =>
                     if in_r lo hi c1 && in_r 128 191 c2 && in_r 128 191 c3 then b :: c1 :: c2 :: c3 :: utf8_fix t'
                     else u_fffd ++ utf8_fix t
                 | _ => u_fffd ++ utf8_fix t
                 end
           end
  end.

(* what a JSON decoder reads back from the marshalled value (map keys: valid UTF-8 assumed) *)
Fixpoint norm_jv (v : jv) : jv :=
  match v with
  | JInt z => JNum (f64_bits_of_int z)
  | JStr s => JStr (utf8_fix s)
  | JArr l => JArr ((fix go (l : list jv) := match l with [] => [] | x :: t => norm_jv x :: go t end) l)
  | JObj m => JObj ((fix go (m : list (bytes * jv)) :=
                       match m with [] => [] | (k, x) :: t => (k, norm_jv x) :: go t end) m)
  | _ => v
  end.

(* members as a decoder reads them back (exact integer codes are compared through the complete
   body bytes, see wire_exec) *)
Definition member_sx (kv : bytes * jv) : sx := SL [SB (fst kv); jv_sx (norm_jv (snd kv))].

Definition ctype_code (c : ctype) : Z := match c with CtJson => 0 | CtJs => 1 | CtText => 2 end.

Definition body_sx (b : abody) : sx :=
  match b with
  | BEnv cb m => SL [SZ 0; SB cb; SL (map member_sx m)]
  | BText t => SL [SZ 1; SB t]
  end.

(* the bytes on the wire, given the bytes json.Marshal produces for the members of an envelope
   body ([mb]; supplied to the model run by the harness's own json.Marshal call -- the oracle
   replayed): fmt.Fprintf(w, "%s(%s)", cb, string(b)) with a callback, w.Write(b) without *)
Definition wire_exec (mb : bytes) (b : abody) : bytes :=
  match b with
  | BEnv [] _ => mb
  | BEnv cb _ => cb ++ [40%N] ++ mb ++ [41%N]
  | BText t => t
  end.

(* ---- the client's fetch: apiGet = http.Get + ioutil.ReadAll(resp.Body) ----
   The transport delivers the body as a list of read segments ((n, nil) reads, empty reads
   included) ended by io.EOF, which may come together with the last bytes; ReadAll appends every
   chunk until io.EOF.  [dt] is kept to mirror the two ways the end can arrive. *)
Fixpoint fetch (segs : list bytes) (dt : bool) (acc : bytes) : bytes :=
  match segs with
  | [] => acc                                   (* (0, io.EOF) *)
  | s :: t => match t with
              | [] => if dt then acc ++ s        (* (n, io.EOF): the last bytes with the end *)
                      else fetch t dt (acc ++ s)
              | _ => fetch t dt (acc ++ s)
              end
  end.

(* the body cut as the case says: (len ...) and the rest as the last segment *)
Fixpoint cut_body (lens : list sx) (d : bytes) : list bytes :=
  match lens with
  | [] => match d with [] => [] | _ => [d] end
  | SZ n :: t => match takeN (Z.to_N n) d with
                 | Some (a, r) => a :: cut_body t r
                 | None => match d with [] => [] | _ => [d] end
                 end
  | _ :: t => cut_body t d
  end.

(* fx = (mw dt len ...): mw = the handler runs behind a middleware that sets Content-Length (not
   visible in the model: the body bytes are the same); the response body reaches the client cut
   into segments of the given lengths *)
Definition fetched (fx : sx) (wire : bytes) : option bytes :=
  match fx with
  | SL (SZ _ :: SZ dt :: lens) => Some (fetch (cut_body lens wire) (negb (dt =? 0)) [])
  | _ => None
  end.

Definition obs_c19 (r : resp) (tv jtv : view) (mb : bytes) (fx : sx) : sx :=
  let cl := let '(code, err) := client (status r) (body_view (body r) tv jtv) in SL [sbool err; SZ code] in
  match fetched fx (wire_exec mb (body r)) with
  | Some got =>
      SL [SZ (status r); SZ (ctype_code (ctyp r)); SB (server r); body_sx (body r); cl; SB (wire_exec mb (body r)); SB got]
  | None => bad_case
  end.

(* overlapping responses: handlers are values, a response is a function of its own handler's
   payload only; the case lists the payloads whose handlers are being served at the same time *)
Definition obs_resp (r : resp) (mb : bytes) : sx :=
  SL [SZ (status r); SZ (ctype_code (ctyp r)); SB (server r); body_sx (body r); SB (wire_exec mb (body r))].

Definition obs_sub (g : cfg) (sub : sx) : sx :=
  match sub with
  | SL [p; SB cb; SB mb] =>
      match sx_payload p with
      | Some (pl, _) => obs_resp (respond g cb pl) mb
      | None => bad_case
      end
  | _ => bad_case
  end.

Definition run_c19 (c : sx) : sx :=
  match c with
  | SL [SL [SZ 5; SB ver]; SB cb; SB srv; SZ pd; SZ _; SB mb; jv0; fx] =>
      match sx_view jv0 with
      | Some jtv => obs_c19 (respond_version {| srv_name := srv; pid := pd |} cb ver) VFail jtv mb fx
      | None => bad_case
      end
  | SL [p; SB cb; SB srv; SZ pd; SZ _; SB mb; jv0; fx] =>
      match sx_payload p, sx_view jv0 with
      | Some (pl, tv), Some jtv => obs_c19 (respond {| srv_name := srv; pid := pd |} cb pl) tv jtv mb fx
      | _, _ => bad_case
      end
  | SL [SZ 7; SZ _; SB srv; SZ pd; SL subs] =>
      (* (7 mode xserver pid ((payload xcb xmb) ...)): the handlers are served overlapping in time *)
      SL (map (obs_sub {| srv_name := srv; pid := pd |}) subs)
  | _ => bad_case
  end.
