(* Model of the write side of /repo/websocket (C13): conn.go 488-754 (messageWriter, flushFrame,
   ncopy, Write, WriteString, ReadFrom, Close, WritePreparedMessage, WriteMessage, WriteControl),
   compression.go (truncWriter, flateWriteWrapper.Close check), mask.go (maskBytes), prepared.go
   (frame cache).  Definitions only.  compress/flate is an oracle: operations carry the chunks
   the real flate.Writer handed to the truncWriter (recorded by the harness). *)
From Verif Require Import Lib.Base Lib.Sx Lib.WsSha1.
From Verif Require Import Gen.Gen_websocket.
Open Scope N_scope.

Definition maxHdr : N := Z.to_N websocket_maxFrameHeaderSize.
Definition maxCtl : N := Z.to_N websocket_maxControlFramePayloadSize.
Definition finalBit : N := Z.to_N websocket_finalBit.
Definition rsv1Bit : N := Z.to_N websocket_rsv1Bit.
Definition maskBit : N := Z.to_N websocket_maskBit.
Definition opCont : N := Z.to_N websocket_continuationFrame.
Definition opText : N := Z.to_N websocket_TextMessage.
Definition opBinary : N := Z.to_N websocket_BinaryMessage.
Definition opClose : N := Z.to_N websocket_CloseMessage.
Definition opPing : N := Z.to_N websocket_PingMessage.
Definition opPong : N := Z.to_N websocket_PongMessage.
Definition defaultWBuf : N := Z.to_N websocket_defaultWriteBufferSize.
Definition wordSize : N := Z.to_N websocket_wordSize.

(* isControl / isData / isValidCompressionLevel are the bodies repo2coq translated from conn.go *)
Definition okb (r : res bool) : bool := match r with Ok b => b | _ => false end.
Definition is_control (t : N) : bool := okb (websocket_isControl (Z.of_N t)).
Definition is_data (t : N) : bool := okb (websocket_isData (Z.of_N t)).

(* error codes of the observation *)
Definition eOK : N := 0.
Definition eBadOp : N := 1.          (* errBadWriteOpCode *)
Definition eInvalidCtl : N := 2.     (* errInvalidControlFrame *)
Definition eWriteClosed : N := 3.    (* errWriteClosed *)
Definition eCloseSent : N := 4.      (* ErrCloseSent (sticky writeErr) *)
Definition eOther : N := 5.          (* flate tail check, invalid level *)
Definition eExtraClient : N := 6.    (* "extra used in client mode" (sticky) *)
Definition eTransport : N := 7.      (* the transport's Write failed (sticky) *)
Definition eNoHandle : N := 9.       (* harness convention: no usable writer handle *)

(* ---- list helpers (structural, linear) ---- *)
Fixpoint split_at (n : nat) (b : bytes) : bytes * bytes :=
  match n, b with
  | O, _ => ([], b)
  | S n', [] => ([], [])
  | S n', x :: t => let (a, r) := split_at n' t in (x :: a, r)
  end.
Definition splitN (n : N) (b : bytes) : bytes * bytes := split_at (N.to_nat n) b.

Definition is_nil (b : bytes) : bool := match b with [] => true | _ => false end.

(* ---- mask.go ---- *)
Definition key_at (k : bytes) (i : N) : N := nth (N.to_nat (i mod 4)) k 0.

(* byte-at-a-time loop: b[i] ^= key[pos&3]; pos++ *)
Fixpoint mask_from (k : bytes) (pos : N) (b : bytes) : bytes :=
  match b with [] => [] | x :: t => N.lxor x (key_at k pos) :: mask_from k (N.succ pos) t end.

(* fast variant used by the executable model: the key is rotated instead of indexed *)
Definition rot (k : bytes) : bytes := match k with [] => [] | a :: t => t ++ [a] end.
Fixpoint mask_rot (k : bytes) (b : bytes) : bytes :=
  match b with
  | [] => []
  | x :: t => N.lxor x (hd 0 k) :: mask_rot (rot k) t
  end.
Fixpoint rot_n (n : nat) (k : bytes) : bytes := match n with O => k | S n' => rot_n n' (rot k) end.
Definition mask_fast (k : bytes) (pos : N) (b : bytes) : bytes := mask_rot (rot_n (N.to_nat (pos mod 4)) k) b.

(* maskBytes of mask.go with the word loop; [align] = address of b[0] modulo wordSize *)
Fixpoint xor_words (kw : bytes) (b : bytes) (nwords : nat) : bytes * bytes :=
  match nwords with
  | O => ([], b)
  | S n' => let (w, r) := split_at 8 b in
            let (ws, r') := xor_words kw r n' in
            (map (fun p => N.lxor (fst p) (snd p)) (combine w kw) ++ ws, r')
  end.

Definition mask_words (align : N) (k : bytes) (pos : N) (b : bytes) : bytes * N :=
  let len := lenN b in
  if len <? 2 * wordSize then (mask_from k pos b, (pos + len) mod 4)
  else
    let n0 := align mod wordSize in
    let '(hd_, rest, pos1) :=
      if n0 =? 0 then ([], b, pos)
      else let n := wordSize - n0 in
           let (a, r) := splitN n b in (mask_from k pos a, r, pos + n) in
    let kw := map (fun i => key_at k (pos1 + i)) [0;1;2;3;4;5;6;7] in
    let nw := lenN rest / wordSize in
    let (ws, tl_) := xor_words kw rest (N.to_nat nw) in
    (hd_ ++ ws ++ mask_from k pos1 tl_, (pos1 + lenN tl_) mod 4).

(* ---- compression.go: truncWriter ---- *)
Record tws := mkT { tp : bytes (* the 4 cells of w.p *); tn : N }.
Definition tw0 : tws := mkT [0;0;0;0] 0.

(* one Write(p): new state and the Write calls made on the underlying writer, in order *)
Definition tw_write (w : tws) (p : bytes) : tws * list bytes :=
  let '(w1, p1, done) :=
    if tn w <? 4 then
      let k := N.min (4 - tn w) (lenN p) in
      let (a, rest) := splitN k p in
      (mkT (firstn (N.to_nat (tn w)) (tp w) ++ a ++ skipn (N.to_nat (tn w + k)) (tp w)) (tn w + k),
       rest, is_nil rest)
    else (w, p, false) in
  if done then (w1, [])
  else
    let l1 := lenN p1 in
    let m := N.min l1 4 in
    let (front, lastm) := splitN (l1 - m) p1 in
    (mkT (skipn (N.to_nat m) (tp w1) ++ lastm) (tn w1), [firstn (N.to_nat m) (tp w1); front]).

Fixpoint tw_run (w : tws) (chunks : list bytes) : tws * list bytes :=
  match chunks with
  | [] => (w, [])
  | c :: cs => let (w1, o1) := tw_write w c in
               let (w2, o2) := tw_run w1 cs in (w2, o1 ++ o2)
  end.

Definition flate_tail_ok (w : tws) : bool := bytes_eqb (tp w) [0;0;255;255].

(* ---- conn.go: messageWriter over the write buffer ---- *)
Record cfg := mkC { srv : bool; blen : N (* len(c.writeBuf) *) }.

Record mws := mkM {
  hdr : bytes;          (* writeBuf[0:maxFrameHeaderSize] *)
  rbuf : list bytes;    (* writeBuf[maxFrameHeaderSize:pos], chunks in reverse order *)
  pos : N;
  ftype : N;
  cflag : bool;         (* messageWriter.compress *)
  keys : list bytes;    (* oracle: mask keys newMaskKey will return *)
  out : list bytes;     (* transport writes, most recent first *)
  werrc : N;            (* sticky c.writeErr: 0 none, else its code *)
  wbudget : option N    (* fault injection: Some k = k more transport writes succeed, the next one
                           fails (net.Conn.Write returns an error, nothing is written); None = never *)
}.

Definition set_hdr w h := mkM h (rbuf w) (pos w) (ftype w) (cflag w) (keys w) (out w) (werrc w) (wbudget w).
Definition set_buf w rb p := mkM (hdr w) rb p (ftype w) (cflag w) (keys w) (out w) (werrc w) (wbudget w).
Definition set_ftype w t := mkM (hdr w) (rbuf w) (pos w) t (cflag w) (keys w) (out w) (werrc w) (wbudget w).
Definition set_cflag w c := mkM (hdr w) (rbuf w) (pos w) (ftype w) c (keys w) (out w) (werrc w) (wbudget w).
Definition set_keys w k := mkM (hdr w) (rbuf w) (pos w) (ftype w) (cflag w) k (out w) (werrc w) (wbudget w).
Definition set_out w o := mkM (hdr w) (rbuf w) (pos w) (ftype w) (cflag w) (keys w) o (werrc w) (wbudget w).
Definition set_werrc w e := mkM (hdr w) (rbuf w) (pos w) (ftype w) (cflag w) (keys w) (out w) e (wbudget w).
Definition set_budget w b := mkM (hdr w) (rbuf w) (pos w) (ftype w) (cflag w) (keys w) (out w) (werrc w) b.

Definition buffered (w : mws) : bytes := concat (rev (rbuf w)).

(* checked stores into the header area; out of range = Go index panic *)
Fixpoint put (i : nat) (v : N) (h : bytes) : option bytes :=
  match h with
  | [] => None
  | x :: t => match i with O => Some (v :: t)
                         | S i' => match put i' v t with Some t' => Some (x :: t') | None => None end
              end
  end.
Fixpoint put_list (i : nat) (vs : bytes) (h : bytes) : option bytes :=
  match vs with
  | [] => Some h
  | v :: t => match put i v h with Some h' => put_list (S i) t h' | None => None end
  end.
Definition put_at (site : N) (i : N) (vs : bytes) (h : bytes) : res bytes :=
  match put_list (N.to_nat i) vs h with Some h' => Ok h' | None => Panic site end.

Definition pop_key (ks : list bytes) : bytes * list bytes :=
  match ks with [] => ([0;0;0;0], []) | k :: t => (k, t) end.

(* c.write(frameType, deadline, bufs...) : every non-empty buffer is one transport write; a
   failing one is fatal: writeFatal makes the error sticky, the remaining buffers are not written *)
Fixpoint faulty_writes (w : mws) (k : N) (bufs : list bytes) : mws * N :=
  match bufs with
  | [] => (set_budget w (Some k), eOK)
  | b :: r =>
      if is_nil b then faulty_writes w k r
      else if k =? 0 then (set_werrc (set_budget w (Some 0)) eTransport, eTransport)
      else faulty_writes (set_out w (b :: out w)) (N.pred k) r
  end.
Definition conn_write (w : mws) (t : N) (bufs : list bytes) : mws * N :=
  if negb (werrc w =? 0) then (w, werrc w)
  else
    match wbudget w with
    | None =>
        let o := fold_left (fun o b => if is_nil b then o else b :: o) bufs (out w) in
        let w1 := set_out w o in
        (if t =? opClose then set_werrc w1 eCloseSent else w1, eOK)
    | Some k =>
        let (w1, e) := faulty_writes w k bufs in
        if negb (e =? 0) then (w1, e)
        else (if t =? opClose then set_werrc w1 eCloseSent else w1, eOK)
    end.

(* flushFrame(final, extra) *)
Definition flush_frame (c : cfg) (w : mws) (final : bool) (extra : bytes) : res (mws * N) :=
  let length := pos w - maxHdr + lenN extra in
  if is_control (ftype w) && (negb final || (maxCtl <? length)) then Ok (w, eInvalidCtl)
  else
    let b0 := N.lor (N.lor (u8 (ftype w)) (if final then finalBit else 0))
                    (if cflag w then rsv1Bit else 0) in
    let w := set_cflag w false in
    let b1 := if srv c then 0 else maskBit in
    let fp0 := if srv c then 4 else 0 in
    let* fh :=
      (if 65536 <=? length then
         let* h := put_at 1 fp0 ([b0; N.lor b1 127] ++ be8 (u64 length)) (hdr w) in Ok (fp0, h)
       else if 125 <? length then
         let* h := put_at 2 (fp0 + 6) ([b0; N.lor b1 126] ++ be2 (u16 length)) (hdr w) in Ok (fp0 + 6, h)
       else
         let* h := put_at 3 (fp0 + 8) [b0; N.lor b1 (u8 length)] (hdr w) in Ok (fp0 + 8, h)) in
    let '(fp, h1) := fh in
    let data := buffered w in
    if srv c then
      let w1 := set_hdr w h1 in
      let '(w2, e) := conn_write w1 (ftype w1) [skipn (N.to_nat fp) h1 ++ data; extra] in
      if negb (e =? 0) then Ok (w2, e)
      else if final then Ok (w2, eOK)
      else Ok (set_ftype (set_buf w2 [] maxHdr) opCont, eOK)
    else
      let (key, ks) := pop_key (keys w) in
      let* h2 := put_at 4 (maxHdr - 4) key h1 in
      let masked := mask_fast key 0 data in
      let w1 := set_keys (set_buf (set_hdr w h2) [masked] (pos w)) ks in
      if negb (is_nil extra) then Ok (set_werrc w1 (if werrc w1 =? 0 then eExtraClient else werrc w1), eExtraClient)
      else
        let '(w2, e) := conn_write w1 (ftype w1) [skipn (N.to_nat fp) h2 ++ masked; extra] in
        if negb (e =? 0) then Ok (w2, e)
        else if final then Ok (w2, eOK)
        else Ok (set_ftype (set_buf w2 [] maxHdr) opCont, eOK).

Definition buf_append (w : mws) (a : bytes) (n : N) : mws := set_buf w (a :: rbuf w) (pos w + n).

(* the copy loop shared by Write and WriteString (ncopy + copy); [fuel] is any list at least
   one longer than p *)
Fixpoint copy_loop (fuel : bytes) (c : cfg) (w : mws) (p : bytes) (plen : N) : res (mws * N) :=
  if plen =? 0 then Ok (w, eOK)
  else match fuel with
  | [] => Err 99
  | _ :: f =>
      let* r := (if blen c <=? pos w then flush_frame c w false [] else Ok (w, eOK)) in
      let '(w1, e) := r in
      if negb (e =? 0) then Ok (w1, e)
      else
        let n := N.min (blen c - pos w1) plen in
        let (a, rest) := splitN n p in
        copy_loop f c (buf_append w1 a n) rest (plen - n)
  end.

Definition mw_write (c : cfg) (w : mws) (p : bytes) : res (mws * N) :=
  let l := lenN p in
  if (2 * blen c <? l) && srv c then flush_frame c w false p
  else copy_loop (0 :: p) c w p l.

Definition mw_write_string (c : cfg) (w : mws) (p : bytes) : res (mws * N) :=
  copy_loop (0 :: p) c w p (lenN p).

(* ReadFrom(r).  The reader is (data, caps, eof_with_data): call i returns at most caps[i]
   bytes (everything that fits once caps is used up); when data is exhausted it returns EOF,
   together with the last bytes if [ewd]. *)
Fixpoint read_from_loop (fuel : bytes) (c : cfg) (w : mws) (data : bytes) (dlen : N)
         (caps : list N) (ewd : bool) : res (mws * N) :=
  match fuel with
  | [] => Err 99
  | _ :: f =>
      let* r := (if pos w =? blen c then flush_frame c w false [] else Ok (w, eOK)) in
      let '(w1, e) := r in
      if negb (e =? 0) then Ok (w1, e)
      else
        let space := blen c - pos w1 in
        let '(cap, caps') := match caps with [] => (dlen, []) | x :: t => (x, t) end in
        let n := N.min (N.min cap space) dlen in
        let (a, rest) := splitN n data in
        let w2 := if n =? 0 then w1 else buf_append w1 a n in
        let dlen' := dlen - n in
        if (dlen =? 0) || ((dlen' =? 0) && ewd) then Ok (w2, eOK)
        else read_from_loop f c w2 rest dlen' caps' ewd
  end.

Definition mw_read_from (c : cfg) (w : mws) (data : bytes) (caps : list N) (ewd : bool) : res (mws * N) :=
  read_from_loop (0 :: 0 :: 0 :: data ++ caps) c w data (lenN data) caps ewd.

Definition mw_new (w : mws) (t : N) : mws := set_cflag (set_ftype (set_buf w [] maxHdr) t) false.

(* ---- connection-level state: the current writer handle, compression, prepared cache ---- *)
Record cst := mkS {
  mw : mws;
  wopen : bool;      (* c.writer != nil *)
  hkind : N;         (* handle the application holds: 0 none, 1 messageWriter, 2 flateWriteWrapper *)
  mwclosed : bool;   (* messageWriter.err == errWriteClosed *)
  zopen : bool;      (* flateWriteWrapper.fw != nil *)
  tws_ : tws;
  comp : bool;       (* c.newCompressionWriter != nil (negotiated) *)
  ewc : bool;        (* c.enableWriteCompression *)
  lvl : Z;           (* c.compressionLevel *)
  pcache : list ((N * bool * bool * Z) * bytes)   (* PreparedMessage.frames, all messages *)
}.

Definition st_mw s m := mkS m (wopen s) (hkind s) (mwclosed s) (zopen s) (tws_ s) (comp s) (ewc s) (lvl s) (pcache s).
Definition st_h s o k mc z t := mkS (mw s) o k mc z t (comp s) (ewc s) (lvl s) (pcache s).

Definition feed_writes (c : cfg) (m : mws) (ws : list bytes) : res (mws * N) :=
  fold_left (fun r p => let* x := r in let '(m1, e) := x in
                        if negb (e =? 0) then Ok (m1, e) else mw_write c m1 p) ws (Ok (m, eOK)).

(* messageWriter.Close *)
Definition do_mw_close (c : cfg) (s : cst) : res (cst * N) :=
  if mwclosed s then Ok (s, eWriteClosed)
  else
    let* r := flush_frame c (mw s) true [] in
    let '(m1, e) := r in
    if negb (e =? 0) then Ok (st_mw s m1, e)
    else Ok (st_h (st_mw s m1) false (hkind s) true (zopen s) (tws_ s), eOK).

(* flateWriteWrapper.Close with the chunks fw.Flush() produced *)
Definition do_z_close (c : cfg) (s : cst) (chunks : list bytes) : res (cst * N) :=
  if negb (zopen s) then Ok (s, eWriteClosed)
  else
    let (t1, ws) := tw_run (tws_ s) chunks in
    let* r := feed_writes c (mw s) ws in
    let '(m1, e1) := r in
    let s1 := st_h (st_mw s m1) (wopen s) (hkind s) (mwclosed s) false t1 in
    if negb (flate_tail_ok t1) then Ok (s1, eOther)
    else
      let* r2 := do_mw_close c s1 in
      let '(s2, e2) := r2 in
      Ok (s2, if negb (e1 =? 0) then e1 else e2).

(* the c.writer.Close() of prepWrite: result ignored *)
Definition implicit_close (c : cfg) (s : cst) (chunks : list bytes) : res cst :=
  if negb (wopen s) then Ok s
  else
    let* r := (if (hkind s =? 2) then do_z_close c s chunks else do_mw_close c s) in
    Ok (st_h (fst r) false (hkind (fst r)) (mwclosed (fst r)) (zopen (fst r)) (tws_ (fst r))).

Definition prep_write (c : cfg) (s : cst) (t : N) (chunks : list bytes) : res (cst * N) :=
  let* s1 := implicit_close c s chunks in
  if negb (is_control t) && negb (is_data t) then Ok (s1, eBadOp)
  else Ok (s1, werrc (mw s1)).

Definition do_next (c : cfg) (s : cst) (t : N) (chunks : list bytes) : res (cst * N) :=
  let* r := prep_write c s t chunks in
  let '(s1, e) := r in
  if negb (e =? 0) then Ok (st_h s1 (wopen s1) 0 (mwclosed s1) (zopen s1) (tws_ s1), e)
  else
    let m := mw_new (mw s1) t in
    if comp s1 && ewc s1 && is_data t then
      Ok (st_h (st_mw s1 (set_cflag m true)) true 2 false true tw0, eOK)
    else Ok (st_h (st_mw s1 m) true 1 false false tw0, eOK).

Definition lift_mw (s : cst) (r : res (mws * N)) : res (cst * N) :=
  let* x := r in Ok (st_mw s (fst x), snd x).

Definition do_write (c : cfg) (s : cst) (p : bytes) (chunks : list bytes) : res (cst * N) :=
  if hkind s =? 2 then
    if negb (zopen s) then Ok (s, eWriteClosed)
    else let (t1, ws) := tw_run (tws_ s) chunks in
         let s1 := st_h s (wopen s) (hkind s) (mwclosed s) (zopen s) t1 in
         lift_mw s1 (feed_writes c (mw s1) ws)
  else if hkind s =? 1 then
    if mwclosed s then Ok (s, eWriteClosed) else lift_mw s (mw_write c (mw s) p)
  else Ok (s, eNoHandle).

Definition do_write_string (c : cfg) (s : cst) (p : bytes) (chunks : list bytes) : res (cst * N) :=
  if hkind s =? 1 then
    if mwclosed s then Ok (s, eWriteClosed) else lift_mw s (mw_write_string c (mw s) p)
  else do_write c s p chunks.

Definition do_read_from (c : cfg) (s : cst) (p : bytes) (caps : list N) (ewd : bool)
           (chunks : list bytes) : res (cst * N) :=
  if hkind s =? 1 then
    if mwclosed s then Ok (s, eWriteClosed) else lift_mw s (mw_read_from c (mw s) p caps ewd)
  else do_write c s p chunks.

Definition do_close (c : cfg) (s : cst) (chunks : list bytes) : res (cst * N) :=
  if hkind s =? 2 then do_z_close c s chunks
  else if hkind s =? 1 then do_mw_close c s
  else Ok (s, eNoHandle).

(* WriteMessage: [wchunks] flate output during Write, [cchunks] during Close *)
Definition do_write_message (c : cfg) (s : cst) (t : N) (p : bytes) (ichunks wchunks cchunks : list bytes)
  : res (cst * N) :=
  if srv c && (negb (comp s) || negb (ewc s)) then
    let* r := prep_write c s t ichunks in
    let '(s1, e) := r in
    if negb (e =? 0) then Ok (s1, e)
    else
      let m := mw_new (mw s1) t in
      let n := N.min (blen c - maxHdr) (lenN p) in
      let (a, rest) := splitN n p in
      let m1 := buf_append m a n in
      (* the fast path uses a messageWriter of its own: c.writer and the handle are untouched *)
      lift_mw s1 (flush_frame c m1 true rest)
  else
    let* r := do_next c s t ichunks in
    let '(s1, e) := r in
    if negb (e =? 0) then Ok (s1, e)
    else
      let* r2 := do_write c s1 p wchunks in
      let '(s2, e2) := r2 in
      if negb (e2 =? 0) then Ok (s2, e2) else do_close c s2 cchunks.

(* WriteControl *)
Definition do_control (c : cfg) (s : cst) (t : N) (p : bytes) : cst * N :=
  if negb (is_control t) then (s, eBadOp)
  else if maxCtl <? lenN p then (s, eInvalidCtl)
  else
    let m := mw s in
    if negb (werrc m =? 0) then (s, werrc m)
    else
      let b0 := N.lor (u8 t) finalBit in
      let b1 := u8 (lenN p) in
      if srv c then
        let (m1, e) := conn_write m t [[b0; b1] ++ p] in (st_mw s m1, e)
      else
        let (key, ks) := pop_key (keys m) in
        let (m1, e) := conn_write (set_keys m ks) t [[b0; N.lor b1 maskBit] ++ key ++ mask_fast key 0 p] in
        (st_mw s m1, e).

(* PreparedMessage.frame(key): WriteMessage on a fresh connection with the default buffer *)
Definition mws0 (ks : list bytes) : mws := mkM (repeat 0 (N.to_nat maxHdr)) [] maxHdr 0 false ks [] 0 None.
Definition cst0 (m : mws) (cp : bool) (l : Z) : cst := mkS m false 0 false false tw0 cp true l [].

Definition prepared_frame (is_srv cp : bool) (l : Z) (t : N) (p : bytes) (ks : list bytes)
           (wchunks cchunks : list bytes) : res (bytes * list bytes * N) :=
  let c := mkC is_srv (defaultWBuf + maxHdr) in
  let* r := do_write_message c (cst0 (mws0 ks) cp l) t p [] wchunks cchunks in
  let '(s1, e) := r in
  Ok (concat (rev_append (out (mw s1)) []), keys (mw s1), e).

Definition pkey_eqb (a b : N * bool * bool * Z) : bool :=
  let '(i, s1, c1, l1) := a in let '(j, s2, c2, l2) := b in
  (i =? j) && Bool.eqb s1 s2 && Bool.eqb c1 c2 && (l1 =? l2)%Z.
Fixpoint pfind (k : N * bool * bool * Z) (l : list ((N * bool * bool * Z) * bytes)) : option bytes :=
  match l with [] => None | (k', v) :: t => if pkey_eqb k k' then Some v else pfind k t end.

Definition do_prepared (c : cfg) (s : cst) (idx t : N) (p : bytes) (wchunks cchunks : list bytes)
  : res (cst * N) :=
  let cp := comp s && ewc s && is_data t in
  let k := (idx, srv c, cp, lvl s) in
  let* fr :=
    (match pfind k (pcache s) with
     | Some v => Ok (v, s, eOK)
     | None =>
         let* r := prepared_frame (srv c) cp (lvl s) t p (keys (mw s)) wchunks cchunks in
         let '(v, ks, e) := r in
         let s1 := st_mw s (set_keys (mw s) ks) in
         Ok (v, mkS (mw s1) (wopen s1) (hkind s1) (mwclosed s1) (zopen s1) (tws_ s1) (comp s1) (ewc s1)
                    (lvl s1) ((k, v) :: pcache s1), e)
     end) in
  let '(v, s1, e) := fr in
  if negb (e =? 0) then Ok (s1, e)
  else let (m1, e1) := conn_write (mw s1) t [v] in Ok (st_mw s1 m1, e1).

Definition valid_level (l : Z) : bool := okb (websocket_isValidCompressionLevel l).

(* ================= independent RFC 6455 / 7692 frame parser and validity ================= *)
Record pframe := mkF {
  pf_fin : bool; pf_rsv : N (* rsv1*4 + rsv2*2 + rsv3 *); pf_op : N;
  pf_masked : bool; pf_key : bytes;
  pf_form : N (* 0: 7-bit length, 1: 16-bit, 2: 64-bit *);
  pf_len : N; pf_payload : bytes (* unmasked *) }.

(* take exactly n bytes; walks at most min n |b| cells (a hostile 64-bit length costs nothing) *)
Fixpoint take_cnt (n : N) (b : bytes) : option (bytes * bytes) :=
  if n =? 0 then Some ([], b)
  else match b with
       | [] => None
       | x :: t => match take_cnt (N.pred n) t with Some (a, r) => Some (x :: a, r) | None => None end
       end.

Definition parse_one (w : bytes) : option (pframe * bytes) :=
  match w with
  | b0 :: b1 :: r =>
      let fin := 128 <=? b0 in
      let rsv := (b0 / 16) mod 8 in
      let op := b0 mod 16 in
      let masked := 128 <=? b1 in
      let l7 := b1 mod 128 in
      match (if l7 =? 126 then
               match r with a :: b :: r' => Some (1, ube2 a b, r') | _ => None end
             else if l7 =? 127 then
               match r with a :: b :: c :: d :: e :: f :: g :: h :: r' => Some (2, ube8 a b c d e f g h, r')
                       | _ => None end
             else Some (0, l7, r)) with
      | None => None
      | Some (form, len, r1) =>
          match (if masked then match r1 with a :: b :: c :: d :: r' => Some ([a;b;c;d], r') | _ => None end
                 else Some ([], r1)) with
          | None => None
          | Some (key, r2) =>
              match take_cnt len r2 with
              | None => None
              | Some (pl, r3) =>
                  Some (mkF fin rsv op masked key form len (if masked then mask_fast key 0 pl else pl), r3)
              end
          end
      end
  | _ => None
  end.

(* the whole wire must consist of complete frames; [fuel] any list at least as long as the wire *)
Fixpoint rfc_parse_f (fuel : bytes) (w : bytes) : option (list pframe) :=
  match w with
  | [] => Some []
  | _ =>
    match fuel with
    | [] => None
    | _ :: f => match parse_one w with
                | None => None
                | Some (fr, rest) => match rfc_parse_f f rest with Some l => Some (fr :: l) | None => None end
                end
    end
  end.
Definition rfc_parse (w : bytes) : option (list pframe) := rfc_parse_f w w.

Definition op_known (op : N) : bool :=
  (op =? 0) || (op =? 1) || (op =? 2) || (op =? 8) || (op =? 9) || (op =? 10).
Definition op_control (op : N) : bool := 8 <=? op.

(* per-frame rules; [from_srv]: the sender is a server; [pmd]: permessage-deflate negotiated *)
Definition frame_ok (from_srv pmd : bool) (f : pframe) : bool :=
  op_known (pf_op f)
  && (pf_rsv f mod 4 =? 0)                                  (* RSV2 = RSV3 = 0 *)
  && (pmd || (pf_rsv f =? 0))                               (* RSV1 needs the extension *)
  && Bool.eqb (pf_masked f) (negb from_srv)                 (* client masks, server does not *)
  && (if pf_form f =? 0 then pf_len f <=? 125               (* minimal length form *)
      else if pf_form f =? 1 then (125 <? pf_len f) && (pf_len f <=? 65535)
      else (65535 <? pf_len f) && (pf_len f <? 9223372036854775808))
  && (if op_control (pf_op f) then pf_fin f && (pf_len f <=? 125) && (pf_rsv f =? 0) else true).

(* sequencing: [inmsg] = a fragmented message is open *)
Fixpoint seq_ok (inmsg : bool) (fs : list pframe) : bool :=
  match fs with
  | [] => negb inmsg
  | f :: t =>
      if op_control (pf_op f) then seq_ok inmsg t
      else if pf_op f =? 0 then inmsg && (pf_rsv f =? 0) && seq_ok (negb (pf_fin f)) t
      else negb inmsg && seq_ok (negb (pf_fin f)) t
  end.

Definition rfc_valid (from_srv pmd : bool) (fs : list pframe) : bool :=
  forallb (frame_ok from_srv pmd) fs && seq_ok false fs.

(* reassembly written independently of the library's reader: data messages (type, RSV1 of the
   first frame, concatenated payload) and control frames, each list in wire order *)
Fixpoint reassemble (cur : option (N * bool * list bytes)) (fs : list pframe)
  : option (list (N * bool * bytes)) :=
  match fs with
  | [] => match cur with None => Some [] | Some _ => None end
  | f :: t =>
      if op_control (pf_op f) then reassemble cur t
      else if pf_op f =? 0 then
        match cur with
        | None => None
        | Some (ty, z, acc) =>
            if pf_fin f then
              match reassemble None t with
              | Some l => Some ((ty, z, concat (rev (pf_payload f :: acc))) :: l) | None => None end
            else reassemble (Some (ty, z, pf_payload f :: acc)) t
        end
      else
        match cur with
        | Some _ => None
        | None =>
            let z := 4 <=? pf_rsv f in
            if pf_fin f then
              match reassemble None t with
              | Some l => Some ((pf_op f, z, pf_payload f) :: l) | None => None end
            else reassemble (Some (pf_op f, z, [pf_payload f])) t
        end
  end.
Definition messages (fs : list pframe) := reassemble None fs.

(* the same with the control frames kept, in wire order: (opcode, RSV1 of the first frame,
   payload); a data message appears where its final frame is *)
Fixpoint events_from (cur : option (N * bool * list bytes)) (fs : list pframe)
  : option (list (N * bool * bytes)) :=
  match fs with
  | [] => match cur with None => Some [] | Some _ => None end
  | f :: t =>
      if op_control (pf_op f) then
        match events_from cur t with
        | Some l => Some ((pf_op f, false, pf_payload f) :: l) | None => None end
      else if pf_op f =? 0 then
        match cur with
        | None => None
        | Some (ty, z, acc) =>
            if pf_fin f then
              match events_from None t with
              | Some l => Some ((ty, z, concat (rev (pf_payload f :: acc))) :: l) | None => None end
            else events_from (Some (ty, z, pf_payload f :: acc)) t
        end
      else
        match cur with
        | Some _ => None
        | None =>
            let z := 4 <=? pf_rsv f in
            if pf_fin f then
              match events_from None t with
              | Some l => Some ((pf_op f, z, pf_payload f) :: l) | None => None end
            else events_from (Some (pf_op f, z, [pf_payload f])) t
        end
  end.
Definition events (fs : list pframe) := events_from None fs.
Definition data_event (e : N * bool * bytes) : bool := negb (op_control (fst (fst e))).
Definition controls (fs : list pframe) : list (N * bytes) :=
  map (fun f => (pf_op f, pf_payload f)) (filter (fun f => op_control (pf_op f)) fs).

(* ================= the opening handshake (util.go, server.go, client.go) ================= *)
(* computeAcceptKey: SHA-1 over the challenge key followed by keyGUID, base64 *)
Definition compute_accept_key (k : bytes) : bytes := base64 (sha1 (k ++ websocket_keyGUID)).

(* Dialer.Dial: what it demands of the response (client.go 355-385).  [rs_*] are the facts
   about the response the code tests. *)
Record hresp := mkResp {
  rs_101 : bool;            (* resp.StatusCode == 101 *)
  rs_upg : bool;            (* EqualFold(Upgrade, "websocket") *)
  rs_conn : bool;           (* EqualFold(Connection, "upgrade") *)
  rs_accept : bytes;        (* Sec-Websocket-Accept *)
  rs_pmd : bool;            (* an extension named permessage-deflate is in the response *)
  rs_snct : bool; rs_cnct : bool   (* ... its server_/client_no_context_takeover parameters *)
}.
(* 0 = connection established (second component: compression on), 1 = ErrBadHandshake,
   2 = errInvalidCompression *)
Definition client_decide (key : bytes) (r : hresp) : N * bool :=
  if negb (rs_101 r) || negb (rs_upg r) || negb (rs_conn r)
     || negb (bytes_eqb (rs_accept r) (compute_accept_key key)) then (1, false)
  else if rs_pmd r then (if negb (rs_snct r) || negb (rs_cnct r) then (2, false) else (0, true))
  else (0, false).

(* Upgrader.Upgrade: the checks in the order of the code (server.go 107-158) *)
Record hreq := mkReq {
  rq_get : bool;            (* r.Method == "GET" *)
  rq_resp_ext : bool;       (* the application put Sec-Websocket-Extensions into responseHeader *)
  rq_conn : bool;           (* tokenListContainsValue(Connection, "upgrade") *)
  rq_upg : bool;            (* tokenListContainsValue(Upgrade, "websocket") *)
  rq_v13 : bool;            (* tokenListContainsValue(Sec-Websocket-Version, "13") *)
  rq_origin : bool;         (* checkOrigin(r) *)
  rq_key : bytes;           (* Sec-Websocket-Key *)
  rq_protos : list bytes;   (* Subprotocols(r) *)
  rq_exts : list bytes      (* names of the offered extensions, in order *)
}.
Record hcfg := mkCfg {
  uc_protos : option (list bytes);   (* Upgrader.Subprotocols, None = nil *)
  uc_resp_proto : bytes;             (* responseHeader.Get("Sec-Websocket-Protocol") *)
  uc_comp : bool                     (* Upgrader.EnableCompression *)
}.
Inductive hdec := HReject (status : N) | HAccept (accept proto : bytes) (compress : bool).

Definition mem_bytes (x : bytes) (l : list bytes) : bool := existsb (bytes_eqb x) l.
Fixpoint first_common (server client : list bytes) : bytes :=
  match server with
  | [] => []
  | s :: r => if mem_bytes s client then s else first_common r client
  end.
Definition select_subprotocol (u : hcfg) (q : hreq) : bytes :=
  match uc_protos u with
  | Some sp => first_common sp (rq_protos q)
  | None => uc_resp_proto u
  end.
Definition pmd_name : bytes := [112;101;114;109;101;115;115;97;103;101;45;100;101;102;108;97;116;101].
Definition upgrade_decide (u : hcfg) (q : hreq) : hdec :=
  if negb (rq_get q) then HReject 405
  else if rq_resp_ext q then HReject 500
  else if negb (rq_conn q) then HReject 400
  else if negb (rq_upg q) then HReject 400
  else if negb (rq_v13 q) then HReject 400
  else if negb (rq_origin q) then HReject 403
  else if is_nil (rq_key q) then HReject 400
  else HAccept (compute_accept_key (rq_key q)) (select_subprotocol u q)
               (uc_comp u && mem_bytes pmd_name (rq_exts q)).

(* ================= harness interface ================= *)
Definition gen_step (s : N) : N := N.land (s * 5 + 12345) 65535.
Definition gen_bytes (seed len : N) : bytes :=
  rev_append (snd (N.iter len (fun sa => let s' := gen_step (fst sa) in (s', N.shiftr s' 8 :: snd sa)) (N.land seed 65535, []))) [].

Definition sx_data (x : sx) : option bytes :=
  match x with
  | SB b => Some b
  | SL [SZ seed; SZ len] => Some (gen_bytes (Z.to_N seed) (Z.to_N len))
  | _ => None
  end.
Fixpoint sx_chunks (l : list sx) : list bytes :=
  match l with [] => [] | SB b :: t => b :: sx_chunks t | _ :: t => sx_chunks t end.
Fixpoint sx_ns (l : list sx) : list N :=
  match l with [] => [] | SZ z :: t => Z.to_N z :: sx_ns t | _ :: t => sx_ns t end.

Definition digest (w : bytes) : N :=
  let '(a, c) := fold_left (fun ac b => let a := N.land (fst ac + b) 65535 in (a, N.land (snd ac + a) 65535)) w (0, 0) in
  c * 65536 + a.
Definition digest_limit : N := 100000.
Definition sx_wire (w : bytes) : sx :=
  let l := lenN w in if digest_limit <? l then SL [sN l; sN (digest w)] else SB w.

Definition blen_of (is_srv : bool) (b : N) : N :=
  if b =? 0 then (if is_srv then defaultWBuf else defaultWBuf + maxHdr) else b + maxHdr.

Definition zb (z : Z) : bool := negb (z =? 0)%Z.

(* WriteJSON: NextWriter(TextMessage); Encoder.Encode = one Write of [enc]; Close even if the
   Write failed; the first error wins *)
Definition do_write_json (c : cfg) (s : cst) (enc : bytes) (ichunks wchunks cchunks : list bytes)
  : res (cst * N) :=
  let* r := do_next c s opText ichunks in
  let '(s1, e) := r in
  if negb (e =? 0) then Ok (s1, e)
  else
    let* r1 := do_write c s1 enc wchunks in
    let* r2 := do_close c (fst r1) cchunks in
    Ok (fst r2, if negb (snd r1 =? 0) then snd r1 else snd r2).

Definition set_level (s : cst) (l : Z) : cst :=
  mkS (mw s) (wopen s) (hkind s) (mwclosed s) (zopen s) (tws_ s) (comp s) (ewc s) l (pcache s).
Definition set_ewc (s : cst) (b : bool) : cst :=
  mkS (mw s) (wopen s) (hkind s) (mwclosed s) (zopen s) (tws_ s) (comp s) b (lvl s) (pcache s).

(* harness convention: after WriteMessage / WriteJSON the application holds no writer handle *)
Definition drop_handle (r : res (cst * N)) : res (cst * N) :=
  let* x := r in
  let s := fst x in Ok (st_h s (wopen s) 0 (mwclosed s) (zopen s) (tws_ s), snd x).

Definition step_op (c : cfg) (pms : list (N * bytes)) (s : cst) (op : sx) : res (cst * N) :=
  match op with
  | SL [SZ 0; SZ t] => do_next c s (Z.to_N t) []
  | SL [SZ 0; SZ t; SL ich] => do_next c s (Z.to_N t) (sx_chunks ich)
  | SL [SZ 1; d; SL ch] =>
      match sx_data d with Some p => do_write c s p (sx_chunks ch) | None => Err 98 end
  | SL [SZ 2; d; SL ch] =>
      match sx_data d with Some p => do_write_string c s p (sx_chunks ch) | None => Err 98 end
  | SL [SZ 3; d; SL caps; SZ ewd; SL ch] =>
      match sx_data d with Some p => do_read_from c s p (sx_ns caps) (zb ewd) (sx_chunks ch) | None => Err 98 end
  | SL [SZ 4; SL ch] => do_close c s (sx_chunks ch)
  | SL [SZ 5; SZ t; d; SL ich; SL wch; SL cch] =>
      match sx_data d with
      | Some p => drop_handle (do_write_message c s (Z.to_N t) p (sx_chunks ich) (sx_chunks wch) (sx_chunks cch))
      | None => Err 98 end
  | SL [SZ 5; SZ t; d; SL wch; SL cch] =>
      match sx_data d with
      | Some p => drop_handle (do_write_message c s (Z.to_N t) p [] (sx_chunks wch) (sx_chunks cch))
      | None => Err 98 end
  | SL [SZ 6; SZ idx; SL wch; SL cch] =>
      match nth_error pms (Z.to_nat idx) with
      | Some (t, p) => do_prepared c s (Z.to_N idx) t p (sx_chunks wch) (sx_chunks cch)
      | None => Ok (s, eNoHandle)
      end
  | SL [SZ 7; SB enc; SL ich; SL wch; SL cch] =>
      drop_handle (do_write_json c s enc (sx_chunks ich) (sx_chunks wch) (sx_chunks cch))
  | SL [SZ 7; SB enc; SL wch; SL cch] =>
      drop_handle (do_write_json c s enc [] (sx_chunks wch) (sx_chunks cch))
  | SL [SZ 8; SZ t; d] =>
      match sx_data d with Some p => Ok (do_control c s (Z.to_N t) p) | None => Err 98 end
  | SL [SZ 9; SZ l] => if valid_level l then Ok (set_level s l, eOK) else Ok (s, eOther)
  | SL [SZ 10; SZ b] => Ok (set_ewc s (zb b), eOK)
  | _ => Err 98
  end.

Fixpoint run_ops (c : cfg) (pms : list (N * bytes)) (s : cst) (ops : list sx) (codes : list N)
  : res (cst * list N) :=
  match ops with
  | [] => Ok (s, rev codes)
  | op :: rest =>
      let* r := step_op c pms s op in
      run_ops c pms (fst r) rest (snd r :: codes)
  end.

(* rev_append: List.rev is quadratic and a session can have 10^5 transport writes *)
Definition wire_of (s : cst) : bytes := concat (rev_append (out (mw s)) []).

Fixpoint sx_pms (l : list sx) : list (N * bytes) :=
  match l with
  | SL [SZ t; d] :: r => match sx_data d with Some p => (Z.to_N t, p) :: sx_pms r | None => sx_pms r end
  | _ :: r => sx_pms r
  | [] => []
  end.

Definition init_cst (cp : bool) (ks : list bytes) : cst :=
  cst0 (mws0 ks) cp websocket_defaultCompressionLevel.

(* harness configuration (8th element of a session case): the sixth entry, if present and
   non-negative, is the number of transport writes after which the writer's transport fails *)
Definition cfg_budget (cfg : sx) : option N :=
  match cfg with
  | SL [_; _; _; _; _; SZ f] => if (f <? 0)%Z then None else Some (Z.to_N f)
  | _ => None
  end.
Definition with_budget (s : cst) (b : option N) : cst := st_mw s (set_budget (mw s) b).

Definition run_session (is_srv : bool) (b : N) (cp : bool) (pms : list (N * bytes)) (ops : list sx)
           (ks : list bytes) (bud : option N) : sx :=
  let c := mkC is_srv (blen_of is_srv b) in
  match run_ops c pms (with_budget (init_cst cp ks) bud) ops [] with
  | Ok (s, codes) => s_ok [SL (map sN codes); sx_wire (wire_of s)]
  | Err e => s_err e
  | Panic _ => s_panic
  end.

Definition sx_frame (f : pframe) : sx :=
  SL [sbool (pf_fin f); sN (pf_rsv f); sN (pf_op f); sbool (pf_masked f); SB (pf_key f);
      sN (pf_form f); sN (pf_len f); SB (pf_payload f)].

Definition run_c13 (c : sx) : sx :=
  match c with
  | SL [SZ 4; SZ 0; SZ _; SB key; SL [SZ a; SZ b; SZ d; SB acc; SZ e; SZ f; SZ g]] =>
      let (code, z) := client_decide key (mkResp (zb a) (zb b) (zb d) acc (zb e) (zb f) (zb g)) in
      s_ok [sN code; sbool z]
  | SL [SZ 4; SZ 1; SZ _; SL [SZ a; SZ b; SZ d; SZ e; SZ f; SZ g; SB key; SL protos; SL exts];
        SL [SZ hasp; SL sp; SB rp; SZ cmp]] =>
      match upgrade_decide (mkCfg (if zb hasp then Some (sx_chunks sp) else None) rp (zb cmp))
                           (mkReq (zb a) (zb b) (zb d) (zb e) (zb f) (zb g) key (sx_chunks protos) (sx_chunks exts)) with
      | HReject st => s_ok [SZ 1; sN st]
      | HAccept acc proto z => s_ok [SZ 0; SB acc; SB proto; sbool z]
      end
  | SL [SZ 5; SB key] => s_ok [SB (compute_accept_key key)]
  (* family 6: sessions that outlive the handshake time-outs; every message must arrive *)
  | SL [SZ 6; SZ _] => s_ok [SZ 1]
  | SL [SZ 0; SZ r; SZ b; SZ cp; SL pms; SL ops; SL ks; cfg] =>
      run_session (zb r) (Z.to_N b) (zb cp) (sx_pms pms) ops (sx_chunks ks) (cfg_budget cfg)
  | SL [SZ 0; SZ r; SZ b; SZ cp; SL pms; SL ops; SL ks; cfg; SB _] =>
      (* eighth element: harness-only configuration (well-formedness flag, how the transport
         segments reads, how many leading operations the server runs inside the HTTP handler,
         greetings, fault injection); ninth element: padding the harness adds to cases with long
         wires (keeps them out of the kernel-evaluated sample, whose literals must stay small) *)
      run_session (zb r) (Z.to_N b) (zb cp) (sx_pms pms) ops (sx_chunks ks) (cfg_budget cfg)
  | SL [SZ 1; SB key; SZ p; SZ align; SB data] =>
      let (m, p') := mask_words (Z.to_N align) key (Z.to_N p) data in s_ok [SB m; sN p']
  | SL [SZ 2; SL chunks] =>
      let (t, ws) := tw_run tw0 (sx_chunks chunks) in
      s_ok [SL (map SB ws); SB (tp t); sN (tn t)]
  | SL [SZ 3; SZ r; SZ pmd; SB w] =>
      match rfc_parse w with
      | None => s_err 1
      | Some fs =>
          s_ok [sbool (rfc_valid (zb r) (zb pmd) fs); SL (map sx_frame fs);
                match messages fs with
                | None => SZ (-1)
                | Some ms => SL (map (fun m => SL [sN (fst (fst m)); sbool (snd (fst m)); SB (snd m)]) ms)
                end]
      end
  | _ => bad_case
  end.
