(* Model of the RTMP packet layer of /repo/rtmp/rtmp.go (C03): packet codecs (objectCallPacket,
   variantCallPacket and the packets built on them, the four control packets), DecodeMessage /
   parseAMFObject with the transaction table, onPacketWriten, ExpectPacket / ExpectMessage.
   Definitions only; proofs are in Proofs/RtmpPacket*.v.  AMF0 values are Model/Amf0.v's.

   The model follows the tree AFTER the rtmp.go fix commits of this round: 172f07d (createStream
   and play have their own cases in the command-name switch), acd03f7 (the request is registered
   before it is written; seen from one goroutine that is the same table) and 9789218
   (variantCallPacket.UnmarshalBinary clears the command object before the optional decode, so
   Size() is the number of bytes consumed).

   Conventions
   * a float64 (amf0.Number: transaction id, stream id) is its IEEE-754 bit pattern in N; the
     three float operations the code uses ([tid > 0], [tid != 1.0], map-key equality) are written
     on bit patterns below.
   * int32 fields of UserControl are carried as their uint32 pattern.
   * [unmarshal r data] = r.UnmarshalBinary(data) for a receiver [r]; receivers are the values the
     New...() constructors build ([new_of_kind]) or any packet of that type: every field is
     assigned on every successful path (rtmp.go e5abd50 clears Args / ExtraData; amf0 8324535:
     Object.UnmarshalBinary replaces the receiver's properties), so only the receiver's type
     matters (Proofs/RtmpPacketWf.v unmarshal_overwrites).
   * every slice expression [p[n:]] is [drop n p site]: Panic when n > len(p).
   Error codes (the harness derives the same code from the error text):
     1 "Empty packet"  2 "Unknown message"  3 parse: "unmarshal command name"  4 parse: "unmarshal tid"
     5 "No matched request for tid"  6 "No request for <name>"  8 ReadMessage failed
     11 command name  12 tid  13 command object (objectCallPacket)  14 args (objectCallPacket)
     15 command object (variantCallPacket: discovery or unmarshal)  17 args (CallPacket)
     19 stream id  20 stream name  21 stream type  22 "Invalid command name"
     23 "Invalid transaction ID"  24 control packet "requires N only M bytes". *)
From Verif Require Import Lib.Base Lib.Sx.
From Verif Require Import Gen.Gen_rtmp Model.Amf0.
Open Scope N_scope.

(* ---- constants, from the regenerated table ---- *)
Definition cConnect : bytes := rtmp_commandConnect_bytes.
Definition cCreateStream : bytes := rtmp_commandCreateStream_bytes.
Definition cCloseStream : bytes := rtmp_commandCloseStream_bytes.
Definition cPlay : bytes := rtmp_commandPlay_bytes.
Definition cPublish : bytes := rtmp_commandPublish_bytes.
Definition cResult : bytes := rtmp_commandResult_bytes.
Definition cError : bytes := rtmp_commandError_bytes.
Definition cLive : bytes := [108; 105; 118; 101].         (* "live", NewPublishPacket: literal in the code;
                                                             tied to the source by c03_source_constructors *)

Definition mtSetChunkSize : N := Z.to_N rtmp_MessageTypeSetChunkSize.
Definition mtUserControl : N := Z.to_N rtmp_MessageTypeUserControl.
Definition mtWinAck : N := Z.to_N rtmp_MessageTypeWindowAcknowledgementSize.
Definition mtSetPeerBw : N := Z.to_N rtmp_MessageTypeSetPeerBandwidth.
Definition mtAMF0Command : N := Z.to_N rtmp_MessageTypeAMF0Command.
Definition mtAMF3Command : N := Z.to_N rtmp_MessageTypeAMF3Command.
Definition mtAMF0Data : N := Z.to_N rtmp_MessageTypeAMF0Data.
Definition mtAMF3Data : N := Z.to_N rtmp_MessageTypeAMF3Data.

Definition cidProtocolControl : N := Z.to_N rtmp_chunkIDProtocolControl.
Definition cidOverConnection : N := Z.to_N rtmp_chunkIDOverConnection.

Definition etFmsEvent0 : N := Z.to_N rtmp_EventTypeFmsEvent0.
Definition etSetBufferLength : N := Z.to_N rtmp_EventTypeSetBufferLength.
Definition defaultChunkSize : N := Z.to_N rtmp_defaultChunkSize.

(* ---- float64 on bit patterns ---- *)
Definition two52 : N := 4503599627370496.
Definition two63 : N := 9223372036854775808.
Definition f_one : N := 4607182418800017408.      (* 1.0 = 0x3FF0000000000000 *)
Definition f_two : N := 4611686018427387904.      (* 2.0 = 0x4000000000000000 *)
Definition f_inf : N := 9218868437227405312.      (* +Inf = 0x7FF0000000000000 *)

(* NaN: exponent all ones, mantissa non-zero (either sign) *)
Definition f_isnan (b : N) : bool := f_inf <? b mod two63.
Definition f_iszero (b : N) : bool := b mod two63 =? 0.
(* Go [x > 0]: false for NaN, zeros and negatives *)
Definition f_gt0 (b : N) : bool := (0 <? b) && (b <=? f_inf).
(* Go [x == y] on float64, which is also the key equality of map[amf0.Number]...:
   NaN is equal to nothing, +0 == -0, otherwise bit equality *)
Definition f_eq (a b : N) : bool :=
  negb (f_isnan a) && negb (f_isnan b) && ((a =? b) || (f_iszero a && f_iszero b)).

(* ---- the transaction table: map[amf0.Number]amf0.String as an association list ---- *)
Definition tx := list (N * bytes).

Fixpoint tx_get (t : tx) (k : N) : option bytes :=
  match t with
  | [] => None
  | (k', v) :: r => if f_eq k' k then Some v else tx_get r k
  end.

(* delete(m, k) *)
Fixpoint tx_del (t : tx) (k : N) : tx :=
  match t with
  | [] => []
  | (k', v) :: r => if f_eq k' k then tx_del r k else (k', v) :: tx_del r k
  end.

(* m[k] = v: an entry with an equal key is overwritten (the runtime also stores the new key for
   float keys: +0 / -0); otherwise a new entry *)
Fixpoint tx_set (t : tx) (k : N) (v : bytes) : tx :=
  match t with
  | [] => [(k, v)]
  | (k', v') :: r => if f_eq k' k then (k, v) :: r else (k', v') :: tx_set r k v
  end.

(* ---- packets ---- *)
Inductive pkt : Type :=
| PConnect (name : bytes) (tid : N) (obj : props) (args : option props)       (* ConnectAppPacket *)
| PConnectRes (name : bytes) (tid : N) (obj : props) (args : option props)    (* ConnectAppResPacket *)
| PCall (name : bytes) (tid : N) (obj : option amf) (args : option amf)       (* CallPacket *)
| PCreateStream (name : bytes) (tid : N) (obj : option amf)                   (* CreateStreamPacket *)
| PCreateStreamRes (name : bytes) (tid : N) (obj : option amf) (sid : N)      (* CreateStreamResPacket *)
| PPublish (name : bytes) (tid : N) (obj : option amf) (sname stype : bytes)  (* PublishPacket *)
| PPlay (name : bytes) (tid : N) (obj : option amf) (sname : bytes)           (* PlayPacket *)
| PSetChunkSize (n : N)
| PWinAck (n : N)
| PSetPeerBw (n lt : N)
| PUserControl (et d x : N).

Definition kind_of (p : pkt) : N :=
  match p with
  | PConnect _ _ _ _ => 0 | PConnectRes _ _ _ _ => 1 | PCall _ _ _ _ => 2
  | PCreateStream _ _ _ => 3 | PCreateStreamRes _ _ _ _ => 4 | PPublish _ _ _ _ _ => 5
  | PPlay _ _ _ _ => 6 | PSetChunkSize _ => 7 | PWinAck _ => 8 | PSetPeerBw _ _ => 9
  | PUserControl _ _ _ => 10
  end.

(* the New...() constructors *)
Definition new_connect : pkt := PConnect cConnect f_one [] None.
Definition new_connect_res (tid : N) : pkt := PConnectRes cResult tid [] None.
Definition new_call : pkt := PCall [] 0 None None.
Definition new_close_stream : pkt := PCall cCloseStream 0 (Some ANull) None.
Definition new_create_stream : pkt := PCreateStream cCreateStream f_two (Some ANull).
Definition new_create_stream_res (tid : N) : pkt := PCreateStreamRes cResult tid (Some ANull) 0.
Definition new_publish : pkt := PPublish cPublish 0 (Some ANull) [] cLive.
Definition new_play : pkt := PPlay cPlay 0 (Some ANull) [].
Definition new_set_chunk_size : pkt := PSetChunkSize defaultChunkSize.
Definition new_win_ack : pkt := PWinAck 0.
Definition new_set_peer_bw : pkt := PSetPeerBw 0 0.
Definition new_user_control : pkt := PUserControl 0 0 0.

Definition new_of_kind (k : N) (tid : N) : option pkt :=
  match k with
  | 0 => Some new_connect | 1 => Some (new_connect_res tid) | 2 => Some new_call
  | 3 => Some new_create_stream | 4 => Some (new_create_stream_res tid) | 5 => Some new_publish
  | 6 => Some new_play | 7 => Some new_set_chunk_size | 8 => Some new_win_ack
  | 9 => Some new_set_peer_bw | 10 => Some new_user_control
  | _ => None
  end.

(* Type() and BetterCid() *)
Definition mtype_of (p : pkt) : N :=
  match p with
  | PSetChunkSize _ => mtSetChunkSize
  | PWinAck _ => mtWinAck
  | PSetPeerBw _ _ => mtSetPeerBw
  | PUserControl _ _ _ => mtUserControl
  | _ => mtAMF0Command
  end.
Definition cid_of (p : pkt) : N :=
  match p with
  | PSetChunkSize _ | PWinAck _ | PSetPeerBw _ _ | PUserControl _ _ _ => cidProtocolControl
  | _ => cidOverConnection
  end.

(* ---- Size() ---- *)
Definition size_opt (o : option amf) : N := match o with Some v => size v | None => 0 end.
Definition size_oprops (o : option props) : N := match o with Some ps => size (AObj ps) | None => 0 end.
Definition hsize (name : bytes) : N := size (AStr name) + size (ANum 0).
(* variantCallPacket.Size() *)
Definition vsize (name : bytes) (o : option amf) : N := hsize name + size_opt o.

(* Size() of the four control packets: the function bodies GENERATED from rtmp.go by the
   translator (Gen_rtmp.v, tools/repo2coq/gen_funcs.go); Proofs/RtmpPacket.v characterises them
   (uc_size_spec), so a change of the source re-opens the theorems *)
Definition gen_size (r : res Z) : N := match r with Ok z => Z.to_N z | _ => 0 end.
Definition uc_size (et : N) : N := gen_size (rtmp_UserControl_Size (Z.of_N et)).

Definition psize (p : pkt) : N :=
  match p with
  | PConnect n _ o a | PConnectRes n _ o a => hsize n + size (AObj o) + size_oprops a
  | PCall n _ o a => vsize n o + size_opt a
  | PCreateStream n _ o => vsize n o
  | PCreateStreamRes n _ o sid => vsize n o + size (ANum sid)
  | PPublish n _ o sn st => vsize n o + size (AStr sn) + size (AStr st)
  | PPlay n _ o sn => vsize n o + size (AStr sn)
  | PSetChunkSize _ => gen_size (rtmp_SetChunkSize_Size tt)
  | PWinAck _ => gen_size (rtmp_WindowAcknowledgementSize_Size tt)
  | PSetPeerBw _ _ => gen_size (rtmp_SetPeerBandwidth_Size tt)
  | PUserControl et _ _ => uc_size et
  end.

(* ---- MarshalBinary ---- *)
Definition enc_opt (o : option amf) : bytes := match o with Some v => enc v | None => [] end.
Definition enc_oprops (o : option props) : bytes := match o with Some ps => enc (AObj ps) | None => [] end.
Definition enc_hdr (name : bytes) (tid : N) : bytes := enc (AStr name) ++ enc (ANum tid).
Definition enc_variant (name : bytes) (tid : N) (o : option amf) : bytes := enc_hdr name tid ++ enc_opt o.

Definition marshal (p : pkt) : bytes :=
  match p with
  | PConnect n t o a | PConnectRes n t o a => enc_hdr n t ++ enc (AObj o) ++ enc_oprops a
  | PCall n t o a => enc_variant n t o ++ enc_opt a
  | PCreateStream n t o => enc_variant n t o
  | PCreateStreamRes n t o sid => enc_variant n t o ++ enc (ANum sid)
  | PPublish n t o sn st => enc_variant n t o ++ enc (AStr sn) ++ enc (AStr st)
  | PPlay n t o sn => enc_variant n t o ++ enc (AStr sn)
  | PSetChunkSize n => be4 n
  | PWinAck n => be4 n
  | PSetPeerBw n lt => be4 n ++ [lt]
  | PUserControl et d x =>
      (* data = make([]byte, Size()); the writes cover the buffer exactly *)
      be2 et ++ (if et =? etFmsEvent0 then [d mod 256] else be4 d)
             ++ (if et =? etSetBufferLength then be4 x else [])
  end.

(* ---- UnmarshalBinary ---- *)
Definition step {A} (r : res A) (code : N) : res A :=
  match r with Err _ => Err code | x => x end.

(* p[n:] *)
Definition drop (n : N) (p : bytes) (site : N) : res bytes :=
  match takeN n p with Some (_, r) => Ok r | None => Panic site end.

Definition amf_str (v : amf) : bytes := match v with AStr s => s | _ => [] end.
Definition amf_num (v : amf) : N := match v with ANum b => b | _ => 0 end.
Definition amf_props (v : amf) : props := match v with AObj ps => ps | _ => [] end.

Definition is_nil {A} (l : list A) : bool := match l with [] => true | _ => false end.

(* CommandName.UnmarshalBinary(p); p = p[Size():]; TransactionID.UnmarshalBinary(p); p = p[Size():] *)
Definition um_hdr (p : bytes) : res (bytes * N * bytes) :=
  let* (v, n) := step (um_string p) 11 in
  let* p1 := drop n p 30 in
  let* (t, n2) := step (um_number p1) 12 in
  let* p2 := drop n2 p1 30 in
  Ok (amf_str v, amf_num t, p2).

(* objectCallPacket.UnmarshalBinary (after e5abd50: Args is nil unless decoded) *)
Definition um_objcall (data : bytes) : res (bytes * N * props * option props) :=
  let* (name, tid, p2) := um_hdr data in
  let* (o, n) := step (um_object (dec_fuel p2) p2) 13 in
  let* p3 := drop n p2 31 in
  if is_nil p3 then Ok (name, tid, amf_props o, None)
  else
    let* (a, _) := step (um_object (dec_fuel p3) p3) 14 in
    Ok (name, tid, amf_props o, Some (amf_props a)).

(* variantCallPacket.UnmarshalBinary (after 9789218: the command object is nil unless decoded) *)
Definition um_variant (data : bytes) : res (bytes * N * option amf) :=
  let* (name, tid, p2) := um_hdr data in
  if is_nil p2 then Ok (name, tid, None)
  else
    let* (o, n) := step (decode p2) 15 in       (* Discovery(p), CommandObject.UnmarshalBinary(p) *)
    let* _ := drop n p2 32 in                    (* p = p[v.CommandObject.Size():] *)
    Ok (name, tid, Some o).

(* the callers' `p = p[v.variantCallPacket.Size():]` on the ORIGINAL data *)
Definition after_variant (data : bytes) : res (bytes * N * option amf * bytes) :=
  let* (name, tid, o) := um_variant data in
  let* p := drop (vsize name o) data 33 in
  Ok (name, tid, o, p).

Definition um_control4 (data : bytes) : res N :=
  match data with
  | a :: b :: c :: d :: _ => Ok (ube4 a b c d)
  | _ => Err 24
  end.

Definition unmarshal (r : pkt) (data : bytes) : res pkt :=
  match r with
  | PConnect _ _ _ _ =>
      let* (name, tid, o, a) := um_objcall data in
      if negb (bytes_eqb name cConnect) then Err 22
      else if negb (f_eq tid f_one) then Err 23
      else Ok (PConnect name tid o a)
  | PConnectRes _ _ _ _ =>
      let* (name, tid, o, a) := um_objcall data in
      if negb (bytes_eqb name cResult) then Err 22
      else Ok (PConnectRes name tid o a)
  | PCall _ _ _ _ =>
      let* (name, tid, o, p) := after_variant data in
      if is_nil p then Ok (PCall name tid o None)                (* v.Args = nil (e5abd50) *)
      else
        let* (a, _) := step (decode p) 17 in
        Ok (PCall name tid o (Some a))
  | PCreateStream _ _ _ =>
      let* (name, tid, o) := um_variant data in
      Ok (PCreateStream name tid o)
  | PCreateStreamRes _ _ _ _ =>
      let* (name, tid, o, p) := after_variant data in
      let* (s, _) := step (um_number p) 19 in
      Ok (PCreateStreamRes name tid o (amf_num s))
  | PPublish _ _ _ _ _ =>
      let* (name, tid, o, p) := after_variant data in
      let* (sn, n) := step (um_string p) 20 in
      let* p' := drop n p 34 in
      let* (st, _) := step (um_string p') 21 in
      Ok (PPublish name tid o (amf_str sn) (amf_str st))
  | PPlay _ _ _ _ =>
      let* (name, tid, o, p) := after_variant data in
      let* (sn, n) := step (um_string p) 20 in
      let* _ := drop n p 35 in
      Ok (PPlay name tid o (amf_str sn))
  | PSetChunkSize _ => let* n := um_control4 data in Ok (PSetChunkSize n)
  | PWinAck _ => let* n := um_control4 data in Ok (PWinAck n)
  | PSetPeerBw _ _ =>
      match data with
      | a :: b :: c :: d :: e :: _ => Ok (PSetPeerBw (ube4 a b c d) e)
      | _ => Err 24
      end
  | PUserControl _ _ _ =>
      match data with
      | a :: b :: body =>
          if is_nil body then Err 24                       (* len(data) < 3 *)
          else
            let et := ube2 a b in
            if lenN data <? uc_size et then Err 24
            else
              let* d :=
                if et =? etFmsEvent0 then
                  match body with c :: _ => Ok c | _ => Panic 36 end
                else
                  match body with c :: d :: e :: f :: _ => Ok (ube4 c d e f) | _ => Panic 36 end in
              let* x :=
                if et =? etSetBufferLength then
                  match body with _ :: _ :: _ :: _ :: c :: d :: e :: f :: _ => Ok (ube4 c d e f)
                  | _ => Panic 37 end
                else Ok 0 in                                  (* ExtraData = 0 (e5abd50) *)
              Ok (PUserControl et d x)
      | _ => Err 24
      end
  end.

(* ---- parseAMFObject: which receiver, and the consume-once lookup ---- *)
Definition parse_amf_object (t : tx) (p : bytes) : res pkt * tx :=
  match step (um_string p) 3 with
  | Err e => (Err e, t)
  | Panic s => (Panic s, t)
  | Ok (v, n) =>
      let name := amf_str v in
      if bytes_eqb name cResult || bytes_eqb name cError then
        match drop n p 38 with
        | Ok p1 =>
            match step (um_number p1) 4 with
            | Ok (tv, _) =>
                let tid := amf_num tv in
                match tx_get t tid with
                | None => (Err 5, t)
                | Some rn =>
                    let t' := tx_del t tid in
                    if bytes_eqb rn cConnect then (Ok (new_connect_res tid), t')
                    else if bytes_eqb rn cCreateStream then (Ok (new_create_stream_res tid), t')
                    else (Err 6, t')
                end
            | Err e => (Err e, t)
            | Panic s => (Panic s, t)
            end
        | Err e => (Err e, t)
        | Panic s => (Panic s, t)
        end
      else if bytes_eqb name cConnect then (Ok new_connect, t)
      else if bytes_eqb name cCreateStream then (Ok new_create_stream, t)
      else if bytes_eqb name cPlay then (Ok new_play, t)
      else if bytes_eqb name cPublish then (Ok new_publish, t)
      else (Ok new_call, t)
  end.

Definition is_amf_type (mt : N) : bool :=
  (mt =? mtAMF0Command) || (mt =? mtAMF3Command) || (mt =? mtAMF0Data) || (mt =? mtAMF3Data).

(* ---- DecodeMessage: the table is returned in every case (a failed decode may have consumed
   the outstanding request) ---- *)
Definition decode_message (t : tx) (mt : N) (payload : bytes) : res pkt * tx :=
  match payload with
  | [] => (Err 1, t)
  | _ :: tl =>
      let p := if (mt =? mtAMF3Command) || (mt =? mtAMF3Data) then tl else payload in
      let rcv : res pkt * tx :=
        if mt =? mtSetChunkSize then (Ok new_set_chunk_size, t)
        else if mt =? mtWinAck then (Ok new_win_ack, t)
        else if mt =? mtSetPeerBw then (Ok new_set_peer_bw, t)
        else if is_amf_type mt then parse_amf_object t p
        else if mt =? mtUserControl then (Ok new_user_control, t)
        else (Err 2, t) in
      match rcv with
      | (Ok r, t') => (unmarshal r p, t')
      | other => other
      end
  end.

(* ---- onPacketWriten (requestTransaction + the guard) ---- *)
Definition request_transaction (p : pkt) : N * bytes :=
  match p with
  | PConnect n t _ _ => (t, n)
  | PCreateStream n t _ => (t, n)
  | _ => (0, [])                       (* zero values *)
  end.

Definition on_packet_written (t : tx) (p : pkt) : tx :=
  let (tid, name) := request_transaction p in
  if f_gt0 tid && negb (is_nil name) then tx_set t tid name else t.

(* ---- messages as ReadMessage delivers them: (type, payload) ---- *)
Definition msg := (N * bytes)%type.

(* onMessageArrivated inside ReadMessage: Set Chunk Size, User Control and Window
   Acknowledgement Size are decoded on arrival; a failure makes ReadMessage fail *)
Definition arrive_ok (m : msg) : bool :=
  let (mt, pl) := m in
  if (mt =? mtSetChunkSize) || (mt =? mtUserControl) || (mt =? mtWinAck)
  then is_ok (fst (decode_message [] mt pl))
  else true.

(* ExpectPacket: [want] = the dynamic type is assignable to the requested one; the list is what
   the transport still delivers, its end is a read error (EOF).  Returns the index of the
   message and the packet. *)
Fixpoint expect_packet (want : pkt -> bool) (t : tx) (ms : list msg) (i : N) : res (N * pkt) * tx :=
  match ms with
  | [] => (Err 8, t)
  | m :: rest =>
      if negb (arrive_ok m) then (Err 8, t)
      else
        match decode_message t (fst m) (snd m) with
        | (Ok p, t') => if want p then (Ok (i, p), t') else expect_packet want t' rest (N.succ i)
        | (Err e, t') => (Err e, t')
        | (Panic s, t') => (Panic s, t')
        end
  end.

(* ExpectMessage(types...) *)
Fixpoint expect_message (types : list N) (ms : list msg) (i : N) : res (N * msg) :=
  match ms with
  | [] => Err 8
  | m :: rest =>
      if negb (arrive_ok m) then Err 8
      else if is_nil types || existsb (N.eqb (fst m)) types then Ok (i, m)
      else expect_message types rest (N.succ i)
  end.

(* ---- well-formed (constructible, representable) packets: decidable ---- *)
Definition wf_u32 (n : N) : bool := n <? 4294967296.
Definition wf_f64 (n : N) : bool := n <? 18446744073709551616.
Definition wf_opt (o : option amf) : bool := match o with Some v => wf_amfb v | None => true end.
Definition wf_oprops (o : option props) : bool := match o with Some ps => wf_propsb ps | None => true end.
Definition is_some {A} (o : option A) : bool := match o with Some _ => true | None => false end.

(* optional trailing fields are present only after the preceding ones; the command object of
   a createStream response / publish / play is present (the constructor installs Null; for
   createStream itself it is the last field and may be absent);
   connect carries its fixed name and transaction id 1; a connect response is a _result *)
Definition wf_pkt (p : pkt) : bool :=
  match p with
  | PConnect n t o a => bytes_eqb n cConnect && (t =? f_one) && wf_propsb o && wf_oprops a
  | PConnectRes n t o a => bytes_eqb n cResult && wf_f64 t && wf_propsb o && wf_oprops a
  | PCall n t o a => wf_strb n && wf_f64 t && wf_opt o && wf_opt a && (is_some o || negb (is_some a))
  | PCreateStream n t o => wf_strb n && wf_f64 t && wf_opt o
  | PCreateStreamRes n t o sid => wf_strb n && wf_f64 t && wf_opt o && is_some o && wf_f64 sid
  | PPublish n t o sn st => wf_strb n && wf_f64 t && wf_opt o && is_some o && wf_strb sn && wf_strb st
  | PPlay n t o sn => wf_strb n && wf_f64 t && wf_opt o && is_some o && wf_strb sn
  | PSetChunkSize n | PWinAck n => wf_u32 n
  | PSetPeerBw n lt => wf_u32 n && (lt <? 256)
  | PUserControl et d x =>
      (et <? 65536) && (if et =? etFmsEvent0 then d <? 256 else wf_u32 d)
      && (if et =? etSetBufferLength then wf_u32 x else x =? 0)
  end.

(* the receiver DecodeMessage / the harness uses for a packet of this shape *)
Definition receiver_for (p : pkt) : pkt :=
  match p with
  | PConnect _ _ _ _ => new_connect
  | PConnectRes _ t _ _ => new_connect_res t
  | PCall _ _ _ _ => new_call
  | PCreateStream _ _ _ => new_create_stream
  | PCreateStreamRes _ t _ _ => new_create_stream_res t
  | PPublish _ _ _ _ _ => new_publish
  | PPlay _ _ _ _ => new_play
  | PSetChunkSize _ => new_set_chunk_size
  | PWinAck _ => new_win_ack
  | PSetPeerBw _ _ => new_set_peer_bw
  | PUserControl _ _ _ => new_user_control
  end.

(* ================= s-expression interface of the harness =================
   packet:  (0 xname tid objtree argsopt) connect      (1 ...) connect response
            (2 xname tid objopt argsopt) call          (3 xname tid objopt) createStream
            (4 xname tid objopt sid) createStream response
            (5 xname tid objopt xsname xstype) publish (6 xname tid objopt xsname) play
            (7 n) (8 n) (9 n lt) (10 et d x)
   objtree = AMF0 tree of Model/Amf0.v (an object: (3 (...)));  opt = () | (tree) *)
Definition sx_opt (o : option amf) : sx := match o with Some v => SL [sx_of_amf v] | None => SL [] end.
Definition sx_oprops (o : option props) : sx := match o with Some ps => SL [sx_of_amf (AObj ps)] | None => SL [] end.

Definition sx_of_pkt (p : pkt) : sx :=
  match p with
  | PConnect n t o a => SL [SZ 0; SB n; sN t; sx_of_amf (AObj o); sx_oprops a]
  | PConnectRes n t o a => SL [SZ 1; SB n; sN t; sx_of_amf (AObj o); sx_oprops a]
  | PCall n t o a => SL [SZ 2; SB n; sN t; sx_opt o; sx_opt a]
  | PCreateStream n t o => SL [SZ 3; SB n; sN t; sx_opt o]
  | PCreateStreamRes n t o s => SL [SZ 4; SB n; sN t; sx_opt o; sN s]
  | PPublish n t o sn st => SL [SZ 5; SB n; sN t; sx_opt o; SB sn; SB st]
  | PPlay n t o sn => SL [SZ 6; SB n; sN t; sx_opt o; SB sn]
  | PSetChunkSize n => SL [SZ 7; sN n]
  | PWinAck n => SL [SZ 8; sN n]
  | PSetPeerBw n lt => SL [SZ 9; sN n; sN lt]
  | PUserControl et d x => SL [SZ 10; sN et; sN d; sN x]
  end.

Definition opt_of_sx (s : sx) : option (option amf) :=
  match s with
  | SL [] => Some None
  | SL [t] => match amf_of_sx true t with Some v => Some (Some v) | None => None end
  | _ => None
  end.
Definition props_of_sx (s : sx) : option props :=
  match amf_of_sx true s with Some (AObj ps) => Some ps | _ => None end.
Definition oprops_of_sx (s : sx) : option (option props) :=
  match s with
  | SL [] => Some None
  | SL [t] => match props_of_sx t with Some ps => Some (Some ps) | None => None end
  | _ => None
  end.

Definition pkt_of_sx (s : sx) : option pkt :=
  match s with
  | SL [SZ 0%Z; SB n; SZ t; o; a] =>
      match props_of_sx o, oprops_of_sx a with
      | Some o', Some a' => Some (PConnect n (Z.to_N t) o' a') | _, _ => None end
  | SL [SZ 1%Z; SB n; SZ t; o; a] =>
      match props_of_sx o, oprops_of_sx a with
      | Some o', Some a' => Some (PConnectRes n (Z.to_N t) o' a') | _, _ => None end
  | SL [SZ 2%Z; SB n; SZ t; o; a] =>
      match opt_of_sx o, opt_of_sx a with
      | Some o', Some a' => Some (PCall n (Z.to_N t) o' a') | _, _ => None end
  | SL [SZ 3%Z; SB n; SZ t; o] =>
      match opt_of_sx o with Some o' => Some (PCreateStream n (Z.to_N t) o') | None => None end
  | SL [SZ 4%Z; SB n; SZ t; o; SZ s'] =>
      match opt_of_sx o with Some o' => Some (PCreateStreamRes n (Z.to_N t) o' (Z.to_N s')) | None => None end
  | SL [SZ 5%Z; SB n; SZ t; o; SB sn; SB st] =>
      match opt_of_sx o with Some o' => Some (PPublish n (Z.to_N t) o' sn st) | None => None end
  | SL [SZ 6%Z; SB n; SZ t; o; SB sn] =>
      match opt_of_sx o with Some o' => Some (PPlay n (Z.to_N t) o' sn) | None => None end
  | SL [SZ 7%Z; SZ n] => Some (PSetChunkSize (Z.to_N n))
  | SL [SZ 8%Z; SZ n] => Some (PWinAck (Z.to_N n))
  | SL [SZ 9%Z; SZ n; SZ lt] => Some (PSetPeerBw (Z.to_N n) (Z.to_N lt))
  | SL [SZ 10%Z; SZ et; SZ d; SZ x] => Some (PUserControl (Z.to_N et) (Z.to_N d) (Z.to_N x))
  | _ => None
  end.

(* observation of a decoded packet: fields, Size(), re-marshalled bytes *)
Definition obs_pkt (r : res pkt) : sx :=
  match r with
  | Ok p => s_ok [sx_of_pkt p; sN (psize p); SB (marshal p)]
  | Err _ => SL [SZ 1]          (* which step failed is a model-internal class: the implementation
                                   only offers an error TEXT, which the property does not constrain *)
  | Panic _ => s_panic
  end.

(* the table, sorted by key bit pattern (a Go map has no order) *)
Fixpoint tx_insert (e : N * bytes) (l : tx) : tx :=
  match l with
  | [] => [e]
  | h :: r => if fst e <=? fst h then e :: l else h :: tx_insert e r
  end.
Definition tx_sorted (t : tx) : tx := fold_right tx_insert [] t.
Definition sx_of_tx (t : tx) : sx := SL (map (fun e => SL [sN (fst e); SB (snd e)]) (tx_sorted t)).

(* the payload of a command carried in message type mt: the AMF3 carriers (17, 15) put one
   format byte 0 before the AMF0 body *)
Definition carried (mt : N) (body : bytes) : bytes :=
  if (mt =? mtAMF3Command) || (mt =? mtAMF3Data) then 0 :: body else body.

(* a message of a case: (0 pkt) = the marshalled packet with its Type(); (1 mtype xpayload) raw;
   (2 mtype pkt) = the command carried in message type mtype *)
Definition msg_of_sx (s : sx) : option (msg * option pkt) :=
  match s with
  | SL [SZ 0%Z; p] => match pkt_of_sx p with Some k => Some ((mtype_of k, marshal k), Some k) | None => None end
  | SL [SZ 1%Z; SZ mt; SB pl] => Some ((Z.to_N mt, pl), None)
  | SL [SZ 2%Z; SZ mt; p] =>
      match pkt_of_sx p with
      | Some k => Some ((Z.to_N mt, carried (Z.to_N mt) (marshal k)), Some k)
      | None => None
      end
  | _ => None
  end.

Fixpoint msgs_of_sx (l : list sx) : option (list msg) :=
  match l with
  | [] => Some []
  | s :: r => match msg_of_sx s, msgs_of_sx r with
              | Some (m, _), Some ms => Some (m :: ms) | _, _ => None end
  end.

Fixpoint pkts_of_sx (l : list sx) : option (list pkt) :=
  match l with
  | [] => Some []
  | s :: r => match pkt_of_sx s, pkts_of_sx r with
              | Some p, Some ps => Some (p :: ps) | _, _ => None end
  end.

(* history between two endpoints 0 and 1, each with its own table.
   event (0 dir pkt): endpoint dir writes pkt (WritePacket: registers), the peer reads and decodes it
   event (1 dir mtype xpayload): a raw message is decoded by the peer of dir
   event (2 dir mtype pkt): the command pkt carried in message type mtype (WriteMessage: not
                            registered), read and decoded by the peer
   observation per event: (<decode obs> <table of endpoint 0> <table of endpoint 1>) *)
Definition hist_step (st : tx * tx) (e : sx) : option ((tx * tx) * sx) :=
  let (t0, t1) := st in
  let fin (dir : Z) (ts tr : tx) (r : res pkt) :=
    let st' := if Z.eqb dir 0 then (ts, tr) else (tr, ts) in
    Some (st', SL [obs_pkt r; sx_of_tx (fst st'); sx_of_tx (snd st')]) in
  match e with
  | SL [SZ 0%Z; SZ dir; p] =>
      match pkt_of_sx p with
      | Some k =>
          let (ts, tr) := if Z.eqb dir 0 then (t0, t1) else (t1, t0) in
          let ts' := on_packet_written ts k in
          let (r, tr') := decode_message tr (mtype_of k) (marshal k) in
          fin dir ts' tr' r
      | None => None
      end
  | SL [SZ 1%Z; SZ dir; SZ mt; SB pl] =>
      let (ts, tr) := if Z.eqb dir 0 then (t0, t1) else (t1, t0) in
      let (r, tr') := decode_message tr (Z.to_N mt) pl in
      fin dir ts tr' r
  | SL [SZ 2%Z; SZ dir; SZ mt; p] =>
      match pkt_of_sx p with
      | Some k =>
          let (ts, tr) := if Z.eqb dir 0 then (t0, t1) else (t1, t0) in
          let (r, tr') := decode_message tr (Z.to_N mt) (carried (Z.to_N mt) (marshal k)) in
          fin dir ts tr' r
      | None => None
      end
  | _ => None
  end.

Fixpoint hist_run (st : tx * tx) (es : list sx) (racc : list sx) : option (list sx) :=
  match es with
  | [] => Some (rev racc)
  | e :: r => match hist_step st e with
              | Some (st', o) => hist_run st' r (o :: racc)
              | None => None
              end
  end.

Definition want_of (k : Z) : pkt -> bool :=
  fun p => if Z.eqb k 11 then true else N.eqb (kind_of p) (Z.to_N k).     (* 11 = the Packet interface *)

(* UnmarshalBinary into a receiver that already holds a value: [unmarshal] takes the receiver
   [old]; per packet type, what each assignment does given the old value (after e5abd50, amf0
   8324535 and 9789218 every field is assigned on every successful path):
     ConnectApp / ConnectAppRes  CommandName, TransactionID overwritten; CommandObject's
                  properties replaced; Args = nil, then a new decoded object if bytes remain
     Call         CommandName, TransactionID overwritten; CommandObject = nil, then the decoded
                  value if bytes remain; Args = nil, then the decoded value if bytes remain
     CreateStream, CreateStreamRes, Publish, Play   every field overwritten
     SetChunkSize, WindowAcknowledgementSize, SetPeerBandwidth   every field overwritten
     UserControl  EventType, EventData overwritten; ExtraData = the decoded value for
                  SetBufferLength, else 0
   so only the receiver's TYPE matters (Proofs: unmarshal_overwrites).  On an error the receiver
   is left half assigned; the model then has no packet (callers drop it). *)
Definition unmarshal_into (old : pkt) (data : bytes) : res pkt := unmarshal old data.

(* k payloads in sequence into ONE packet object; stops at the first failure *)
Fixpoint unmarshal_seq (r : pkt) (ds : list sx) (racc : list sx) : list sx :=
  match ds with
  | SB d :: rest =>
      match unmarshal_into r d with
      | Ok p => unmarshal_seq p rest (obs_pkt (Ok p) :: racc)
      | other => rev (obs_pkt other :: racc)
      end
  | _ => rev racc
  end.

(* C03 cases
   (0 pkt)            marshal, Size, Type, BetterCid, unmarshal on the constructor's receiver
                      -> (0 xbytes size type cid <packet obs>)
   (1 kind tid xdata) UnmarshalBinary(data) on New<kind>(tid) -> <packet obs>
   (2 (event...))     history -> (0 (obs...))
   (3 want (pkt...) (msg...))  the endpoint has written the pkts, then ExpectPacket(want) over msgs
                      -> (0 index <pkt> table) | (1 class table) | (2), class 8 = the read failed, 1 = the decode failed
   (4 (type...) (msg...))      ExpectMessage(types...) -> (0 index type xpayload) | (1 8)
   (6 kind tid init (xdata...)) one receiver -- New<kind>(tid) for init = (), the constructed packet
                      for init = (pkt) -- decodes the payloads one after the other
                      -> (0 (<packet obs>...)), ending with the first failure
   (7 kind tid mtype (pkt...) xbody)  a grammar-derived command body: UnmarshalBinary on New<kind>(tid),
                      and DecodeMessage of it carried in message type mtype on an endpoint that
                      has written the pkts -> (0 <packet obs> <packet obs>) *)
Definition run_c03 (c : sx) : sx :=
  match c with
  | SL [SZ 0%Z; p] =>
      match pkt_of_sx p with
      | Some k =>
          let b := marshal k in
          s_ok [SB b; sN (psize k); sN (mtype_of k); sN (cid_of k); obs_pkt (unmarshal (receiver_for k) b)]
      | None => bad_case
      end
  | SL [SZ 1%Z; SZ k; SZ tid; SB data] =>
      match new_of_kind (Z.to_N k) (Z.to_N tid) with
      | Some r => obs_pkt (unmarshal r data)
      | None => bad_case
      end
  | SL [SZ 2%Z; SL es] =>
      match hist_run ([], []) es [] with
      | Some os => s_ok [SL os]
      | None => bad_case
      end
  | SL [SZ 3%Z; SZ want; SL pre; SL ms] =>
      match pkts_of_sx pre, msgs_of_sx ms with
      | Some ps, Some ml =>
          let t := fold_left on_packet_written ps [] in
          match expect_packet (want_of want) t ml 0 with
          | (Ok (i, p), t') => s_ok [sN i; sx_of_pkt p; sx_of_tx t']
          | (Err e, t') => SL [SZ 1; sN (if e =? 8 then 8 else 1); sx_of_tx t']   (* 8: ReadMessage failed; 1: DecodeMessage failed *)
          | (Panic _, _) => s_panic
          end
      | _, _ => bad_case
      end
  | SL [SZ 6%Z; SZ k; SZ tid; SL ini; SL ds] =>
      let r0 := match ini with
                | [] => new_of_kind (Z.to_N k) (Z.to_N tid)
                | [p] => match pkt_of_sx p with
                         | Some q => if kind_of q =? Z.to_N k then Some q else None
                         | None => None
                         end
                | _ => None
                end in
      match r0 with
      | Some r => s_ok [SL (unmarshal_seq r ds [])]
      | None => bad_case
      end
  | SL [SZ 7%Z; SZ k; SZ tid; SZ mt; SL pre; SB body] =>
      match new_of_kind (Z.to_N k) (Z.to_N tid), pkts_of_sx pre with
      | Some r, Some ps =>
          let t := fold_left on_packet_written ps [] in
          s_ok [obs_pkt (unmarshal r body);
                obs_pkt (fst (decode_message t (Z.to_N mt) (carried (Z.to_N mt) body)))]
      | _, _ => bad_case
      end
  | SL [SZ 4%Z; SL tys; SL ms] =>
      match msgs_of_sx ms with
      | Some ml =>
          let types := map (fun s => match s with SZ z => Z.to_N z | _ => 0 end) tys in
          match expect_message types ml 0 with
          | Ok (i, m) => s_ok [sN i; sN (fst m); SB (snd m)]
          | Err e => s_err e
          | Panic _ => s_panic
          end
      | None => bad_case
      end
  | _ => bad_case
  end.
