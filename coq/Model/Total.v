(* C07 -- totality: the model side of the correspondence.
   Definitions only.  A case is tagged by its first element:

     (1 x<name> a1 a2 ...)   a translated helper function, named by its Coq identifier; the
                              observation is (0 value) / (2) -- the value is an integer, a bool
                              (0/1), a string (bytes) or, for amf0.Discovery, (tag-bytes err).
     (0 dec x<bytes> ...)     a decoder entry point that has no executable model in this file:
                              the "model" is the property statement itself -- the call
                              returns, observation (0); a panic on the implementation side is
                              (2) and so shows up as a correspondence failure as well as a
                              direct-oracle failure.
     (2 x<dec> x<bytes>)      a decoder entry point whose executable model lives in another
                              property's Model file (imported read-only): observation is the
                              outcome class (0) value / (1) error / (2) panic.
     (3 ...)                  a timing measurement; observation (0).
     (4 op signed w a b)      one arithmetic form of Lib/GoSem.v (the forms the translator emits)
                              against Go's own typed arithmetic; observation (0 value) / (2).

   The helper bodies are the ones regenerated from /repo by tools/repo2coq/gen_funcs.go. *)
From Coq Require Import String.
From Verif Require Import Lib.Base Lib.Sx Lib.GoSem.
From Verif Require Import Gen.Gen_amf0 Gen.Gen_rtmp Gen.Gen_flv Gen.Gen_aac Gen.Gen_avc Gen.Gen_websocket.
From Verif Require Model.Amf0 Model.Flv Model.Aac Model.Avc Model.RtmpPacket Model.JsonPlus.
Open Scope Z_scope.

Definition obs_Z (r : res Z) : sx :=
  match r with Ok v => s_ok [SZ v] | Err e => s_err e | Panic _ => s_panic end.
Definition obs_bool (r : res bool) : sx :=
  match r with Ok v => s_ok [sbool v] | Err e => s_err e | Panic _ => s_panic end.
Definition obs_str (r : res string) : sx :=
  match r with Ok v => s_ok [SB (string_bytes v)] | Err e => s_err e | Panic _ => s_panic end.
Definition obs_disc (r : res (option string * bool)) : sx :=
  match r with
  | Ok (a, e) => s_ok [SB (match a with Some s => string_bytes s | None => [] end); sbool e]
  | Err e => s_err e
  | Panic _ => s_panic
  end.

(* a helper with its argument shape: integer arguments with their bit widths (0 = int, i.e.
   not swept exhaustively), or one byte-slice argument *)
Inductive helper : Type :=
| H0 (f : unit -> sx)
| H1 (w : Z) (f : Z -> sx)
| H2 (w1 w2 : Z) (f : Z -> Z -> sx)
| HB (f : list Z -> sx).

Definition helpers : list (string * helper) := [
  ("amf0_marker_String", H1 8 (fun v => obs_str (amf0_marker_String v)));
  ("amf0_Discovery", HB (fun p => obs_disc (amf0_Discovery p)));
  ("rtmp_SetChunkSize_Size", H0 (fun u => obs_Z (rtmp_SetChunkSize_Size u)));
  ("rtmp_WindowAcknowledgementSize_Size", H0 (fun u => obs_Z (rtmp_WindowAcknowledgementSize_Size u)));
  ("rtmp_SetPeerBandwidth_Size", H0 (fun u => obs_Z (rtmp_SetPeerBandwidth_Size u)));
  ("rtmp_UserControl_Size", H1 16 (fun v => obs_Z (rtmp_UserControl_Size v)));
  ("flv_TagType_String", H1 8 (fun v => obs_str (flv_TagType_String v)));
  ("flv_AudioChannels_String", H1 8 (fun v => obs_str (flv_AudioChannels_String v)));
  ("flv_AudioChannels_From", H2 8 8 (fun v a => obs_Z (flv_AudioChannels_From_res v a)));
  ("flv_AudioSampleBits_String", H1 8 (fun v => obs_str (flv_AudioSampleBits_String v)));
  ("flv_AudioSamplingRate_String", H1 8 (fun v => obs_str (flv_AudioSamplingRate_String v)));
  ("flv_AudioSamplingRate_ToHz", H1 8 (fun v => obs_Z (flv_AudioSamplingRate_ToHz_res v)));
  ("flv_AudioSamplingRate_OpusToHz", H1 8 (fun v => obs_Z (flv_AudioSamplingRate_OpusToHz_res v)));
  ("flv_AudioSamplingRate_From", H2 8 8 (fun v a => obs_Z (flv_AudioSamplingRate_From_res v a)));
  ("flv_AudioSamplingRate_OpusFrom", H2 8 8 (fun v a => obs_Z (flv_AudioSamplingRate_OpusFrom_res v a)));
  ("flv_AudioCodec_String", H1 8 (fun v => obs_str (flv_AudioCodec_String v)));
  ("flv_VideoFrameType_String", H1 8 (fun v => obs_str (flv_VideoFrameType_String v)));
  ("flv_VideoCodec_String", H1 8 (fun v => obs_str (flv_VideoCodec_String v)));
  ("flv_VideoFrameTrait_String", H1 8 (fun v => obs_str (flv_VideoFrameTrait_String v)));
  ("aac_ObjectType_String", H1 8 (fun v => obs_str (aac_ObjectType_String v)));
  ("aac_ObjectType_ToProfile", H1 8 (fun v => obs_Z (aac_ObjectType_ToProfile v)));
  ("aac_Profile_String", H1 8 (fun v => obs_str (aac_Profile_String v)));
  ("aac_Profile_ToObjectType", H1 8 (fun v => obs_Z (aac_Profile_ToObjectType v)));
  ("aac_SampleRateIndex_String", H1 8 (fun v => obs_str (aac_SampleRateIndex_String v)));
  ("aac_SampleRateIndex_ToHz", H1 8 (fun v => obs_Z (aac_SampleRateIndex_ToHz v)));
  ("aac_Channels_String", H1 8 (fun v => obs_str (aac_Channels_String v)));
  ("avc_NALUType_String", H1 8 (fun v => obs_str (avc_NALUType_String v)));
  ("avc_AVCProfile_String", H1 16 (fun v => obs_str (avc_AVCProfile_String v)));
  ("avc_AVCLevel_String", H1 8 (fun v => obs_str (avc_AVCLevel_String v)));
  ("websocket_isValidCompressionLevel", H1 0 (fun v => obs_bool (websocket_isValidCompressionLevel v)));
  ("websocket_isControl", H1 0 (fun v => obs_bool (websocket_isControl v)));
  ("websocket_isData", H1 0 (fun v => obs_bool (websocket_isData v)));
  ("websocket_isValidReceivedCloseCode", H1 0 (fun v => obs_bool (websocket_isValidReceivedCloseCode v)))
]%string.

(* names as byte strings, converted once *)
Definition helper_table : list (list N * helper) := map (fun nh => (string_bytes (fst nh), snd nh)) helpers.

Fixpoint find_helper (name : list N) (l : list (list N * helper)) : option helper :=
  match l with
  | [] => None
  | (n, h) :: t => if bytes_eqb name n then Some h else find_helper name t
  end.

Definition bytes_Z (b : list N) : list Z := map Z.of_N b.

Definition run_helper (h : helper) (args : list sx) : sx :=
  match h, args with
  | H0 f, [] => f tt
  | H1 _ f, [SZ v] => f v
  | H2 _ _ f, [SZ v; SZ a] => f v a
  | HB f, [SB p] => f (bytes_Z p)
  | _, _ => bad_case
  end.

(* ---- decoders modelled elsewhere: outcome class only ---- *)
Definition cls {A} (r : res A) : sx :=
  match r with Ok _ => SL [SZ 0] | Err _ => SL [SZ 1] | Panic _ => s_panic end.

(* the transaction table the rtmp harness registers before decoding: tid 1.0 -> connect,
   2.0 -> createStream, 3.0 -> "other" (keys are the float64 bit patterns) *)
Definition c07_tx : Verif.Model.RtmpPacket.tx :=
  [(4607182418800017408, string_bytes "connect"); (4611686018427387904, string_bytes "createStream");
   (4613937818241073152, string_bytes "other")]%N.

Definition decoders : list (string * (bytes -> sx)) := [
  (* NewProtocol(..).DecodeMessage(&Message{MessageType: b[0], Payload: b[1:]}) *)
  ("rtmp.decode.dec", fun b => match b with
                               | mt :: payload => cls (fst (Verif.Model.RtmpPacket.decode_message c07_tx mt payload))
                               | [] => SL [SZ 1]
                               end);
  (* ioutil.ReadAll(NewJsonPlusReader(bytes.NewReader(b))) *)
  ("json.strip.dec", fun b => cls (snd (Verif.Model.JsonPlus.strip b)));
  (* Discovery(b) then a.UnmarshalBinary(b) *)
  ("amf0.decode", fun b => cls (Verif.Model.Amf0.decode_fast b));
  (* NewAudioPackager().Decode(b) / NewVideoPackager().Decode(b) *)
  ("flv.audio.dec", fun b => cls (Verif.Model.Flv.audio_dec b));
  ("flv.video.dec", fun b => cls (Verif.Model.Flv.video_dec b));
  (* NewADTS().Decode(b) once; (&AudioSpecificConfig{}).UnmarshalBinary(b) *)
  ("aac.adts.dec", fun b => cls (snd (Verif.Model.Aac.adts_decode Verif.Model.Aac.asc0 b)));
  ("aac.asc.dec", fun b => cls (snd (Verif.Model.Aac.asc_unmarshal Verif.Model.Aac.asc0 b)));
  (* NewNALU().UnmarshalBinary(b); NewAVCDecoderConfigurationRecord().UnmarshalBinary(b);
     NewAVCSample(b[0]).UnmarshalBinary(b[1:]) *)
  ("avc.nalu.dec", fun b => cls (Verif.Model.Avc.nalu_unmarshal b));
  ("avc.record.dec", fun b => cls (snd (Verif.Model.Avc.rec_unmarshal Verif.Model.Avc.rec0 b)));
  ("avc.sample.dec", fun b => match b with
                              | l :: rest => cls (snd (Verif.Model.Avc.sample_unmarshal l [] rest))
                              | [] => SL [SZ 1]
                              end)
]%string.

Definition decoder_table : list (list N * (bytes -> sx)) := map (fun nf => (string_bytes (fst nf), snd nf)) decoders.

Fixpoint find_decoder (name : list N) (l : list (list N * (bytes -> sx))) : option (bytes -> sx) :=
  match l with
  | [] => None
  | (n, f) :: t => if bytes_eqb name n then Some f else find_decoder name t
  end.

Definition run_c07 (c : sx) : sx :=
  match c with
  | SL (SZ 1 :: SB name :: args) =>
      match find_helper name helper_table with
      | Some h => run_helper h args
      | None => bad_case
      end
  | SL [SZ 2; SB name; SB b] =>
      match find_decoder name decoder_table with
      | Some f => f b
      | None => bad_case
      end
  | SL [SZ 4; SZ op; SZ sg; SZ w; SZ a; SZ b] => obs_Z (go_binop op (Z.eqb sg 1) w a b)
  | SL (SZ 0 :: _) => s_ok []
  | SL (SZ 3 :: _) => s_ok []
  | _ => bad_case
  end.
