(* Model of the read path of websocket/conn.go (C14): advanceFrame, handleProtocolError,
   NextReader, messageReader.Read under ioutil.ReadAll (= ReadMessage), SetReadLimit, the default
   ping/pong/close handlers, isValidReceivedCloseCode, and the part of WriteControl those use.
   Definitions only.  Transcribed from the code AFTER the two fix: commits (negative 64-bit
   length rejected, overflow-safe limit accounting); [fixed = false] selects the code as it was
   in the pinned snapshot (used for the _refuted witnesses only).

   Second half: [rfc_receive], what an RFC 6455 receiver does with the same byte stream, written
   from the RFC text and independent of the first half.

   Not modelled: compression (newDecompressionReader = nil: C14 is stated for compression not
   negotiated), deadlines/timeouts of WriteControl (the lock is always free and the transport
   write succeeds in the sessions considered), hideTempErr (no temporary net.Error occurs),
   partial application reads (the application reads every message to its end, as ReadMessage
   does), readMaskPos (a frame's payload is consumed as one chunk, position restarts at 0). *)
From Coq Require Import String Ascii.
From Verif Require Import Lib.Base Lib.Sx Lib.Utf8.
From Verif Require Import Gen.Gen_websocket.
Open Scope Z_scope.

(* ------------------------------------------------------------------ helpers *)
Fixpoint sbytes (s : string) : bytes :=
  match s with EmptyString => [] | String a r => N_of_ascii a :: sbytes r end.

(* first n cells of b (n may be astronomically large: structural on b, counter in N) *)
Fixpoint split_at (n : N) (b acc : bytes) : option (bytes * bytes) :=
  if (n =? 0)%N then Some (rev' acc, b)
  else match b with
       | [] => None
       | x :: t => split_at (N.pred n) t (x :: acc)
       end.

Fixpoint skip_n (n : N) (b : bytes) : option bytes :=
  if (n =? 0)%N then Some b
  else match b with [] => None | _ :: t => skip_n (N.pred n) t end.

(* maskBytes(key, pos, b): b[i] ^= key[pos&3]; pos++ *)
Fixpoint mask_bytes (key : bytes) (pos : N) (b : bytes) : bytes :=
  match b with
  | [] => []
  | x :: t => N.lxor x (nth (N.to_nat (N.land pos 3)) key 0%N) :: mask_bytes key (N.succ pos) t
  end.

(* ------------------------------------------------------------------ constants (generated) *)
Definition finalBit : N := Z.to_N websocket_finalBit.
Definition rsv1Bit : N := Z.to_N websocket_rsv1Bit.
Definition rsv2Bit : N := Z.to_N websocket_rsv2Bit.
Definition rsv3Bit : N := Z.to_N websocket_rsv3Bit.
Definition maskBit : N := Z.to_N websocket_maskBit.
Definition rsvMask : N := N.lor rsv1Bit (N.lor rsv2Bit rsv3Bit).

(* isControl and isData are the bodies the translator regenerates from conn.go on every run
   (Gen_websocket.v) *)
Definition unres (r : res bool) : bool := match r with Ok b => b | _ => false end.
Definition is_control (t : Z) : bool := unres (websocket_isControl t).
Definition is_data (t : Z) : bool := unres (websocket_isData t).
(* the close-code predicate is located by its role (the func(int) bool advanceFrame applies to the
   decoded status), whatever its name, file and shape: tools/repo2coq/gen_wsread.go *)
Definition is_valid_received_close_code (code : Z) : bool := websocket_close_code_valid code.

(* ------------------------------------------------------------------ errors and state *)
Inductive rerr :=
| EUeof                              (* errUnexpectedEOF = &CloseError{1006, "unexpected EOF"} *)
| EEof                               (* io.EOF out of io.CopyN *)
| EProto (msg : bytes)               (* errors.New("websocket: " + msg) *)
| ELimit                             (* ErrReadLimit *)
| EClose (code : Z) (text : bytes)   (* &CloseError{code, text} *)
| EInternal                          (* "internal error, unexpected text or binary in Reader" *)
| EWrite.                            (* a WriteControl error surfaced by the ping handler *)

Record conn := mkConn {
  c_server : bool;            (* isServer *)
  c_limit : Z;                (* readLimit, int64 *)
  c_rem : Z;                  (* readRemaining, int64 *)
  c_final : bool;             (* readFinal *)
  c_len : Z;                  (* readLength, int64 *)
  c_err : option rerr;        (* readErr (sticky) *)
  c_errcount : Z;             (* readErrCount *)
  c_key : bytes;              (* readMaskKey *)
  c_in : bytes;               (* what the transport will still deliver before EOF *)
  c_out : list (Z * bytes);   (* control frames handed to the transport, newest first *)
  c_wclosed : bool            (* writeErr = ErrCloseSent *)
}.

Definition set_rem c v := mkConn (c_server c) (c_limit c) v (c_final c) (c_len c) (c_err c) (c_errcount c) (c_key c) (c_in c) (c_out c) (c_wclosed c).
Definition set_final c v := mkConn (c_server c) (c_limit c) (c_rem c) v (c_len c) (c_err c) (c_errcount c) (c_key c) (c_in c) (c_out c) (c_wclosed c).
Definition set_len c v := mkConn (c_server c) (c_limit c) (c_rem c) (c_final c) v (c_err c) (c_errcount c) (c_key c) (c_in c) (c_out c) (c_wclosed c).
Definition set_err c v := mkConn (c_server c) (c_limit c) (c_rem c) (c_final c) (c_len c) v (c_errcount c) (c_key c) (c_in c) (c_out c) (c_wclosed c).
Definition set_errcount c v := mkConn (c_server c) (c_limit c) (c_rem c) (c_final c) (c_len c) (c_err c) v (c_key c) (c_in c) (c_out c) (c_wclosed c).
Definition set_key c v := mkConn (c_server c) (c_limit c) (c_rem c) (c_final c) (c_len c) (c_err c) (c_errcount c) v (c_in c) (c_out c) (c_wclosed c).
Definition set_in c v := mkConn (c_server c) (c_limit c) (c_rem c) (c_final c) (c_len c) (c_err c) (c_errcount c) (c_key c) v (c_out c) (c_wclosed c).
Definition set_out c v w := mkConn (c_server c) (c_limit c) (c_rem c) (c_final c) (c_len c) (c_err c) (c_errcount c) (c_key c) (c_in c) v w.

(* newConn + SetReadLimit(limit), transport content [inp] *)
Definition new_conn (server : bool) (limit : Z) (inp : bytes) : conn :=
  mkConn server limit 0 true 0 None 0 [0;0;0;0]%N inp [] false.

(* result of a step that may stop with an error or a run-time panic *)
Inductive mres (A : Type) : Type :=
| MOk (c : conn) (a : A)
| MErr (c : conn) (e : rerr)
| MPanic (site : N).
Arguments MOk {A}. Arguments MErr {A}. Arguments MPanic {A}.

Definition mbind {A B} (m : mres A) (f : conn -> A -> mres B) : mres B :=
  match m with MOk c a => f c a | MErr c e => MErr c e | MPanic s => MPanic s end.

(* ------------------------------------------------------------------ WriteControl, as used by the read path *)
(* 0 = nil, 1 = ErrCloseSent (writeErr), 2 = errBadWriteOpCode / errInvalidControlFrame *)
Definition write_control (t : Z) (data : bytes) (c : conn) : conn * N :=
  if negb (is_control t) then (c, 2%N)
  else if websocket_maxControlFramePayloadSize <? Z.of_N (lenN data) then (c, 2%N)
  else if c_wclosed c then (c, 1%N)
  else (set_out c ((t, data) :: c_out c) (t =? websocket_CloseMessage), 0%N).

(* FormatCloseMessage *)
Definition format_close (code : Z) (text : bytes) : bytes :=
  be2 (Z.to_N (code mod 65536)) ++ text.

Definition handle_protocol_error {A} (msg : bytes) (c : conn) : mres A :=
  let (c', _) := write_control websocket_CloseMessage (format_close websocket_CloseProtocolError msg) c in
  MErr c' (EProto msg).

(* strconv.FormatInt(rsv,16) for rsv in 0..255 and strconv.Itoa for 0..15 *)
Definition hex_digit (d : N) : N := (if d <? 10 then 48 + d else 87 + d)%N.
Definition hex_byte (v : N) : bytes := (if v <? 16 then [hex_digit v] else [hex_digit (v / 16); hex_digit (v mod 16)])%N.
Definition itoa_small (v : Z) : bytes :=
  let n := Z.to_N v in (if n <? 10 then [48 + n] else [48 + n / 10; 48 + n mod 10])%N.

Definition msg_rsv_prefix : bytes := Eval vm_compute in (sbytes "unexpected reserved bits 0x").
Definition msg_rsv (rsv : N) : bytes := msg_rsv_prefix ++ hex_byte rsv.
Definition msg_ctl_len : bytes := Eval vm_compute in (sbytes "control frame length > 125").
Definition msg_ctl_final : bytes := Eval vm_compute in (sbytes "control frame not final").
Definition msg_start : bytes := Eval vm_compute in (sbytes "message start before final message frame").
Definition msg_cont : bytes := Eval vm_compute in (sbytes "continuation after final message frame").
Definition msg_opcode_prefix : bytes := Eval vm_compute in (sbytes "unknown opcode ").
Definition msg_opcode (t : Z) : bytes := msg_opcode_prefix ++ itoa_small t.
Definition msg_len63 : bytes := Eval vm_compute in (sbytes "unexpected payload length").
Definition msg_mask : bytes := Eval vm_compute in (sbytes "incorrect mask flag").
Definition msg_close_code : bytes := Eval vm_compute in (sbytes "invalid close code").
Definition msg_close_utf8 : bytes := Eval vm_compute in (sbytes "invalid utf8 payload in close frame").

(* c.read(n): Peek + Discard; a short stream gives errUnexpectedEOF *)
Definition c_readn (n : nat) (c : conn) : mres bytes :=
  match take n (c_in c) with
  | Some (p, rest) => MOk (set_in c rest) p
  | None => MErr (set_in c []) EUeof
  end.

(* ------------------------------------------------------------------ advanceFrame *)
(* 1. skip remainder of previous frame (io.CopyN: short -> io.EOF) *)
Definition af_skip (c : conn) : mres unit :=
  if 0 <? c_rem c then
    match skip_n (Z.to_N (c_rem c)) (c_in c) with
    | Some rest => MOk (set_in c rest) tt
    | None => MErr (set_in c []) EEof
    end
  else MOk c tt.

(* 2. first two header bytes, reserved bits, per-opcode rules; yields (final, frameType, mask) *)
Definition af_head (c : conn) : mres (bool * Z * bool) :=
  mbind (c_readn 2 c) (fun c p =>
  match p with
  | [p0; p1] =>
    let final := negb (N.land p0 finalBit =? 0)%N in
    let frameType := Z.of_N (N.land p0 15) in
    let mask := negb (N.land p1 maskBit =? 0)%N in
    let c := set_rem c (Z.of_N (N.land p1 127)) in
    let rsv := N.land p0 rsvMask in
    if negb (rsv =? 0)%N then handle_protocol_error (msg_rsv rsv) c
    else if is_control frameType then
      if websocket_maxControlFramePayloadSize <? c_rem c then handle_protocol_error msg_ctl_len c
      else if negb final then handle_protocol_error msg_ctl_final c
      else MOk c (final, frameType, mask)
    else if is_data frameType then
      if negb (c_final c) then handle_protocol_error msg_start c
      else MOk (set_final c final) (final, frameType, mask)
    else if frameType =? websocket_continuationFrame then
      if c_final c then handle_protocol_error msg_cont c
      else MOk (set_final c final) (final, frameType, mask)
    else handle_protocol_error (msg_opcode frameType) c
  | _ => MPanic 1        (* p[0] / p[1] out of range *)
  end).

(* 3. extended length *)
Definition af_len (fixed : bool) (c : conn) : mres unit :=
  if c_rem c =? 126 then
    mbind (c_readn 2 c) (fun c p => MOk (set_rem c (Z.of_N (be_val p))) tt)
  else if c_rem c =? 127 then
    mbind (c_readn 8 c) (fun c p =>
      let c := set_rem c (zi64 (Z.of_N (be_val p))) in
      if fixed && (c_rem c <? 0) then handle_protocol_error msg_len63 c
      else MOk c tt)
  else MOk c tt.

(* 4. masking *)
Definition af_mask (mask : bool) (c : conn) : mres unit :=
  if negb (Bool.eqb mask (c_server c)) then handle_protocol_error msg_mask c
  else if mask then mbind (c_readn 4 c) (fun c p => MOk (set_key c p) tt)
  else MOk c tt.

(* 5. data frames: read limit *)
Definition af_data (fixed : bool) (frameType : Z) (c : conn) : mres Z :=
  let c := set_len c (zi64 (c_len c + c_rem c)) in
  if (fixed && (c_len c <? 0)) || ((0 <? c_limit c) && (c_limit c <? c_len c)) then
    let (c', _) := write_control websocket_CloseMessage (format_close websocket_CloseMessageTooBig []) c in
    MErr c' ELimit
  else MOk c frameType.

(* default handlers (SetPingHandler(nil), SetPongHandler(nil), SetCloseHandler(nil)) *)
Definition handle_ping (payload : bytes) (c : conn) : conn * option rerr :=
  let (c', e) := write_control websocket_PongMessage payload c in
  (c', if (e =? 2)%N then Some EWrite else None).     (* nil and ErrCloseSent both give nil *)

Definition handle_close (code : Z) (c : conn) : conn :=
  let message := if code =? websocket_CloseNoStatusReceived then [] else format_close code [] in
  fst (write_control websocket_CloseMessage message c).

(* 6./7. control frames *)
Definition af_control (frameType : Z) (c : conn) : mres Z :=
  mbind (if 0 <? c_rem c then
           match c_readn (Z.to_nat (c_rem c)) c with
           | MOk c p => MOk (set_rem c 0) (if c_server c then mask_bytes (c_key c) 0 p else p)
           | MErr c e => MErr (set_rem c 0) e
           | MPanic s => MPanic s
           end
         else MOk c []) (fun c payload =>
  if frameType =? websocket_PongMessage then MOk c frameType
  else if frameType =? websocket_PingMessage then
    match handle_ping payload c with
    | (c, Some e) => MErr c e
    | (c, None) => MOk c frameType
    end
  else if frameType =? websocket_CloseMessage then
    match payload with
    | b0 :: b1 :: text =>
      let closeCode := Z.of_N (be_val [b0; b1]) in
      if negb (is_valid_received_close_code closeCode) then handle_protocol_error msg_close_code c
      else if negb (utf8_valid text) then handle_protocol_error msg_close_utf8 c
      else MErr (handle_close closeCode c) (EClose closeCode text)
    | _ =>
      MErr (handle_close websocket_CloseNoStatusReceived c) (EClose websocket_CloseNoStatusReceived [])
    end
  else MOk c frameType).

Definition advance_frame (fixed : bool) (c : conn) : mres Z :=
  mbind (af_skip c) (fun c _ =>
  mbind (af_head c) (fun c h =>
  let '(final, frameType, mask) := h in
  mbind (af_len fixed c) (fun c _ =>
  mbind (af_mask mask c) (fun c _ =>
  if (frameType =? websocket_continuationFrame) || (frameType =? websocket_TextMessage)
     || (frameType =? websocket_BinaryMessage)
  then af_data fixed frameType c
  else af_control frameType c)))).

(* ------------------------------------------------------------------ NextReader / ReadMessage *)
Inductive rresult :=
| RMsg (t : Z) (p : bytes)
| RErr (e : rerr).

Definition repeat_limit : Z := 1000.

(* the tail of NextReader once the loop has ended without a reader *)
Definition next_reader_fail (c : conn) : res (conn * rresult) :=
  let c := set_errcount c (c_errcount c + 1) in
  if repeat_limit <=? c_errcount c then Panic 1000    (* "repeated read on failed websocket connection" *)
  else match c_err c with
       | Some e => Ok (c, RErr e)
       | None => Panic 1001                            (* unreachable: loop left with readErr == nil *)
       end.

(* the loop of NextReader; Ok (c, Some t): a reader for a message of type t *)
Fixpoint next_reader_loop (fuel : nat) (fixed : bool) (c : conn) : res (conn * option Z) :=
  match c_err c with
  | Some _ => Ok (c, None)
  | None =>
    match fuel with
    | O => Err 99
    | S f =>
      match advance_frame fixed c with
      | MPanic s => Panic s
      | MErr c e => Ok (set_err c (Some e), None)
      | MOk c t => if is_data t then Ok (c, Some t) else next_reader_loop f fixed c
      end
    end
  end.

(* messageReader.Read driven by ioutil.ReadAll: returns the payload (chunks, newest first) or the
   error.  One iteration = one pass through the for-loop of Read. *)
Fixpoint read_all (fuel : nat) (fixed : bool) (c : conn) (acc : list bytes) : res (conn * (list bytes + rerr)) :=
  match fuel with
  | O => Err 99
  | S f =>
    match c_err c with
    | Some e =>
      (* err == io.EOF && c.messageReader == r -> errUnexpectedEOF *)
      Ok (c, inr (match e with EEof => EUeof | _ => e end))
    | None =>
      if 0 <? c_rem c then
        match split_at (Z.to_N (c_rem c)) (c_in c) [] with
        | Some (p, rest) =>
          let p := if c_server c then mask_bytes (c_key c) 0 p else p in
          read_all f fixed (set_rem (set_in c rest) 0) (p :: acc)
        | None =>
          (* the stream ends inside the frame: br.Read eventually returns io.EOF with
             readRemaining > 0 -> errUnexpectedEOF *)
          let c := set_rem (set_in c []) (c_rem c - Z.of_N (lenN (c_in c))) in
          Ok (set_err c (Some EUeof), inr EUeof)
        end
      else if c_final c then Ok (c, inl acc)       (* io.EOF to ReadAll: message complete *)
      else
        match advance_frame fixed c with
        | MPanic s => Panic s
        | MErr c e => read_all f fixed (set_err c (Some e)) acc
        | MOk c t =>
          if is_data t then read_all f fixed (set_err c (Some EInternal)) acc
          else read_all f fixed c acc
        end
    end
  end.

Definition read_message (fixed : bool) (c : conn) : res (conn * rresult) :=
  let fuel := S (S (length (c_in c))) in
  let c := set_len c 0 in
  let* (c, r) := next_reader_loop fuel fixed c in
  match r with
  | None => next_reader_fail c
  | Some t =>
    let* (c, r) := read_all (fuel + fuel) fixed c [] in
    match r with
    | inl chunks => Ok (c, RMsg t (concat (rev' chunks)))
    | inr e => Ok (c, RErr e)
    end
  end.

(* the application's read loop: ReadMessage until the first error, then [extra] more calls
   (the API contract says: none) *)
Fixpoint read_extra (extra : nat) (fixed : bool) (c : conn) (acc : list rresult) : res (conn * list rresult) :=
  match extra with
  | O => Ok (c, acc)
  | S n => let* (c, r) := read_message fixed c in read_extra n fixed c (r :: acc)
  end.

Fixpoint read_loop (fuel : nat) (extra : nat) (fixed : bool) (c : conn) (acc : list rresult) : res (conn * list rresult) :=
  match fuel with
  | O => Err 99
  | S f =>
    let* (c, r) := read_message fixed c in
    match r with
    | RMsg _ _ => read_loop f extra fixed c (r :: acc)
    | RErr _ => read_extra extra fixed c (r :: acc)
    end
  end.

(* results in order, control frames written in order *)
Definition lib_session (fixed server : bool) (limit : Z) (extra : nat) (inp : bytes)
  : res (list rresult * list (Z * bytes)) :=
  let* (c, rs) := read_loop (S (length inp)) extra fixed (new_conn server limit inp) [] in
  Ok (rev' rs, rev' (c_out c)).

(* ---- the application may also drop a message: NextReader, then NextReader again without reading
   (the next advanceFrame skips what is left of the frame, step 1, and the NextReader loop walks over the
   remaining fragments).  pat: for the i-th successful NextReader, true = abandon. *)
Definition next_reader_only (fixed : bool) (c : conn) : res (conn * rresult) :=
  let fuel := S (S (length (c_in c))) in
  let c := set_len c 0 in
  let* (c, r) := next_reader_loop fuel fixed c in
  match r with
  | None => next_reader_fail c
  | Some t => Ok (c, RMsg t [])
  end.

Fixpoint read_loop_pat (fuel : nat) (fixed : bool) (pat : list bool) (c : conn) (acc : list (bool * rresult))
  : res (conn * list (bool * rresult)) :=
  match fuel with
  | O => Err 99
  | S f =>
    let abandon := match pat with b :: _ => b | [] => false end in
    let pat' := match pat with _ :: t => t | [] => [] end in
    let* (c, r) := (if abandon then next_reader_only fixed c else read_message fixed c) in
    match r with
    | RMsg _ _ => read_loop_pat f fixed pat' c ((abandon, r) :: acc)
    | RErr _ => Ok (c, (abandon, r) :: acc)
    end
  end.

Definition lib_session_pat (fixed server : bool) (limit : Z) (pat : list bool) (inp : bytes)
  : res (list (bool * rresult) * list (Z * bytes)) :=
  let* (c, rs) := read_loop_pat (S (length inp)) fixed pat (new_conn server limit inp) [] in
  Ok (rev' rs, rev' (c_out c)).

(* ---- application-side writes between the reads.  WriteControl is [write_control]; WriteMessage
   for a payload that fits the write buffer (prepWrite, then one final frame through flushFrame /
   Conn.write; no compression: newCompressionWriter = nil) is [write_message].  Both test the
   close-sent latch (writeErr) and set it when a Close frame went out. *)
Inductive appop :=
| AControl (t : Z) (data : bytes)      (* c.WriteControl(t, data, deadline) *)
| AMessage (t : Z) (data : bytes).     (* c.WriteMessage(t, data) *)

Definition write_message (t : Z) (data : bytes) (c : conn) : conn * N :=
  if negb (is_control t) && negb (is_data t) then (c, 2%N)            (* prepWrite: errBadWriteOpCode *)
  else if c_wclosed c then (c, 1%N)                                     (* prepWrite: writeErr = ErrCloseSent *)
  else if is_control t && (websocket_maxControlFramePayloadSize <? Z.of_N (lenN data)) then (c, 2%N)
  else (set_out c ((t, data) :: c_out c) (t =? websocket_CloseMessage), 0%N).

Definition do_app (op : appop) (c : conn) : conn * N :=
  match op with
  | AControl t d => write_control t d c
  | AMessage t d => write_message t d c
  end.

(* the operations scheduled before the k-th read, in order; result codes newest first *)
Fixpoint apply_apps (k : nat) (apps : list (nat * appop)) (c : conn) (codes : list N) : conn * list N :=
  match apps with
  | [] => (c, codes)
  | (i, op) :: more =>
    if Nat.eqb i k then let (c', n) := do_app op c in apply_apps k more c' (n :: codes)
    else apply_apps k more c codes
  end.

Fixpoint read_loop_app (fuel : nat) (k : nat) (fixed : bool) (apps : list (nat * appop)) (c : conn)
         (acc : list rresult) (codes : list N) : res (conn * list rresult * list N) :=
  match fuel with
  | O => Err 99
  | S f =>
    let (c, codes) := apply_apps k apps c codes in
    let* (c, r) := read_message fixed c in
    match r with
    | RMsg _ _ => read_loop_app f (S k) fixed apps c (r :: acc) codes
    | RErr _ => Ok (c, r :: acc, codes)
    end
  end.

Definition lib_session_app (fixed server : bool) (limit : Z) (apps : list (nat * appop)) (inp : bytes)
  : res (list rresult * list (Z * bytes) * list N) :=
  let* (cr, codes) := read_loop_app (S (length inp)) 0 fixed apps (new_conn server limit inp) [] [] in
  Ok (rev' (snd cr), rev' (c_out (fst cr)), rev' codes).

(* ---- the reader on a connection that may have permessage-deflate NEGOTIATED (neg = true:
   newDecompressionReader != nil).  Step 2 as the code has it (after fix ddfeb27): on a text / binary
   frame with RSV1 set the bit is cleared (the message is compressed) and the REST of the reserved
   bits is checked; everywhere else RSV1 is a reserved bit like the others.  neg = false is
   [advance_frame] (lemma advance_frame_gen_false).  Inflating the payload of a compressed message is
   not modelled: sessions run through this reader carry no frame with RSV1 alone on a first data
   frame. *)
Definition head_rsv (neg : bool) (p0 : N) : N :=
  let frameType := Z.of_N (N.land p0 15) in
  let p0' := if neg && negb (N.land p0 rsv1Bit =? 0)%N && is_data frameType then N.ldiff p0 rsv1Bit else p0 in
  N.land p0' rsvMask.

Definition af_head_gen (neg : bool) (c : conn) : mres (bool * Z * bool) :=
  mbind (c_readn 2 c) (fun c p =>
  match p with
  | [p0; p1] =>
    let final := negb (N.land p0 finalBit =? 0)%N in
    let frameType := Z.of_N (N.land p0 15) in
    let mask := negb (N.land p1 maskBit =? 0)%N in
    let c := set_rem c (Z.of_N (N.land p1 127)) in
    let rsv := head_rsv neg p0 in
    if negb (rsv =? 0)%N then handle_protocol_error (msg_rsv rsv) c
    else if is_control frameType then
      if websocket_maxControlFramePayloadSize <? c_rem c then handle_protocol_error msg_ctl_len c
      else if negb final then handle_protocol_error msg_ctl_final c
      else MOk c (final, frameType, mask)
    else if is_data frameType then
      if negb (c_final c) then handle_protocol_error msg_start c
      else MOk (set_final c final) (final, frameType, mask)
    else if frameType =? websocket_continuationFrame then
      if c_final c then handle_protocol_error msg_cont c
      else MOk (set_final c final) (final, frameType, mask)
    else handle_protocol_error (msg_opcode frameType) c
  | _ => MPanic 1
  end).

Definition advance_frame_gen (neg fixed : bool) (c : conn) : mres Z :=
  mbind (af_skip c) (fun c _ =>
  mbind (af_head_gen neg c) (fun c h =>
  let '(final, frameType, mask) := h in
  mbind (af_len fixed c) (fun c _ =>
  mbind (af_mask mask c) (fun c _ =>
  if (frameType =? websocket_continuationFrame) || (frameType =? websocket_TextMessage)
     || (frameType =? websocket_BinaryMessage)
  then af_data fixed frameType c
  else af_control frameType c)))).

Fixpoint next_reader_loop_gen (fuel : nat) (neg fixed : bool) (c : conn) : res (conn * option Z) :=
  match c_err c with
  | Some _ => Ok (c, None)
  | None =>
    match fuel with
    | O => Err 99
    | S f =>
      match advance_frame_gen neg fixed c with
      | MPanic s => Panic s
      | MErr c e => Ok (set_err c (Some e), None)
      | MOk c t => if is_data t then Ok (c, Some t) else next_reader_loop_gen f neg fixed c
      end
    end
  end.

Fixpoint read_all_gen (fuel : nat) (neg fixed : bool) (c : conn) (acc : list bytes) : res (conn * (list bytes + rerr)) :=
  match fuel with
  | O => Err 99
  | S f =>
    match c_err c with
    | Some e => Ok (c, inr (match e with EEof => EUeof | _ => e end))
    | None =>
      if 0 <? c_rem c then
        match split_at (Z.to_N (c_rem c)) (c_in c) [] with
        | Some (p, rest) =>
          let p := if c_server c then mask_bytes (c_key c) 0 p else p in
          read_all_gen f neg fixed (set_rem (set_in c rest) 0) (p :: acc)
        | None =>
          let c := set_rem (set_in c []) (c_rem c - Z.of_N (lenN (c_in c))) in
          Ok (set_err c (Some EUeof), inr EUeof)
        end
      else if c_final c then Ok (c, inl acc)
      else
        match advance_frame_gen neg fixed c with
        | MPanic s => Panic s
        | MErr c e => read_all_gen f neg fixed (set_err c (Some e)) acc
        | MOk c t =>
          if is_data t then read_all_gen f neg fixed (set_err c (Some EInternal)) acc
          else read_all_gen f neg fixed c acc
        end
    end
  end.

Definition read_message_gen (neg fixed : bool) (c : conn) : res (conn * rresult) :=
  let fuel := S (S (length (c_in c))) in
  let c := set_len c 0 in
  let* (c, r) := next_reader_loop_gen fuel neg fixed c in
  match r with
  | None => next_reader_fail c
  | Some t =>
    let* (c, r) := read_all_gen (fuel + fuel) neg fixed c [] in
    match r with
    | inl chunks => Ok (c, RMsg t (concat (rev' chunks)))
    | inr e => Ok (c, RErr e)
    end
  end.

Fixpoint read_loop_gen (fuel : nat) (neg fixed : bool) (c : conn) (acc : list rresult) : res (conn * list rresult) :=
  match fuel with
  | O => Err 99
  | S f =>
    let* (c, r) := read_message_gen neg fixed c in
    match r with
    | RMsg _ _ => read_loop_gen f neg fixed c (r :: acc)
    | RErr _ => Ok (c, r :: acc)
    end
  end.

Definition lib_session_gen (neg fixed server : bool) (limit : Z) (inp : bytes)
  : res (list rresult * list (Z * bytes)) :=
  let* (c, rs) := read_loop_gen (S (length inp)) neg fixed (new_conn server limit inp) [] in
  Ok (rev' rs, rev' (c_out c)).

(* ---- partial application reads: messageReader.Read(b) call by call, len(b) = want (0 and 1
   included), across frame boundaries, with readMaskPos.  The whole transport content is taken to be
   in the bufio buffer already (the harness arranges that), so br.Read hands over
   min(len(b), readRemaining, what is left of the stream). *)
Record rd := mkRd { rc : conn; rpos : N (* readMaskPos *) }.

Fixpoint take_upto (n : N) (b acc : bytes) : bytes * bytes :=
  if (n =? 0)%N then (rev' acc, b)
  else match b with [] => (rev' acc, []) | x :: t => take_upto (N.pred n) t (x :: acc) end.

(* status of one Read: None = (n, nil); Some None = (0, io.EOF): message complete; Some (Some e) = error *)
Fixpoint mr_read (fuel : nat) (fixed : bool) (want : N) (s : rd) : res (rd * bytes * option (option rerr)) :=
  match fuel with
  | O => Err 99
  | S f =>
    let c := rc s in
    match c_err c with
    | Some e => Ok (s, [], Some (Some (match e with EEof => EUeof | _ => e end)))
    | None =>
      if 0 <? c_rem c then
        let n := N.min want (Z.to_N (c_rem c)) in
        if (n =? 0)%N then Ok (s, [], None)                          (* len(b) = 0 *)
        else match c_in c with
             | [] => Ok (mkRd (set_err c (Some EUeof)) (rpos s), [], Some (Some EUeof))
             | _ =>
               let (p, rest) := take_upto n (c_in c) [] in
               let out := if c_server c then mask_bytes (c_key c) (rpos s) p else p in
               let pos := if c_server c then N.land (rpos s + lenN p) 3 else rpos s in
               Ok (mkRd (set_rem (set_in c rest) (c_rem c - Z.of_N (lenN p))) pos, out, None)
             end
      else if c_final c then Ok (s, [], Some None)
      else
        match advance_frame fixed c with
        | MPanic site => Panic site
        | MErr c e => mr_read f fixed want (mkRd (set_err c (Some e)) (rpos s))
        | MOk c t =>
          let pos := if c_server c then 0%N else rpos s in          (* step 4: if mask { c.readMaskPos = 0 } *)
          if is_data t then mr_read f fixed want (mkRd (set_err c (Some EInternal)) pos)
          else mr_read f fixed want (mkRd c pos)
        end
    end
  end.

(* Read calls with the buffer sizes of [sizes] (cycled) until io.EOF or an error; one chunk per call *)
Fixpoint read_chunks (fuel : nat) (fixed : bool) (sizes all : list N) (s : rd) (acc : list bytes)
  : res (rd * (list bytes + rerr)) :=
  match fuel with
  | O => Err 99
  | S f =>
    let (want, sizes') := match sizes with w :: t => (w, t) | [] => match all with w :: t => (w, t) | [] => (1%N, []) end end in
    let* (sr, st) := mr_read (S (S (length (c_in (rc s))))) fixed want s in
    let (s', chunk) := sr in
    match st with
    | None => read_chunks f fixed sizes' all s' (chunk :: acc)
    | Some None => Ok (s', inl acc)
    | Some (Some e) => Ok (s', inr e)
    end
  end.

Inductive presult := PMsg (t : Z) (chunks : list bytes) | PErr (e : rerr).

Fixpoint partial_loop (fuel : nat) (fixed : bool) (sizes : list N) (c : conn) (acc : list presult)
  : res (conn * list presult) :=
  match fuel with
  | O => Err 99
  | S f =>
    let nfuel := S (S (length (c_in c))) in
    let* (c, r) := next_reader_loop nfuel fixed (set_len c 0) in
    match r with
    | None => let* (c, r) := next_reader_fail c in
              match r with RErr e => Ok (c, PErr e :: acc) | RMsg _ _ => Err 98 end
    | Some t =>
      let* (s, r) := read_chunks ((nfuel + nfuel) * S (length sizes)) fixed sizes sizes
                                 (mkRd c (if c_server c then 0%N else 0%N)) [] in
      match r with
      | inl chunks => partial_loop f fixed sizes (rc s) (PMsg t (rev' chunks) :: acc)
      | inr e => Ok (rc s, PErr e :: acc)
      end
    end
  end.

Definition lib_session_partial (fixed server : bool) (limit : Z) (sizes : list N) (inp : bytes)
  : res (list presult * list (Z * bytes)) :=
  let* (c, rs) := partial_loop (S (length inp)) fixed sizes (new_conn server limit inp) [] in
  Ok (rev' rs, rev' (c_out c)).

(* ================================================================== RFC 6455 receiver *)
Open Scope N_scope.

(* 5.2 base framing *)
Record fhdr := mkHdr {
  f_fin : bool; f_rsv : N; f_op : N; f_masked : bool; f_ext : bool (* 16- or 64-bit length form *);
  f_len : N; f_key : bytes }.

Inductive hparse :=
| HEnd                          (* no bytes left *)
| HCut                          (* the stream ends inside a frame header *)
| HBadLen                       (* 64-bit length whose most significant bit is 1 *)
| HOk (h : fhdr) (rest : bytes).

Definition two63 : N := 9223372036854775808.

Definition rfc_header (bs : bytes) : hparse :=
  match bs with
  | [] => HEnd
  | [_] => HCut
  | b0 :: b1 :: r =>
    let fin := (b0 / 128 =? 1) in
    let rsv := (b0 / 16) mod 8 in
    let op := b0 mod 16 in
    let masked := (b1 / 128 =? 1) in
    let l7 := b1 mod 128 in
    let with_len (ext : bool) (len : N) (r : bytes) : hparse :=
      if masked then
        match take 4 r with
        | Some (k, r') => HOk (mkHdr fin rsv op masked ext len k) r'
        | None => HCut
        end
      else HOk (mkHdr fin rsv op masked ext len []) r in
    if l7 <? 126 then with_len false l7 r
    else if l7 =? 126 then
      match take 2 r with
      | Some (l, r') => with_len true (be_val l) r'
      | None => HCut
      end
    else
      match take 8 r with
      | Some (l, r') => if two63 <=? be_val l then HBadLen else with_len true (be_val l) r'
      | None => HCut
      end
  end.

(* 5.3: transformed-octet-i = original-octet-i XOR masking-key-octet-(i MOD 4) *)
Fixpoint rfc_unmask (key : bytes) (i : N) (b : bytes) : bytes :=
  match b with
  | [] => []
  | x :: t => N.lxor x (nth (N.to_nat (i mod 4)) key 0) :: rfc_unmask key (N.succ i) t
  end.

Definition rfc_payload (h : fhdr) (rest : bytes) : option (bytes * bytes) :=
  match split_at (f_len h) rest [] with
  | Some (p, rest') => Some (if f_masked h then rfc_unmask (f_key h) 0 p else p, rest')
  | None => None
  end.

(* 7.4: status codes that may appear in a Close frame: those defined by 7.4.1 except the three
   that "MUST NOT be set as a status code in a Close control frame" (1005, 1006, 1015), the two
   later IANA registrations the library's table cites (1012, 1013), and the ranges 3000-3999
   (registered) and 4000-4999 (private) of 7.4.2; 0-999 are "not used", 1004 is reserved, the rest
   of 1000-2999 is reserved for future revisions. *)
Definition rfc_close_code_ok (code : N) : bool :=
  ((1000 <=? code) && (code <=? 1003)) || ((1007 <=? code) && (code <=? 1013))
  || ((3000 <=? code) && (code <=? 4999)).

Inductive outcome :=
| OCut (in_header : bool)                     (* the stream ended without a Close frame; in_header:
                                                 inside a frame header *)
| OViolation                                  (* fail the connection, Close 1002 *)
| OTooBig                                     (* message larger than the receiver accepts, Close 1009 *)
| OClosed (code : option N) (reason : bytes). (* the peer's Close frame; echoed *)

Inductive event :=
| EvMsg (op : N) (payload : bytes)
| EvPong (payload : bytes).                   (* a Pong the receiver sends *)

(* the largest message accepted: the configured limit, or (no limit) what a signed 64-bit
   counter can hold -- 10.4 allows an implementation-specific limit *)
Definition rfc_cap (limit : Z) : N :=
  if (0 <? limit)%Z then Z.to_N limit else two63 - 1.

(* the framing rules the property lists; is_open: a fragmented message is in progress *)
Definition rfc_violation (server is_open : bool) (h : fhdr) : bool :=
  negb (f_rsv h =? 0)                                          (* 5.2: RSV1-3 MUST be 0 (no extension) *)
  || negb (Bool.eqb (f_masked h) server)                       (* 5.1: client masks, server does not *)
  || ((3 <=? f_op h) && (f_op h <=? 7)) || (11 <=? f_op h)     (* 5.2: reserved opcodes *)
  || ((8 <=? f_op h) &&                                        (* 5.5: control frames are not fragmented *)
      (negb (f_fin h) || (125 <? f_len h) || f_ext h))         (*      and carry at most 125 bytes (which the
                                                                       minimal-encoding rule of 5.2 puts in the
                                                                       7-bit field: an extended form is oversized
                                                                       or non-minimal) *)
  || ((f_op h =? 0) && negb is_open)                           (* 5.4: continuation without a started message *)
  || (((f_op h =? 1) || (f_op h =? 2)) && is_open).            (* 5.4: new data frame inside a fragmented message *)

(* with permessage-deflate negotiated (RFC 7692 6): RSV1 becomes legal on the first frame of a data
   message and nowhere else; RSV2 / RSV3 never do.  The header as the framing rules see it: *)
Definition rfc_effective_rsv (negotiated : bool) (h : fhdr) : N :=
  if negotiated && ((f_op h =? 1) || (f_op h =? 2)) && (4 <=? f_rsv h) then f_rsv h - 4 else f_rsv h.

Definition rfc_violation_neg (negotiated server is_open : bool) (h : fhdr) : bool :=
  rfc_violation server is_open
    (mkHdr (f_fin h) (rfc_effective_rsv negotiated h) (f_op h) (f_masked h) (f_ext h) (f_len h) (f_key h)).

(* 5.5.1: Close body = optional 2-byte status + UTF-8 reason *)
Definition rfc_close (p : bytes) : outcome :=
  match p with
  | c1 :: c2 :: reason =>
    let code := c1 * 256 + c2 in
    if rfc_close_code_ok code && utf8_spec reason then OClosed (Some code) reason else OViolation
  | _ => OClosed None []          (* no status (a 1-byte body is treated alike, see C14 notes) *)
  end.

(* open = Some (type, fragments so far (newest first), total length): a fragmented message is in
   progress (5.4) *)
Fixpoint rfc_recv (fuel : nat) (server : bool) (cap : N) (open : option (N * list bytes * N))
         (bs : bytes) (evs : list event) : list event * outcome :=
  match fuel with
  | O => (rev' evs, OCut false)
  | S fuel' =>
    match rfc_header bs with
    | HEnd => (rev' evs, OCut false)
    | HCut => (rev' evs, OCut true)
    | HBadLen => (rev' evs, OViolation)                             (* 5.2: MSB of a 64-bit length MUST be 0 *)
    | HOk h rest =>
      if rfc_violation server (match open with Some _ => true | None => false end) h
      then (rev' evs, OViolation)
      else if (8 <=? f_op h) then
        (* control frames, 5.5 *)
        match rfc_payload h rest with
        | None => (rev' evs, OCut false)
        | Some (p, rest') =>
          if f_op h =? 9 then rfc_recv fuel' server cap open rest' (EvPong p :: evs)   (* 5.5.2 / 5.5.3 *)
          else if f_op h =? 10 then rfc_recv fuel' server cap open rest' evs
          else (rev' evs, rfc_close p)
        end
      else
        (* data frames, 5.4 / 5.6 *)
        let '(t, fr, n) := match open with Some o => o | None => (f_op h, [], 0) end in
        if cap <? n + f_len h then (rev' evs, OTooBig)
        else match rfc_payload h rest with
             | None => (rev' evs, OCut false)
             | Some (p, rest') =>
               if f_fin h then rfc_recv fuel' server cap None rest' (EvMsg t (concat (rev' (p :: fr))) :: evs)
               else rfc_recv fuel' server cap (Some (t, p :: fr, n + f_len h)) rest' evs
             end
    end
  end.

Definition rfc_receive (server : bool) (limit : Z) (bs : bytes) : list event * outcome :=
  rfc_recv (S (length bs)) server (rfc_cap limit) None bs [].

(* the Close frame the receiver sends for an outcome: status code, None = empty body *)
Definition rfc_close_sent (o : outcome) : option (option N) :=
  match o with
  | OCut _ => None
  | OViolation => Some (Some 1002)
  | OTooBig => Some (Some 1009)
  | OClosed code _ => Some code
  end.

(* 5.2 the other way round: a frame on the wire.  form = 7 / 16 / 64: the length encoding used
   (the RFC demands the shortest; receivers of data frames are not asked to check) *)
Definition ser_header (fin : bool) (rsv op : N) (masked : bool) (form len : N) (key : bytes) : bytes :=
  [ (if fin then 128 else 0) + rsv * 16 + op;
    (if masked then 128 else 0) + (if form =? 7 then len else if form =? 16 then 126 else 127) ]
  ++ (if form =? 7 then [] else if form =? 16 then be2 len else be8 len)
  ++ (if masked then key else []).

Definition ser_frame (fin : bool) (rsv op : N) (masked : bool) (form : N) (key payload : bytes) : bytes :=
  ser_header fin rsv op masked form (lenN payload) key
  ++ (if masked then rfc_unmask key 0 payload else payload).

Close Scope N_scope.

(* ------------------------------------------------------------------ harness interface
   case:  (fixed server limit extra xWIRE)   or   (fixed server limit 0 xWIRE (a1 a2 ...)) with ai = 1: abandon the i-th message
   obs:   ((reads...) (writes...) (spec-events...) spec-outcome)    or (2) on a panic
     read:   (0 type xpayload) | (1 kind ...)       write: (opcode xpayload)
     event:  (0 op xpayload) message | (1 xpayload) pong
     outcome:(0 in_header) cut | (1) violation | (2) too big | (3 code|-1 xreason) closed                *)
Definition sx_err (e : rerr) : sx :=
  match e with
  | EUeof => SL [SZ 1; SZ 1]
  | EEof => SL [SZ 1; SZ 2]
  | EProto m => SL [SZ 1; SZ 3; SB m]
  | ELimit => SL [SZ 1; SZ 4]
  | EClose code text => SL [SZ 1; SZ 5; SZ code; SB text]
  | EInternal => SL [SZ 1; SZ 6]
  | EWrite => SL [SZ 1; SZ 7]
  end.

Definition sx_result (r : rresult) : sx :=
  match r with RMsg t p => SL [SZ 0; SZ t; SB p] | RErr e => sx_err e end.

Definition sx_event (e : event) : sx :=
  match e with EvMsg op p => SL [SZ 0; sN op; SB p] | EvPong p => SL [SZ 1; SB p] end.

Definition sx_outcome (o : outcome) : sx :=
  match o with
  | OCut h => SL [SZ 0; sbool h]
  | OViolation => SL [SZ 1]
  | OTooBig => SL [SZ 2]
  | OClosed None r => SL [SZ 3; SZ (-1); SB r]
  | OClosed (Some c) r => SL [SZ 3; sN c; SB r]
  end.

Definition run_c14 (c : sx) : sx :=
  match c with
  | SL [SZ fixed; SZ server; SZ limit; SZ extra; SB wire] =>
    if wf_bytesb wire then
      let '(evs, o) := rfc_receive (server =? 1) limit wire in
      match lib_session (fixed =? 1) (server =? 1) limit (Z.to_nat extra) wire with
      | Ok (rs, ws) =>
        SL [SL (map sx_result rs); SL (map (fun w => SL [SZ (fst w); SB (snd w)]) ws);
            SL (map sx_event evs); sx_outcome o]
      | Err _ => SL [SZ 1]
      | Panic _ => s_panic
      end
    else bad_case
  | SL [SZ fixed; SZ server; SZ limit; SZ _; SB wire; SL pat] =>
    (* a session in which some messages are abandoned: (3 type) = reader taken, not read *)
    if wf_bytesb wire then
      let '(evs, o) := rfc_receive (server =? 1) limit wire in
      let patb := map (fun x => match x with SZ 1 => true | _ => false end) pat in
      match lib_session_pat (fixed =? 1) (server =? 1) limit patb wire with
      | Ok (rs, ws) =>
        SL [SL (map (fun ar => match ar with
                               | (true, RMsg t _) => SL [SZ 3; SZ t]
                               | (_, r) => sx_result r
                               end) rs);
            SL (map (fun w => SL [SZ (fst w); SB (snd w)]) ws);
            SL (map sx_event evs); sx_outcome o]
      | Err _ => SL [SZ 1]
      | Panic _ => s_panic
      end
    else bad_case
  | SL [SZ fixed; SZ server; SZ limit; SZ _; SB wire; SL []; SL apps] =>
    (* application writes between the reads: (k kind type xdata), kind 0 WriteControl / 1 WriteMessage,
       before the k-th ReadMessage; fifth field of the observation: the result of each write
       (0 nil, 1 ErrCloseSent, 2 other) *)
    if wf_bytesb wire then
      let '(evs, o) := rfc_receive (server =? 1) limit wire in
      let ops := flat_map (fun a => match a with
                                    | SL [SZ k; SZ 0; SZ t; SB d] => [(Z.to_nat k, AControl t d)]
                                    | SL [SZ k; SZ 1; SZ t; SB d] => [(Z.to_nat k, AMessage t d)]
                                    | _ => []
                                    end) apps in
      match lib_session_app (fixed =? 1) (server =? 1) limit ops wire with
      | Ok (rs, ws, codes) =>
        SL [SL (map sx_result rs); SL (map (fun w => SL [SZ (fst w); SB (snd w)]) ws);
            SL (map sx_event evs); sx_outcome o; SL (map sN codes)]
      | Err _ => SL [SZ 1]
      | Panic _ => s_panic
      end
    else bad_case
  | SL [SZ fixed; SZ server; SZ limit; SZ _; SB wire; SL []; SL []; SL [SZ _; SZ enable; SZ offer]] =>
    (* connection made by the real Upgrade / Dial handshake; the extension is negotiated iff enabled
       and offered / accepted.  The receiver's verdict is rfc_receive's: these sessions carry no frame
       with RSV1 alone on a first data frame, every other reserved-bit pattern is a violation whether
       negotiated or not (rfc_violation_neg) *)
    if wf_bytesb wire then
      let '(evs, o) := rfc_receive (server =? 1) limit wire in
      match lib_session_gen ((enable =? 1) && (offer =? 1)) (fixed =? 1) (server =? 1) limit wire with
      | Ok (rs, ws) =>
        SL [SL (map sx_result rs); SL (map (fun w => SL [SZ (fst w); SB (snd w)]) ws);
            SL (map sx_event evs); sx_outcome o]
      | Err _ => SL [SZ 1]
      | Panic _ => s_panic
      end
    else bad_case
  | SL [SZ fixed; SZ server; SZ limit; SZ _; SB wire; SL []; SL []; SL _] =>
    (* connection made by the real Upgrade / Dial handshake (last field: its configuration), frames
       injected at the transport: the reader is the same reader *)
    if wf_bytesb wire then
      let '(evs, o) := rfc_receive (server =? 1) limit wire in
      match lib_session (fixed =? 1) (server =? 1) limit 0 wire with
      | Ok (rs, ws) =>
        SL [SL (map sx_result rs); SL (map (fun w => SL [SZ (fst w); SB (snd w)]) ws);
            SL (map sx_event evs); sx_outcome o]
      | Err _ => SL [SZ 1]
      | Panic _ => s_panic
      end
    else bad_case
  | SL [SZ fixed; SZ server; SZ limit; SZ _; SB wire; SL []; SL []; SL []; SL sizes] =>
    (* the consumer reads every message with Read calls of the given buffer sizes (cycled):
       (4 type (xchunk ...)) one chunk per call *)
    if wf_bytesb wire then
      let '(evs, o) := rfc_receive (server =? 1) limit wire in
      let szs := map (fun x => match x with SZ z => Z.to_N z | _ => 1%N end) sizes in
      match lib_session_partial (fixed =? 1) (server =? 1) limit szs wire with
      | Ok (rs, ws) =>
        SL [SL (map (fun r => match r with
                              | PMsg t chunks => SL [SZ 4; SZ t; SL (map SB chunks)]
                              | PErr e => sx_err e
                              end) rs);
            SL (map (fun w => SL [SZ (fst w); SB (snd w)]) ws);
            SL (map sx_event evs); sx_outcome o]
      | Err _ => SL [SZ 1]
      | Panic _ => s_panic
      end
    else bad_case
  | _ => bad_case
  end.
