(* Model of /repo/errors/errors.go: New, Errorf, WithStack, Wrap, Wrapf, WithMessage, Cause and
   Error().  An `error` interface value is [option err] (nil = None); see Lib/Err.v for the
   representation.  Definitions only. *)
From Verif Require Import Lib.Base Lib.Sx Lib.Err.

Definition oerr := option err.

(* ---- fmt.Sprintf for the formats the harness uses: a format is a list of pieces, a literal
   (no '%'), a %s with its string argument or a %d with its integer argument ---- *)
Inductive piece : Type :=
| PLit (s : bytes)
| PStr (s : bytes)
| PDec (z : Z).

Fixpoint dec_digits (fuel : nat) (n : N) (acc : bytes) : bytes :=
  match fuel with
  | O => acc
  | S f => let acc' := (48 + n mod 10)%N :: acc in
           if (n / 10 =? 0)%N then acc' else dec_digits f (n / 10)%N acc'
  end.
Definition dec_N (n : N) : bytes := dec_digits (S (N.size_nat n)) n [].
Definition dec_Z (z : Z) : bytes :=
  match z with
  | Zneg p => 45%N :: dec_N (Npos p)
  | _ => dec_N (Z.to_N z)
  end.

Definition piece_text (p : piece) : bytes :=
  match p with PLit s => s | PStr s => s | PDec z => dec_Z z end.
Definition sprintf (ps : list piece) : bytes := concat (map piece_text ps).

(* ---- the constructors ---- *)
(* errors.New(message): &fundamental{msg, callers()} -- no Cause method, so a root; [id] is the
   identity of the freshly allocated value *)
Definition e_New (id : N) (message : bytes) : oerr := Some (Root id message).
Definition e_Errorf (id : N) (fmt : list piece) : oerr := Some (Root id (sprintf fmt)).

Definition e_WithStack (e : oerr) : oerr :=
  match e with
  | None => None
  | Some x => Some (WithStk x)
  end.

Definition e_Wrap (e : oerr) (message : bytes) : oerr :=
  match e with
  | None => None
  | Some x => Some (WithStk (WithMsg message x))
  end.

Definition e_Wrapf (e : oerr) (fmt : list piece) : oerr :=
  match e with
  | None => None
  | Some x => Some (WithStk (WithMsg (sprintf fmt) x))
  end.

Definition e_WithMessage (e : oerr) (message : bytes) : oerr :=
  match e with
  | None => None
  | Some x => Some (WithMsg message x)
  end.

(* errors.Cause *)
Definition e_Cause (e : oerr) : oerr :=
  match e with
  | None => None
  | Some x => Some (cause x)
  end.

(* err.Error() of a non-nil error *)
Definition e_Error (x : err) : bytes := message x.

(* ---- a nesting: the wrapping calls applied to a start value, innermost first ---- *)
Inductive wrap_op : Type :=
| OpWithStack
| OpWrap (m : bytes)
| OpWrapf (fmt : list piece)
| OpWithMessage (m : bytes).

Definition apply_op (e : oerr) (o : wrap_op) : oerr :=
  match o with
  | OpWithStack => e_WithStack e
  | OpWrap m => e_Wrap e m
  | OpWrapf f => e_Wrapf e f
  | OpWithMessage m => e_WithMessage e m
  end.

(* ops are applied left to right: the last op is the outermost layer *)
Definition nest (start : oerr) (ops : list wrap_op) : oerr := fold_left apply_op ops start.

(* the message an op contributes (WithStack: none) *)
Definition op_msg (o : wrap_op) : list bytes :=
  match o with
  | OpWithStack => []
  | OpWrap m => [m]
  | OpWrapf f => [sprintf f]
  | OpWithMessage m => [m]
  end.

(* ---- harness cases:  (1 <start> (<op> ...))
   start:  (0)                nil
           (1 id xMSG)        a foreign root error number id whose Error() is MSG
           (4 id xMSG kind <start>)  a foreign root with an Unwrap method (kind: 0 nil, 1 itself,
                              2 another error = <start>, 3 Unwrap() []error) and no Cause method
           (5 id xMSG <start>)       a foreign causer: Cause() returns <start> (not nil)
           (2 id xMSG)        errors.New(MSG)        (id: identity the harness gives the result)
           (3 id (piece...))  errors.Errorf(format, args...)
   op:     (0) WithStack  (1 xMSG) Wrap  (2 (piece...)) Wrapf  (3 xMSG) WithMessage
   piece:  (0 xLIT) (1 xSTR) (2 int)
   observation:  (0 0) nil result;  (0 1 <cause id> x<Error() text>)  *)
Definition piece_of_sx (s : sx) : option piece :=
  match s with
  | SL [SZ 0%Z; SB b] => Some (PLit b)
  | SL [SZ 1%Z; SB b] => Some (PStr b)
  | SL [SZ 2%Z; SZ z] => Some (PDec z)
  | _ => None
  end.

Fixpoint pieces_of_sx (l : list sx) : option (list piece) :=
  match l with
  | [] => Some []
  | s :: t => match piece_of_sx s, pieces_of_sx t with
              | Some p, Some ps => Some (p :: ps)
              | _, _ => None
              end
  end.

(* start values; [fuel] bounds the nesting of foreign causers / wrappers inside one another *)
Fixpoint start_of_sx (fuel : nat) (s : sx) : option oerr :=
  match fuel with
  | O => None
  | S f =>
      match s with
      | SL [SZ 0%Z] => Some None
      | SL [SZ 1%Z; SZ id; SB m] => Some (Some (Root (Z.to_N id) m))
      | SL [SZ 2%Z; SZ id; SB m] => Some (e_New (Z.to_N id) m)
      | SL [SZ 3%Z; SZ id; SL ps] =>
          match pieces_of_sx ps with Some fm => Some (e_Errorf (Z.to_N id) fm) | None => None end
      | SL [SZ 4%Z; SZ id; SB m; SZ kind; inner] =>
          match start_of_sx f inner with
          | Some i => Some (Some (RootU (Z.to_N id) m (Z.to_N kind) i))
          | None => None
          end
      | SL [SZ 5%Z; SZ id; SB m; inner] =>
          match start_of_sx f inner with
          | Some (Some i) => Some (Some (RootC (Z.to_N id) m i))
          | _ => None
          end
      | _ => None
      end
  end.

Definition op_of_sx (s : sx) : option wrap_op :=
  match s with
  | SL [SZ 0%Z] => Some OpWithStack
  | SL [SZ 1%Z; SB m] => Some (OpWrap m)
  | SL [SZ 2%Z; SL ps] => match pieces_of_sx ps with Some f => Some (OpWrapf f) | None => None end
  | SL [SZ 3%Z; SB m] => Some (OpWithMessage m)
  | _ => None
  end.

Fixpoint ops_of_sx (l : list sx) : option (list wrap_op) :=
  match l with
  | [] => Some []
  | s :: t => match op_of_sx s, ops_of_sx t with
              | Some o, Some os => Some (o :: os)
              | _, _ => None
              end
  end.

Definition obs_oerr (e : oerr) : sx :=
  match e with
  | None => SL [SZ 0%Z; SZ 0%Z]
  | Some x => SL [SZ 0%Z; SZ 1%Z; sN (root_id x); SB (e_Error x)]
  end.

(* args = the case without its leading tag *)
Definition run_errors (args : list sx) : sx :=
  match args with
  | [st; SL ops] =>
      match start_of_sx 16 st, ops_of_sx ops with
      | Some s, Some os => obs_oerr (nest s os)
      | _, _ => bad_case
      end
  | _ => bad_case
  end.
