(* Model of logger/go17.go and logger/logger.go (C18).  Definitions only.

   Part A  id allocation as an interleaving system.  A thread is a list of micro-instructions
           over the shared counter g and one thread-local register; the instruction list of ONE
           allocation is the skeleton the translator extracts from WithContext
           (Gen_logger.logger_WithContext_skel).  Returned ids go to one global log.
   Part B  line formatting: what one logging call hands to log.Logger and what log.Logger
           writes (label, timestamp, one space, text, final newline), per context kind.
   Part C  harness interface run_c18. *)
From Coq Require Import String Ascii Sorting.Mergesort Orders.
From Verif Require Import Gen.Gen_logger.
From Verif Require Import Lib.Base Lib.Sx Lib.Sched.
Import List ListNotations.
Open Scope Z_scope.

(* ------------------------------------------------------------------ Part A: allocation *)
Inductive ainstr :=
| ILoad        (* reg := g                    plain read of the counter *)
| IStoreInc    (* g := reg + 1                plain write *)
| IAtomicAdd   (* g := g + 1; reg := g        sync/atomic AddIntNN(&g, 1), result kept *)
| IRetReg      (* the context gets id reg *)
| IRetLoad     (* the context gets id g       (a read of the counter at return time) *)
| ILock | IUnlock
| IBad.        (* an event name the model does not know *)

Definition decode_ev (e : string * string) : ainstr :=
  let k := fst e in
  if String.eqb k "load" then ILoad
  else if String.eqb k "store_inc" then IStoreInc
  else if String.eqb k "atomic_add" then IAtomicAdd
  else if String.eqb k "ret_reg" then IRetReg
  else if String.eqb k "ret_load" then IRetLoad
  else if String.eqb k "lock" then ILock
  else if String.eqb k "unlock" then IUnlock
  else IBad.
Definition decode_skel (l : list (string * string)) : list ainstr := map decode_ev l.

(* the code in /repo now, and the code of the pinned snapshot (gCid += 1; return ..gCid) *)
(* evaluated when this file is compiled (i.e. after every regeneration), so that the extracted
   model does not contain Coq strings *)
Definition repo_skel : list ainstr := Eval vm_compute in decode_skel logger_WithContext_skel.
Definition old_skel : list ainstr := [ILoad; IStoreInc; IRetLoad].

Record athread := { acode : list ainstr; areg : Z }.
Record astate := {
  ag : Z;                      (* the package-level counter *)
  alk : option nat;            (* holder of the package-level mutex, if the skeleton uses one *)
  aths : list athread;
  alog : list (nat * Z) }.     (* (thread, id) of every completed allocation, newest first *)

Definition astep (s : astate) (i : nat) : astate :=
  match nth_error (aths s) i with
  | None => s
  | Some t =>
    match acode t with
    | [] => s
    | ins :: rest =>
      let next r := upd i {| acode := rest; areg := r |} (aths s) in
      match ins with
      | ILoad => {| ag := ag s; alk := alk s; aths := next (ag s); alog := alog s |}
      | IStoreInc => {| ag := areg t + 1; alk := alk s; aths := next (areg t); alog := alog s |}
      | IAtomicAdd => {| ag := ag s + 1; alk := alk s; aths := next (ag s + 1); alog := alog s |}
      | IRetReg => {| ag := ag s; alk := alk s; aths := next (areg t); alog := (i, areg t) :: alog s |}
      | IRetLoad => {| ag := ag s; alk := alk s; aths := next (areg t); alog := (i, ag s) :: alog s |}
      | ILock => match alk s with
                 | None => {| ag := ag s; alk := Some i; aths := next (areg t); alog := alog s |}
                 | Some _ => s            (* blocked *)
                 end
      | IUnlock => {| ag := ag s; alk := None; aths := next (areg t); alog := alog s |}
      | IBad => {| ag := ag s; alk := alk s; aths := next (areg t); alog := alog s |}
      end
    end
  end.

Definition arun : astate -> list nat -> astate := srun astep.

(* thread k performs [nth k counts] allocations, one after the other *)
Definition athread_of (sk : list ainstr) (n : nat) : athread :=
  {| acode := concat (repeat sk n); areg := 0 |}.
Definition ainit (sk : list ainstr) (g0 : Z) (counts : list nat) : astate :=
  {| ag := g0; alk := None; aths := map (athread_of sk) counts; alog := [] |}.
Definition ids (s : astate) : list Z := map snd (alog s).

(* the decidable discipline: one atomic read-modify-write whose RESULT is the id *)
Definition alloc_safeb (sk : list ainstr) : bool :=
  match sk with [IAtomicAdd; IRetReg] => true | _ => false end.

(* ... or a plain load / store / read-back inside ONE region of the package-level mutex *)
Definition lock_safeb (sk : list ainstr) : bool :=
  match sk with
  | [ILock; ILoad; IStoreInc; IRetLoad; IUnlock] => true
  | [ILock; ILoad; IStoreInc; ILoad; IRetReg; IUnlock] => true
  | _ => false
  end.
Definition alloc_okb (sk : list ainstr) : bool := alloc_safeb sk || lock_safeb sk.

(* bounded witness search: two threads, one allocation each, every interleaving *)
Fixpoint nodupZb (l : list Z) : bool :=
  match l with [] => true | x :: r => negb (existsb (Z.eqb x) r) && nodupZb r end.
Definition dup_after (sk : list ainstr) (g0 : Z) (sched : list nat) : bool :=
  negb (nodupZb (ids (arun (ainit sk g0 [1%nat; 1%nat]) sched))).
Definition find_cex (sk : list ainstr) : option (list nat) :=
  find_first (dup_after sk 999) (interleavings (length sk) (length sk)).

(* AliasContext: the recognised shape, and what it computes.  A source is nil (None), or a
   context.Context with or without an id. *)
Fixpoint skel_eqb (a b : list (string * string)) : bool :=
  match a, b with
  | [], [] => true
  | (x1, x2) :: a', (y1, y2) :: b' => String.eqb x1 y1 && String.eqb x2 y2 && skel_eqb a' b'
  | _, _ => false
  end.
Definition alias_skel_ok : bool := Eval vm_compute in
  skel_eqb logger_AliasContext_skel
    [("source_cid", "ret_source_cid"); ("no_source_cid", "call_WithContext")]%string.

Definition alias_source_id (source : option (option Z)) : option Z :=
  match source with Some (Some cid) => Some cid | _ => None end.

(* one allocation in a single thread, through the interleaving semantics; returns the new
   counter value and the id *)
Definition alloc1 (sk : list ainstr) (g : Z) : Z * option Z :=
  let s := arun {| ag := g; alk := None; aths := [{| acode := sk; areg := 0 |}]; alog := [] |}
                (repeat 0%nat (length sk)) in
  (ag s, match alog s with (_, id) :: _ => Some id | [] => None end).

(* AliasContext(parent, source) *)
Definition alias_context (sk : list ainstr) (g : Z) (source : option (option Z)) : Z * option Z :=
  match alias_source_id source with
  | Some cid => (g, Some cid)
  | None => alloc1 sk g
  end.

(* contexts as chains: each level of a context chain carries an id or not; Value(cidKey) finds the
   nearest one.  WithContext(parent) puts a level with a NEW id on top of the parent chain. *)
Definition cchain := list (option Z).
Fixpoint chain_id (c : cchain) : option Z :=
  match c with [] => None | Some id :: _ => Some id | None :: r => chain_id r end.
Definition with_context_chain (sk : list ainstr) (g : Z) (parent : cchain) : Z * cchain :=
  let (g', id) := alloc1 sk g in (g', id :: parent).
Definition derive_chain (parent : cchain) : cchain := None :: parent.     (* WithCancel / WithValue(other key) *)
Definition alias_chain (sk : list ainstr) (g : Z) (parent : cchain) (source : option cchain) : Z * cchain :=
  match source with
  | Some sc => match chain_id sc with
               | Some cid => (g, Some cid :: parent)
               | None => with_context_chain sk g parent
               end
  | None => with_context_chain sk g parent
  end.

(* ------------------------------------------------------------------ Part B: lines *)
Definition bstr (s : string) : bytes := map N_of_ascii (list_ascii_of_string s).

Fixpoint digits (fuel : nat) (n : N) (acc : bytes) : bytes :=
  match fuel with
  | O => acc
  | S f => if (n <? 10)%N then (48 + n)%N :: acc
           else digits f (n / 10)%N ((48 + n mod 10)%N :: acc)
  end.
(* fmt %v of an int *)
Definition dec (z : Z) : bytes :=
  match z with
  | Z0 => [48%N]
  | Zpos p => digits (S (N.size_nat (Npos p))) (Npos p) []
  | Zneg p => 45%N :: digits (S (N.size_nat (Npos p))) (Npos p) []
  end.

Definition sp : N := 32%N.
Definition nl : N := 10%N.
Definition br (b : bytes) : bytes := 91%N :: b ++ [93%N].     (* "[" b "]" *)

(* the context kinds a logging call can be given (logger.Context is interface{}) *)
Inductive lctx :=
| CNil                       (* nil *)
| CObj (cid : Z)             (* application object with Cid() int, not a context.Context *)
| CCtx (cid : option Z)      (* context.Context; Some id when made by WithContext/AliasContext *)
| COther.                    (* any other non-nil value *)

(* Println path: contextFormat / format prepend ONE operand (or none) to the user's operands *)
Definition pre_println (pid : Z) (c : lctx) : list bytes :=
  match c with
  | CCtx (Some cid) => [br (dec pid) ++ br (dec cid)]              (* "[pid][cid]"  *)
  | CCtx None => []
  | CNil => [br (dec pid) ++ [sp]]                                 (* "[pid] "      *)
  | CObj cid => [br (dec pid) ++ br (dec cid) ++ [sp]]             (* "[pid][cid] " *)
  | COther => []
  end.
(* Printf path: contextFormatf / formatf prepend text to the format *)
Definition pre_printf (pid : Z) (c : lctx) : bytes :=
  match c with
  | CCtx (Some cid) | CObj cid => br (dec pid) ++ br (dec cid) ++ [sp]
  | CNil => br (dec pid) ++ [sp]
  | CCtx None | COther => []
  end.

(* fmt.Sprintln on string operands: one space between operands, newline at the end *)
Fixpoint join_sp (l : list bytes) : bytes :=
  match l with
  | [] => []
  | [x] => x
  | x :: r => x ++ sp :: join_sp r
  end.
Definition sprintln (l : list bytes) : bytes := join_sp l ++ [nl].

Fixpoint ends_nl (s : bytes) : bool :=
  match s with [] => false | [x] => N.eqb x nl | _ :: r => ends_nl r end.

(* log.Logger.Output with flags Ldate|Ltime|Lmicroseconds and prefix [lab]:
   lab ++ "YYYY/MM/DD HH:MM:SS.uuuuuu" ++ " " ++ s, newline appended if s does not end in one.
   [ts] is the 26-byte timestamp text. *)
Definition output (lab ts s : bytes) : bytes :=
  lab ++ ts ++ sp :: s ++ (if ends_nl s then [] else [nl]).

(* level: 0 info, 1 trace, 2 warn, 3 error (labels regenerated from logger.go) *)
Definition label_info : bytes := Eval vm_compute in bstr logger_logInfoLabel_str.
Definition label_trace : bytes := Eval vm_compute in bstr logger_logTraceLabel_str.
Definition label_warn : bytes := Eval vm_compute in bstr logger_logWarnLabel_str.
Definition label_error : bytes := Eval vm_compute in bstr logger_logErrorLabel_str.
Definition label (lvl : Z) : bytes :=
  if lvl =? 0 then label_info
  else if lvl =? 1 then label_trace
  else if lvl =? 2 then label_warn
  else label_error.

(* the single Write a logging call performs on its level's writer *)
Definition println_line (lvl : Z) (ts : bytes) (pid : Z) (c : lctx) (args : list bytes) : bytes :=
  output (label lvl) ts (sprintln (pre_println pid c ++ args)).
(* [msg] is the user's expanded message Sprintf(format, a...) (no explicit argument indexes) *)
Definition printf_line (lvl : Z) (ts : bytes) (pid : Z) (c : lctx) (msg : bytes) : bytes :=
  output (label lvl) ts (pre_printf pid c ++ msg).

(* Logging as an interleaving system: each call is one Write on the shared writer (log.Logger
   serialises formatting+Write per logger; the writer serialises Writes of the three loggers). *)
Record lcall := { l_lvl : Z; l_fn : Z; l_ctx : lctx; l_args : list bytes }.
Definition call_line (ts : bytes) (pid : Z) (c : lcall) : bytes :=
  if l_fn c =? 0 then println_line (l_lvl c) ts pid (l_ctx c) (l_args c)
  else printf_line (l_lvl c) ts pid (l_ctx c) (concat (l_args c)).

Record lstate := { lths : list (list lcall); lwrites : list (nat * bytes) }.   (* newest first *)
Definition lstep (ts : bytes) (pid : Z) (s : lstate) (i : nat) : lstate :=
  match nth_error (lths s) i with
  | Some (c :: rest) => {| lths := upd i rest (lths s); lwrites := (i, call_line ts pid c) :: lwrites s |}
  | _ => s
  end.
Definition lrun ts pid : lstate -> list nat -> lstate := srun (lstep ts pid).

(* ------------------------------------------------------------------ Part C: harness interface *)
Module ZOrder <: TotalLeBool.
  Definition t := Z.
  Definition leb := Z.leb.
  Theorem leb_total : forall a1 a2, leb a1 a2 = true \/ leb a2 a1 = true.
  Proof. intros a b. unfold leb. destruct (Z.leb_spec a b); [now left|right]. apply Z.leb_le. lia. Qed.
End ZOrder.
Module ZSort := Sort ZOrder.

Fixpoint adj_dups (l : list Z) : Z :=
  match l with
  | x :: ((y :: _) as r) => (if x =? y then 1 else 0) + adj_dups r
  | _ => 0
  end.
Definition count_dups (l : list Z) : Z := adj_dups (ZSort.sort l).

(* timestamp placeholder: the harness zeroes the digits of the real timestamp *)
Definition ts0 : bytes := Eval vm_compute in bstr "0000/00/00 00:00:00.000000".

Fixpoint slot_get (k : Z) (m : list (Z * option Z)) : option (option Z) :=
  match m with [] => None | (k', v) :: r => if k =? k' then Some v else slot_get k r end.

Definition sx_bytes (l : list sx) : option (list bytes) :=
  fold_right (fun x acc => match x, acc with SB b, Some r => Some (b :: r) | _, _ => None end) (Some []) l.

Definition ctx_of (kind ref : Z) (slots : list (Z * option Z)) : lctx :=
  if kind =? 0 then CNil
  else if kind =? 1 then CObj ref
  else if kind =? 2 then match slot_get ref slots with Some v => CCtx v | None => CCtx None end
  else COther.

(* sequential program: (g, slots) threaded through the operations *)
Fixpoint seq_ops (pid g : Z) (slots : list (Z * option Z)) (ops : list sx) : list sx :=
  match ops with
  | [] => []
  | op :: rest =>
    match op with
    | SL [SZ 0; SZ slot] =>                                    (* slot := WithContext(bg) *)
        match alloc1 repo_skel g with
        | (g', Some id) => SL [SZ 0; SZ id] :: seq_ops pid g' ((slot, Some id) :: slots) rest
        | (g', None) => bad_case :: seq_ops pid g' slots rest
        end
    | SL [SZ 1; SZ slot; SZ src] =>                            (* slot := AliasContext(bg, slots[src]) *)
        if negb alias_skel_ok then bad_case :: seq_ops pid g slots rest else
        match alias_context repo_skel g (slot_get src slots) with
        | (g', Some id) => SL [SZ 1; SZ id] :: seq_ops pid g' ((slot, Some id) :: slots) rest
        | (g', None) => bad_case :: seq_ops pid g' slots rest
        end
    | SL [SZ 4; SZ slot; SZ _; SZ _] =>                        (* slot := WithContext(derived-from slots[parent]):
                                                                  a NEW id whatever the parent chain carries *)
        match alloc1 repo_skel g with
        | (g', Some id) => SL [SZ 4; SZ id] :: seq_ops pid g' ((slot, Some id) :: slots) rest
        | (g', None) => bad_case :: seq_ops pid g' slots rest
        end
    | SL [SZ 5; SZ slot; SZ _; SZ src] =>                      (* slot := AliasContext(slots[parent], slots[src]) *)
        if negb alias_skel_ok then bad_case :: seq_ops pid g slots rest else
        match alias_context repo_skel g (slot_get src slots) with
        | (g', Some id) => SL [SZ 5; SZ id] :: seq_ops pid g' ((slot, Some id) :: slots) rest
        | (g', None) => bad_case :: seq_ops pid g' slots rest
        end
    | SL [SZ 6; SZ slot; SZ parent] =>                         (* slot := context.WithCancel(slots[parent]): the
                                                                  parent's id shows through *)
        let v := match slot_get parent slots with Some v => v | None => None end in
        SL [SZ 6; SZ (match v with Some id => id | None => -1 end)] :: seq_ops pid g ((slot, v) :: slots) rest
    | SL [SZ 3; SZ slot] =>                                    (* slot := a context without id *)
        SL [SZ 3] :: seq_ops pid g ((slot, None) :: slots) rest
    | SL [SZ 2; SZ lvl; SZ fn; SZ kind; SZ ref; SL msgs] =>    (* one logging call *)
        match sx_bytes msgs with
        | None => bad_case :: seq_ops pid g slots rest
        | Some args =>
            let c := {| l_lvl := lvl; l_fn := fn; l_ctx := ctx_of kind ref slots; l_args := args |} in
            (* level 4 (any level outside 0..3): package-level Info as Switch leaves it writes
               to ioutil.Discard *)
            SL [SZ 2; SB (if (lvl <? 0) || (3 <? lvl) then [] else call_line ts0 pid c)]
              :: seq_ops pid g slots rest
        end
    | _ => bad_case :: seq_ops pid g slots rest
    end
  end.

Fixpoint sx_nats (l : list sx) : option (list nat) :=
  match l with
  | [] => Some []
  | SZ z :: r => match sx_nats r with Some t => Some (Z.to_nat z :: t) | None => None end
  | _ => None
  end.

(* whole allocations in the given thread order: each entry expands to the skeleton's steps *)
Definition serial_sched (sk : list ainstr) (tids : list nat) : list nat :=
  concat (map (fun t => repeat t (length sk)) tids).
Fixpoint count_occ_nat (t : nat) (l : list nat) : nat :=
  match l with [] => O | x :: r => if Nat.eqb x t then S (count_occ_nat t r) else count_occ_nat t r end.

(* round robin over single instructions *)
Definition rr_sched (n rounds : nat) : list nat := concat (repeat (seq 0 n) rounds).

(* ---- the writer-management API: Switch(w) and Close() as steps over "the current writer".
   Writers are numbered; [wcloser w] says whether writer w is an io.Closer.
   Switch(w): Info -> discard (documented), Trace/Warn/Error -> w, previousWriter := w, and
              previousCloser := w only if w is an io.Closer (otherwise it keeps its old value).
   Close():   every level -> discard; previousCloser.Close() if set, then previousCloser := nil. *)
Inductive wmop :=
| MSwitch (w : Z)
| MClose
| MLog (c : lcall).
Record wmst := {
  w_cur : option Z;        (* where Trace/Warn/Error write; None = ioutil.Discard *)
  w_closer : option Z }.   (* previousCloser *)
Definition wcloser (w : Z) : bool := (0 <=? w) && (w <? 2).
Definition lvl_live (lvl : Z) : bool := (1 <=? lvl) && (lvl <=? 3).   (* Info is discarded in every state after Switch/Close *)

(* new state, and what the step does to the outside: the Writes (writer, bytes) and the writer whose
   Close method was called *)
Definition wm_step (ts : bytes) (pid : Z) (st : wmst) (op : wmop) : wmst * list (Z * bytes) * option Z :=
  match op with
  | MSwitch w => ({| w_cur := Some w; w_closer := if wcloser w then Some w else w_closer st |}, [], None)
  | MClose => ({| w_cur := None; w_closer := None |}, [], w_closer st)
  | MLog c =>
      (st, (if lvl_live (l_lvl c) then match w_cur st with Some w => [(w, call_line ts pid c)] | None => [] end else []), None)
  end.
Fixpoint wm_state (ts : bytes) (pid : Z) (st : wmst) (ops : list wmop) : wmst :=
  match ops with [] => st | op :: r => wm_state ts pid (fst (fst (wm_step ts pid st op))) r end.
Fixpoint wm_writes (ts : bytes) (pid : Z) (st : wmst) (ops : list wmop) : list (Z * bytes) :=
  match ops with
  | [] => []
  | op :: r => snd (fst (wm_step ts pid st op)) ++ wm_writes ts pid (fst (fst (wm_step ts pid st op))) r
  end.
(* the package before any Switch: Trace goes to stdout (writer -1), nothing to close *)
Definition wm_init : wmst := {| w_cur := Some (-1); w_closer := None |}.

Definition ctx_direct (kind ref : Z) : lctx :=
  if kind =? 0 then CNil
  else if kind =? 1 then CObj ref
  else if kind =? 2 then CCtx (if ref <? 0 then None else Some ref)
  else COther.

Definition sx_wmop (o : sx) : option wmop :=
  match o with
  | SL [SZ 0; SZ w] => Some (MSwitch w)
  | SL [SZ 1] => Some MClose
  | SL [SZ 2; SZ lvl; SZ fn; SZ kind; SZ ref; SL msgs] =>
      match sx_bytes msgs with
      | Some args => Some (MLog {| l_lvl := lvl; l_fn := fn; l_ctx := ctx_direct kind ref; l_args := args |})
      | None => None
      end
  | _ => None
  end.

Fixpoint wm_obs (pid : Z) (st : wmst) (ops : list sx) : list sx :=
  match ops with
  | [] => []
  | o :: r =>
      match sx_wmop o with
      | None => bad_case :: wm_obs pid st r
      | Some op =>
          let '(st', ws, cl) := wm_step ts0 pid st op in
          (match op with
           | MSwitch _ => SL [SZ 0]
           | MClose => SL [SZ 1; SZ (match cl with Some w => w | None => -1 end)]
           | MLog _ => match ws with
                       | (w, line) :: _ => SL [SZ 2; SZ w; SB line]
                       | [] => SL [SZ 2; SZ (-1); SB []]
                       end
           end) :: wm_obs pid st' r
      end
  end.

Fixpoint sx_wmops (l : list sx) : list wmop :=
  match l with [] => [] | o :: r => match sx_wmop o with Some op => op :: sx_wmops r | None => sx_wmops r end end.

(* ---- one operand slice spread into several calls: (level, function, context) per call, the operands
   shared.  A formatting step reads the operands and hands them back as they were -- the library
   never writes into the caller's slice -- so the list is threaded through unchanged. *)
Definition format_step (ts : bytes) (pid : Z) (args : list bytes) (c : Z * Z * lctx) : bytes * list bytes :=
  let '(lvl, fn, cx) := c in
  (call_line ts pid {| l_lvl := lvl; l_fn := fn; l_ctx := cx; l_args := args |}, args).
Fixpoint log_history (ts : bytes) (pid : Z) (args : list bytes) (cs : list (Z * Z * lctx)) : list bytes * list bytes :=
  match cs with
  | [] => ([], args)
  | c :: r => let (line, args') := format_step ts pid args c in
              let (lines, args'') := log_history ts pid args' r in (line :: lines, args'')
  end.
Fixpoint sx_calls (l : list sx) : option (list (Z * Z * lctx)) :=
  match l with
  | [] => Some []
  | SL [SZ lvl; SZ fn; SZ kind; SZ ref] :: r =>
      match sx_calls r with Some t => Some ((lvl, fn, ctx_direct kind ref) :: t) | None => None end
  | _ => None
  end.

Definition run_c18 (c : sx) : sx :=
  match c with
  | SL [SZ 1; SZ pid; SZ g0; SL ops] => SL (seq_ops pid g0 [] ops)
  | SL [SZ 2; SZ g0; SZ n; SL tids] =>
      match sx_nats tids with
      | None => bad_case
      | Some ts =>
          let counts := map (fun t => count_occ_nat t ts) (seq 0 (Z.to_nat n)) in
          let s := arun (ainit repo_skel g0 counts) (serial_sched repo_skel ts) in
          SL (SZ 0 :: map (fun e => SL [snat (fst e); SZ (snd e)]) (rev (alog s)))
      end
  | SL [SZ 3; SZ n; SZ m] =>          (* n threads x m allocations, instruction-level round robin *)
      let n' := Z.to_nat n in let m' := Z.to_nat m in
      let s := arun (ainit repo_skel 999 (repeat m' n')) (rr_sched n' (m' * length repo_skel)) in
      SL [SZ 0; snat (length (alog s)); SZ (count_dups (ids s))]
  | SL [SZ 9; SZ pid; SL msgs; SL calls] =>
      (* the same operand slice (spare capacity behind it) spread into consecutive calls:
         (0 (line..) operands-unchanged) *)
      match sx_bytes msgs, sx_calls calls with
      | Some args, Some cs =>
          let (lines, args') := log_history ts0 pid args cs in
          SL [SZ 0; SL (map SB lines); sbool (if list_eq_dec (list_eq_dec N.eq_dec) args args' then true else false)]
      | _, _ => bad_case
      end
  | SL [SZ 10; SZ n; SZ m; SL _] =>
      (* n goroutines spread one shared operand slice into m calls each: (0 lines bad unchanged) *)
      SL [SZ 0; SZ (n * m); SZ 0; SZ 1]
  | SL [SZ 8; SZ n; SZ m] =>
      (* n goroutines: a parent with id, then m derived creations (4 of 5 are fresh ids, 1 aliases the
         parent): (0 fresh-ids duplicates wrong-aliases) *)
      SL [SZ 0; SZ (n * (1 + m - m / 5)); SZ 0; SZ 0]
  | SL [SZ 6; SZ pid; SL ops] => SL (wm_obs pid wm_init ops)
  | SL [SZ 7; SZ n; SZ m; SL mid] =>
      (* Switch(0); n goroutines x m lines; the writer-management ops [mid]; n x m lines again:
         (0 writer-of-batch-A count writer-of-batch-B count bad) *)
      let stA := wm_state ts0 0 wm_init [MSwitch 0] in
      let stB := wm_state ts0 0 stA (sx_wmops mid) in
      let tell st := match w_cur st with Some w => [SZ w; SZ (n * m)] | None => [SZ (-1); SZ 0] end in
      SL (SZ 0 :: tell stA ++ tell stB ++ [SZ 0])
  | SL [SZ 5; SZ n; SZ m] =>          (* n threads x m logging calls: n*m whole lines, none bad *)
      SL [SZ 0; SZ (n * m); SZ 0]
  | _ => bad_case
  end.
