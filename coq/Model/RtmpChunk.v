(* RTMP chunk stream (rtmp/rtmp.go): writer (type-0 / type-3 headers, basic header forms,
   Set Chunk Size bookkeeping), reader (basic header, message header with per-format
   inheritance, payload reassembly, arrival hook), simple handshake byte movers, a segmented
   transport, and -- independent of the writer -- a reference chunker written from the RTMP 1.0
   specification section 5.3 (used by C02).  Definitions only; proofs are in Proofs/RtmpChunk*.v
   and Proofs/RtmpSpec*.v. *)
From Verif Require Import Lib.Base Lib.Sx.
From Verif Require Import Gen.Gen_rtmp.
Open Scope N_scope.

(* ---------- constants regenerated from the source ---------- *)
Definition EXT : N := Z.to_N rtmp_extendedTimestamp.          (* 0xffffff *)
Definition DEFCHUNK : N := Z.to_N rtmp_defaultChunkSize.      (* 128 *)
Definition F0 : N := Z.to_N rtmp_formatType0.
Definition F1 : N := Z.to_N rtmp_formatType1.
Definition F2 : N := Z.to_N rtmp_formatType2.
Definition F3 : N := Z.to_N rtmp_formatType3.
Definition CID_PC : N := Z.to_N rtmp_chunkIDProtocolControl.
Definition MT_SCS : N := Z.to_N rtmp_MessageTypeSetChunkSize.
Definition MT_UC : N := Z.to_N rtmp_MessageTypeUserControl.
Definition MT_WAS : N := Z.to_N rtmp_MessageTypeWindowAcknowledgementSize.
Definition EV_FMS0 : N := Z.to_N rtmp_EventTypeFmsEvent0.
Definition EV_SETBUF : N := Z.to_N rtmp_EventTypeSetBufferLength.
Definition hdr_size (fmt : N) : N := Z.to_N (nth (N.to_nat fmt) rtmp_tbl_message_header_sizes 0%Z).
Definition T31 : N := 2147483648.      (* & 0x7fffffff *)

(* error classes (observable: root cause / message prefix) *)
Definition E_EOF : N := 1.       (* io.EOF *)
Definition E_UEOF : N := 2.      (* io.ErrUnexpectedEOF *)
Definition E_FRESH : N := 3.     (* "For fresh chunk, fmt ..." *)
Definition E_EXISTS : N := 4.    (* "For exists chunk, fmt is ..." *)
Definition E_SIZE : N := 5.      (* "Chunk message size ..." *)
Definition E_DECODE : N := 6.    (* "decode message ..." from the arrival hook *)
Definition E_CID : N := 7.       (* writer: "invalid chunk stream id" *)
Definition E_FUEL : N := 99.     (* model only: loop fuel exhausted *)

(* List.rev is quadratic; the executable model reverses with an accumulator *)
Definition frev {A} (l : list A) : list A := rev_append l [].

Record msg := mkmsg { m_cid : N; m_ts : N; m_type : N; m_sid : N; m_payload : bytes }.

(* ---------- transport: a list of segments (one per transport read) ---------- *)
Definition inp := list bytes.

(* take up to n bytes from one segment: (taken, rest of segment, still missing) *)
Fixpoint upto (b : bytes) (n : N) : bytes * bytes * N :=
  match b with
  | [] => ([], [], n)
  | x :: t => if n =? 0 then ([], b, 0)
              else let '(a, r, k) := upto t (N.pred n) in (x :: a, r, k)
  end.

(* io.ReadFull over bufio over the transport: exactly n bytes, io.EOF when none could be read,
   io.ErrUnexpectedEOF when some but fewer than n; n = 0 never touches the transport *)
Fixpoint stake (segs : inp) (n : N) : res (bytes * inp) :=
  match segs with
  | [] => if n =? 0 then Ok ([], []) else Err E_EOF
  | s :: rest =>
      let '(a, r, k) := upto s n in
      if k =? 0 then Ok (a, r :: rest)
      else match stake rest k with
           | Ok (a', segs') => Ok (a ++ a', segs')
           | Err e => match a with [] => Err e | _ => Err E_UEOF end
           | Panic p => Panic p
           end
  end.

Definition stake1 (i : inp) : res (N * inp) :=
  let* (b, i1) := stake i 1 in
  match b with [t] => Ok (t, i1) | _ => Panic 100 end.

(* io.CopyN(buf, r, n): io.EOF whenever fewer than n bytes arrive *)
Definition copy_n (i : inp) (n : N) : res (bytes * inp) :=
  match stake i n with Ok x => Ok x | Err _ => Err E_EOF | Panic p => Panic p end.

(* ---------- handshake (rtmp.go 40-112) ---------- *)
Definition hs_c0s0 : bytes := [3].
Definition hs_c1s1 (rnd : bytes) : bytes := [0; 0; 0; 0; 0; 0; 0; 0] ++ rnd.   (* make(1536); p[8:] random *)
Definition hs_c2s2 (peer : bytes) : bytes := peer.
Definition hs_read_c0s0 (i : inp) := copy_n i 1.
Definition hs_read_c1s1 (i : inp) := copy_n i 1536.
Definition hs_read_c2s2 (i : inp) := copy_n i 1536.

(* ---------- writer (rtmp.go generateBasicHeader / generateC0Header / generateC3Header /
   WriteMessage / onMessageWriten) ---------- *)
Definition basic_header (fmt cid : N) : res bytes :=
  if (2 <=? cid) && (cid <=? 63) then Ok [fmt * 64 + cid]
  else if (64 <=? cid) && (cid <=? 319) then Ok [fmt * 64; cid - 64]
  else if (320 <=? cid) && (cid <=? 65599) then
    Ok [fmt * 64 + 1; (cid - 64) mod 256; ((cid - 64) / 256) mod 256]
  else Err E_CID.

Definition ext_bytes (ts : N) : bytes := if ts <? EXT then [] else be4 ts.

Definition c0_header (m : msg) (plen : N) : res bytes :=
  let* bh := basic_header F0 (m_cid m) in
  Ok (bh ++ (if m_ts m <? EXT then be3 (m_ts m) else [255; 255; 255])
         ++ be3 plen ++ [u8 (m_type m)] ++ le4 (m_sid m) ++ ext_bytes (m_ts m)).

Definition c3_header (m : msg) : res bytes :=
  let* bh := basic_header F3 (m_cid m) in
  Ok (bh ++ ext_bytes (m_ts m)).

(* the loop `for len(p) > 0`: header, then min(len p, chunk) payload bytes; the fuel bounds the
   number of chunks (a zero chunk size would spin forever: out of fuel) *)
Fixpoint write_chunks (fuel : nat) (c : N) (h h3 : bytes) (p : bytes) : res bytes :=
  match p with
  | [] => Ok []
  | _ :: _ =>
      match fuel with
      | O => Err E_FUEL
      | S f =>
          let '(a, r, _) := upto p c in
          let* rest := write_chunks f c h3 h3 r in
          Ok (h ++ a ++ rest)
      end
  end.

(* SetChunkSize.UnmarshalBinary on the written payload; 0 and malformed bodies are ignored *)
Definition on_message_written (out_chunk : N) (m : msg) : N :=
  if m_type m =? MT_SCS then
    match m_payload m with
    | a :: b :: c :: d :: _ => let n := ube4 a b c d in if 0 <? n then n else out_chunk
    | _ => out_chunk
    end
  else out_chunk.

(* WriteMessage: wire bytes and the writer's next output chunk size *)
Definition write_message (out_chunk : N) (m : msg) : res (bytes * N) :=
  let plen := u32 (lenN (m_payload m)) in
  let* c0h := c0_header m plen in
  let* c3h := c3_header m in
  let* w := write_chunks (S (length (m_payload m))) out_chunk c0h c3h (m_payload m) in
  Ok (w, on_message_written out_chunk m).

(* ---------- reader ---------- *)
Record hdr := mkhdr { h_delta : N; h_len : N; h_type : N; h_sid : N; h_ts : N }.
Record cstate := mkcs { c_hdr : hdr; c_ext : bool; c_count : N; c_part : option (list bytes * N) }.
Definition cs0 : cstate := mkcs (mkhdr 0 0 0 0 0) false 0 None.
Record rstate := mkrs { in_chunk : N; chunks : list (N * cstate) }.
Definition rs0 : rstate := mkrs DEFCHUNK [].

Fixpoint get_chunk (l : list (N * cstate)) (cid : N) : cstate :=
  match l with
  | [] => cs0
  | (k, v) :: t => if k =? cid then v else get_chunk t cid
  end.
Fixpoint set_chunk (l : list (N * cstate)) (cid : N) (v : cstate) : list (N * cstate) :=
  match l with
  | [] => [(cid, v)]
  | (k, w) :: t => if k =? cid then (k, v) :: t else (k, w) :: set_chunk t cid v
  end.

(* readBasicHeader (with the 3-byte form recognised by the first byte's 6-bit field) *)
Definition read_basic_header (i : inp) : res (N * N * inp) :=
  let* (t, i1) := stake1 i in
  let cid := t mod 64 in
  let fmt := (t / 64) mod 4 in
  if 1 <? cid then Ok (fmt, cid, i1)
  else
    let first := cid in
    let* (t2, i2) := stake1 i1 in
    let cid2 := u32 (64 + t2) in
    if first =? 1 then
      let* (t3, i3) := stake1 i2 in
      Ok (fmt, u32 (cid2 + u32 (t3 * 256)), i3)
    else Ok (fmt, cid2, i2).

Definition set_ts (h : hdr) (ts : N) : hdr := mkhdr (h_delta h) (h_len h) (h_type h) (h_sid h) ts.

(* readMessageHeader: returns the updated chunk stream (cache, ext flag, count) *)
Definition read_message_header (cid : N) (st : cstate) (fmt : N) (i : inp) : res (cstate * inp) :=
  let first := match c_part st with None => true | Some _ => false end in
  if (c_count st =? 0) && negb (fmt =? F0) && negb ((cid =? CID_PC) && (fmt =? F1)) then Err E_FRESH
  else if negb first && (fmt =? F0) then Err E_EXISTS
  else
    let* (p, i1) := stake i (hdr_size fmt) in
    let h := c_hdr st in
    let* (h1, e1) :=
      if fmt <=? F2 then
        match p with
        | p0 :: p1 :: p2 :: q =>
            let delta := ube3 p0 p1 p2 in
            let e := EXT <=? delta in
            let ts := if e then h_ts h else if fmt =? F0 then delta else u64 (h_ts h + delta) in
            if fmt <=? F1 then
              match q with
              | l0 :: l1 :: l2 :: ty :: q2 =>
                  let plen := ube3 l0 l1 l2 in
                  if negb first && negb (h_len h =? plen) then Err E_SIZE
                  else if fmt =? F0 then
                    match q2 with
                    | s0 :: s1 :: s2 :: s3 :: _ => Ok (mkhdr delta plen ty (ule4 s0 s1 s2 s3) ts, e)
                    | _ => Panic 2
                    end
                  else Ok (mkhdr delta plen ty (h_sid h) ts, e)
              | _ => Panic 2
              end
            else Ok (mkhdr delta (h_len h) (h_type h) (h_sid h) ts, e)
        | _ => Panic 2
        end
      else
        Ok (if first && negb (c_ext st) then set_ts h (u64 (h_ts h + h_delta h)) else h, c_ext st) in
    let* (ts2, i2) :=
      if e1 then
        let* (t, i2) := stake i1 4 in
        match t with
        | [a; b; c; d] => Ok ((ube4 a b c d) mod T31, i2)
        | _ => Panic 3
        end
      else Ok (h_ts h1, i1) in
    Ok (mkcs (set_ts h1 (ts2 mod T31)) e1 (c_count st + 1) (c_part st), i2).

Definition set_part (st : cstate) (p : option (list bytes * N)) : cstate :=
  mkcs (c_hdr st) (c_ext st) (c_count st) p.

(* readMessagePayload: at most in_chunk bytes of the message; a negative make() size panics *)
Definition read_payload (inchunk cid : N) (st : cstate) (i : inp) : res (option msg * cstate * inp) :=
  let h := c_hdr st in
  let '(got, gl) := match c_part st with None => ([], 0) | Some g => g end in
  let mk p := mkmsg cid (h_ts h) (h_type h) (h_sid h) p in
  if h_len h =? 0 then Ok (Some (mk (concat (frev got))), set_part st None, i)
  else if h_len h <? gl then Panic 4
  else
    let n := N.min (h_len h - gl) inchunk in
    let* (d, i1) := stake i n in
    if gl + n =? h_len h then Ok (Some (mk (concat (frev (d :: got)))), set_part st None, i1)
    else Ok (None, set_part st (Some (d :: got, gl + n)), i1).

(* onMessageArrivated: types 1, 4, 5 are decoded (DecodeMessage + UnmarshalBinary);
   Set Chunk Size changes the input chunk size *)
Definition has_len (p : bytes) (n : N) : bool :=
  match stake [p] n with Ok _ => true | _ => false end.

Definition on_message_arrived (inchunk : N) (m : msg) : res N :=
  let p := m_payload m in
  if m_type m =? MT_SCS then
    match p with a :: b :: c :: d :: _ => Ok (ube4 a b c d) | _ => Err E_DECODE end
  else if m_type m =? MT_WAS then
    match p with _ :: _ :: _ :: _ :: _ => Ok inchunk | _ => Err E_DECODE end
  else if m_type m =? MT_UC then
    match p with
    | e0 :: e1 :: _ :: _ =>
        let et := ube2 e0 e1 in
        let size := 2 + (if et =? EV_FMS0 then 1 else 4) + (if et =? EV_SETBUF then 4 else 0) in
        if has_len p size then Ok inchunk else Err E_DECODE
    | _ => Err E_DECODE
    end
  else Ok inchunk.

(* one iteration of the ReadMessage loop *)
Definition read_chunk (s : rstate) (i : inp) : res (option msg * rstate * inp) :=
  let* (fmt, cid, i1) := read_basic_header i in
  let st := get_chunk (chunks s) cid in
  let* (st1, i2) := read_message_header cid st fmt i1 in
  let* (om, st2, i3) := read_payload (in_chunk s) cid st1 i2 in
  let ch := set_chunk (chunks s) cid st2 in
  match om with
  | None => Ok (None, mkrs (in_chunk s) ch, i3)
  | Some m => let* c := on_message_arrived (in_chunk s) m in Ok (Some m, mkrs c ch, i3)
  end.

Fixpoint read_message (fuel : nat) (s : rstate) (i : inp) : res (msg * rstate * inp) :=
  match fuel with
  | O => Err E_FUEL
  | S f =>
      let* (om, s1, i1) := read_chunk s i in
      match om with
      | Some m => Ok (m, s1, i1)
      | None => read_message f s1 i1
      end
  end.

(* exactly n messages *)
Fixpoint read_n (fuel : nat) (n : nat) (s : rstate) (i : inp) : res (list msg * rstate * inp) :=
  match n with
  | O => Ok ([], s, i)
  | S n' =>
      let* (m, s1, i1) := read_message fuel s i in
      let* (ms, s2, i2) := read_n fuel n' s1 i1 in
      Ok (m :: ms, s2, i2)
  end.

(* the session loop of a peer: messages until the first error (reversed accumulator) *)
Fixpoint read_all (fuel : nat) (s : rstate) (i : inp) (acc : list msg) : list msg * N :=
  match fuel with
  | O => (frev acc, E_FUEL)
  | S f =>
      match read_message fuel s i with
      | Ok (m, s1, i1) => read_all f s1 i1 (m :: acc)
      | Err e => (frev acc, e)
      | Panic p => (frev acc, 1000 + p)
      end
  end.

(* the writer side of a session: messages that fail to be written leave no bytes *)
Fixpoint write_all (out_chunk : N) (ms : list msg) : list (res bytes) :=
  match ms with
  | [] => []
  | m :: t =>
      match write_message out_chunk m with
      | Ok (w, c) => Ok w :: write_all c t
      | Err e => Err e :: write_all out_chunk t
      | Panic p => Panic p :: write_all out_chunk t
      end
  end.
Definition wire_of (ws : list (res bytes)) : bytes :=
  concat (map (fun r => match r with Ok w => w | _ => [] end) ws).

(* ================= reference chunker, RTMP 1.0 section 5.3 (C02) =================
   Independent of the writer above and of coq/Gen: literal numbers from the specification. *)
Record sprev := mksp { sp_ts : N; sp_delta : N; sp_len : N; sp_type : N; sp_sid : N;
                       sp_ext : bool; sp_extv : N }.
Definition sp0 : sprev := mksp 0 0 0 0 0 false 0.
Record step := mkstep { st_cid : N; st_form : N; st_fmt : N; st_adj : N }.
Record sender := mksd { sd_size : N;
                        sd_prev : list (N * sprev);
                        sd_fly : list (N * (msg * bytes));
                        sd_pend : list msg }.

Fixpoint alookup {A} (l : list (N * A)) (k : N) : option A :=
  match l with [] => None | (k', v) :: t => if k' =? k then Some v else alookup t k end.
Fixpoint aset {A} (l : list (N * A)) (k : N) (v : A) : list (N * A) :=
  match l with
  | [] => [(k, v)]
  | (k', w) :: t => if k' =? k then (k', v) :: t else (k', w) :: aset t k v
  end.
Fixpoint adel {A} (l : list (N * A)) (k : N) : list (N * A) :=
  match l with
  | [] => []
  | (k', w) :: t => if k' =? k then t else (k', w) :: adel t k
  end.
Fixpoint pick (cid : N) (l : list msg) : option (msg * list msg) :=
  match l with
  | [] => None
  | m :: t => if m_cid m =? cid then Some (m, t)
              else match pick cid t with Some (x, t') => Some (x, m :: t') | None => None end
  end.

(* 5.3.1.1 chunk basic header *)
Definition spec_basic (fmt cid form : N) : bytes :=
  if form =? 1 then [fmt * 64 + cid mod 64]
  else if form =? 2 then [fmt * 64; (cid - 64) mod 256]
  else [fmt * 64 + 1; (cid - 64) mod 256; ((cid - 64) / 256) mod 256].
Definition form_legal (cid form : N) : bool :=
  if form =? 1 then (2 <=? cid) && (cid <=? 63)
  else if form =? 2 then (64 <=? cid) && (cid <=? 319)
  else if form =? 3 then (64 <=? cid) && (cid <=? 65599)
  else false.

Definition spec_field (v : N) : bytes := be3 (if v <? 16777215 then v else 16777215).
Definition spec_ext (v : N) : bytes := if v <? 16777215 then [] else be4 v.

(* 5.3.1.2 message header of a message-starting chunk: bytes, the new per-chunk-stream memory,
   and whether the specification allows this header type here *)
Definition spec_mhdr (fmt : N) (prev : option sprev) (m : msg) (adj : N) : bytes * sprev * bool :=
  let p := match prev with Some p => p | None => sp0 end in
  let have := match prev with Some _ => true | None => false end in
  let len := lenN (m_payload m) in
  let ts := m_ts m in
  let d := ts - sp_ts p in
  if fmt =? 0 then
    (spec_field ts ++ be3 (len + adj) ++ [m_type m] ++ le4 (m_sid m) ++ spec_ext ts,
     mksp ts ts len (m_type m) (m_sid m) (16777215 <=? ts) ts,
     adj =? 0)
  else if fmt =? 1 then
    (spec_field d ++ be3 (len + adj) ++ [m_type m] ++ spec_ext d,
     mksp ts d len (m_type m) (m_sid m) (16777215 <=? d) d,
     have && (adj =? 0) && (sp_ts p <=? ts) && (m_sid m =? sp_sid p))
  else if fmt =? 2 then
    (spec_field d ++ spec_ext d,
     mksp ts d len (m_type m) (m_sid m) (16777215 <=? d) d,
     have && (sp_ts p <=? ts) && (m_sid m =? sp_sid p) && (len =? sp_len p) && (m_type m =? sp_type p))
  else
    ((if sp_ext p then be4 (sp_extv p) else []),
     mksp ts (sp_delta p) len (m_type m) (m_sid m) (sp_ext p) (sp_extv p),
     have && (ts =? sp_ts p + sp_delta p) && (m_sid m =? sp_sid p) && (len =? sp_len p)
       && (m_type m =? sp_type p)).

(* the message as the receiver must report it: timestamp reduced to 31 bits *)
Definition red (m : msg) : msg := mkmsg (m_cid m) (m_ts m mod 2147483648) (m_type m) (m_sid m) (m_payload m).

(* protocol control bodies the receiver decodes on arrival; no Abort; sizes the protocol allows *)
Definition body_ok (m : msg) : bool :=
  let p := m_payload m in
  if m_type m =? 1 then
    match p with a :: b :: c :: d :: _ => let n := ube4 a b c d in (1 <=? n) && (n <? 2147483648) | _ => false end
  else if m_type m =? 2 then false
  else if m_type m =? 5 then match p with _ :: _ :: _ :: _ :: _ => true | _ => false end
  else if m_type m =? 4 then
    match p with
    | e0 :: e1 :: _ =>
        let et := ube2 e0 e1 in
        (2 + (if et =? 26 then 1 else 4) + (if et =? 3 then 4 else 0)) <=? lenN p
    | _ => false
    end
  else true.
Definition msg_ok (m : msg) : bool :=
  (1 <=? lenN (m_payload m)) && (lenN (m_payload m) <? 16777216) && (m_ts m <? 4294967296)
  && (m_type m <? 256) && (m_sid m <? 4294967296) && forallb wf_byteb (m_payload m) && body_ok m.

Definition after_done (size : N) (m : msg) : N :=
  if m_type m =? 1 then
    match m_payload m with a :: b :: c :: d :: _ => ube4 a b c d | _ => size end
  else size.

(* one chunk: bytes, the message completed by it (if any), legality, next sender state *)
Definition spec_step (sd : sender) (st : step) : bytes * option msg * bool * sender :=
  let cid := st_cid st in
  let fl := form_legal cid (st_form st) && (st_fmt st <? 4) in
  let emit (hb : bytes) (np : sprev) (m : msg) (rem : bytes) (ok : bool) (pend : list msg) :=
    let '(a, r, _) := upto rem (sd_size sd) in
    let w := spec_basic (st_fmt st) cid (st_form st) ++ hb ++ a in
    let prev' := aset (sd_prev sd) cid np in
    match r with
    | [] => (w, Some (red m), ok,
             mksd (after_done (sd_size sd) m) prev' (adel (sd_fly sd) cid) pend)
    | _ :: _ => (w, None, ok, mksd (sd_size sd) prev' (aset (sd_fly sd) cid (m, r)) pend)
    end in
  match alookup (sd_fly sd) cid with
  | Some (m, rem) =>
      let p := match alookup (sd_prev sd) cid with Some p => p | None => sp0 end in
      if st_fmt st =? 3 then
        emit (if sp_ext p then be4 (sp_extv p) else []) p m rem (fl && (st_adj st =? 0)) (sd_pend sd)
      else
        let '(hb, np, _) := spec_mhdr (st_fmt st) (Some p) m (st_adj st) in
        emit hb np m rem false (sd_pend sd)
  | None =>
      match pick cid (sd_pend sd) with
      | None => ([], None, false, sd)
      | Some (m, pend') =>
          let '(hb, np, ok) := spec_mhdr (st_fmt st) (alookup (sd_prev sd) cid) m (st_adj st) in
          emit hb np m (m_payload m) (fl && ok && msg_ok m) pend'
      end
  end.

Fixpoint spec_run (sd : sender) (plan : list step) : bytes * list msg * bool * sender :=
  match plan with
  | [] => ([], [], true, sd)
  | st :: t =>
      let '(w, om, ok, sd1) := spec_step sd st in
      let '(w2, ms, ok2, sd2) := spec_run sd1 t in
      (w ++ w2, (match om with Some m => m :: ms | None => ms end), ok && ok2, sd2)
  end.

Definition sd0 (msgs : list msg) : sender := mksd 128 [] [] msgs.
Definition ref_chunk (plan : list step) (msgs : list msg) : bytes :=
  let '(w, _, _, _) := spec_run (sd0 msgs) plan in w.
Definition completion_order (plan : list step) (msgs : list msg) : list msg :=
  let '(_, ms, _, _) := spec_run (sd0 msgs) plan in ms.
(* every chunk obeys the rules and no message is left unfinished or unsent *)
Definition legal (plan : list step) (msgs : list msg) : bool :=
  let '(_, _, ok, sd) := spec_run (sd0 msgs) plan in
  ok && match sd_fly sd with [] => true | _ => false end
     && match sd_pend sd with [] => true | _ => false end.

(* ================= run wrappers (case -> observation) ================= *)
Definition sxN (s : sx) : option N :=
  match s with SZ z => if (z <? 0)%Z then None else Some (Z.to_N z) | _ => None end.

(* Adler-style checksum (additions and one conditional subtraction per byte: cheap on binary N) *)
Definition hash_step (st : N * N) (x : N) : N * N :=
  let a := fst st + x + 1 in
  let a := if 65521 <=? a then a - 65521 else a in
  let b := snd st + a in
  let b := if 65521 <=? b then b - 65521 else b in
  (a, b).
Definition hash_bytes (b : bytes) : N :=
  let '(x, y) := fold_left hash_step b (0, 0) in y * 65536 + x.

(* payload (len a): the first len bytes of the 251-byte block a, a+1, ... (mod 251) repeated *)
Definition block (a : N) : bytes := map (fun j => (a + N.of_nat j) mod 251) (seq 0 251).
Definition gen_payload (len a : N) : bytes :=
  let b := block a in
  let '(p, _, _) := upto (N.iter (len / 251 + 1) (fun acc => b ++ acc) []) len in p.

Definition sx_payload (s : sx) : option bytes :=
  match s with
  | SB b => Some b
  | SL [l; a] => match sxN l, sxN a with Some l, Some a => Some (gen_payload l a) | _, _ => None end
  | _ => None
  end.

(* (cid ts type sid payload) with the Go field widths *)
Definition sx_msg (l : list sx) : option msg :=
  match l with
  | [c; t; ty; sd; p] =>
      match sxN c, sxN t, sxN ty, sxN sd, sx_payload p with
      | Some c, Some t, Some ty, Some sd, Some p => Some (mkmsg (u32 c) (u64 t) (u8 ty) (u32 sd) p)
      | _, _, _, _, _ => None
      end
  | _ => None
  end.

Fixpoint sx_list {A} (f : sx -> option A) (l : list sx) : option (list A) :=
  match l with
  | [] => Some []
  | x :: t => match f x, sx_list f t with Some a, Some r => Some (a :: r) | _, _ => None end
  end.

(* cut a byte string into transport reads by a cyclic script of sizes (each >= 1) *)
Definition next_size (pend all : list N) : N * list N :=
  match pend with
  | k :: t => (N.max 1 k, t)
  | [] => match all with k :: t => (N.max 1 k, t) | [] => (1, []) end
  end.
Fixpoint cut_go (b : bytes) (k : N) (pend all : list N) (cur : bytes) : inp :=
  match b with
  | [] => [frev cur]
  | x :: t =>
      if k =? 0 then
        let '(k', pend') := next_size pend all in
        frev cur :: cut_go t (N.pred k') pend' all [x]
      else cut_go t (N.pred k) pend all (x :: cur)
  end.
Definition cut (script : list N) (b : bytes) : inp :=
  match script with
  | [] => [b]
  | _ => let '(k, pend) := next_size script script in cut_go b k pend script []
  end.

Definition s_msg (m : msg) : sx :=
  SL [sN (m_cid m); sN (m_ts m); sN (m_type m); sN (m_sid m);
      sN (lenN (m_payload m)); sN (hash_bytes (m_payload m))].
Definition s_res_code {A} (r : res A) : sx :=
  match r with Ok _ => SZ 0 | Err e => sN e | Panic p => sN (1000 + p) end.

Definition lenN_inp (i : inp) : N := fold_left (fun a s => a + lenN s) i 0.

(* one direction of a C01 session: handshake bytes of the sender in front (if hs), the peer's
   handshake reads, then read until the first error *)
Definition hs_prefix : bytes := hs_c0s0 ++ hs_c1s1 (repeat 0 1528) ++ hs_c2s2 (hs_c1s1 (repeat 0 1528)).
Definition run_dir (hs : bool) (script : list N) (ms : list msg) : sx :=
  let ws := write_all DEFCHUNK ms in
  let wire := wire_of ws in
  let stream := if hs then hs_prefix ++ wire else wire in
  let i0 := cut script stream in
  let hsr : res (sx * inp) :=
    if hs then
      let* (c0, i1) := hs_read_c0s0 i0 in
      let* (c1, i2) := hs_read_c1s1 i1 in
      let* (c2, i3) := hs_read_c2s2 i2 in
      Ok (SL [SB c0; sN (lenN c1); sN (lenN c2); sbool (bytes_eqb c2 (hs_c1s1 (repeat 0 1528)))], i3)
    else Ok (SL [], i0) in
  match hsr with
  | Ok (ho, i) =>
      let '(got, e) := read_all (S (N.to_nat (lenN wire))) rs0 i [] in
      SL [ho; SL [sN (lenN wire); sN (hash_bytes wire)]; SL (map s_res_code ws);
          SL (map s_msg got); sN e]
  | Err e => SL [sN e]
  | Panic p => SL [sN (1000 + p)]
  end.

Definition sx_op (s : sx) : option (N * msg) :=
  match s with
  | SL (side :: rest) =>
      match sxN side, sx_msg rest with Some sd, Some m => Some (sd, m) | _, _ => None end
  | _ => None
  end.

Definition run_c01 (c : sx) : sx :=
  match c with
  | SL [hs; SL sa; SL sb; SL ops] =>
      match sxN hs, sx_list sxN sa, sx_list sxN sb, sx_list sx_op ops with
      | Some hs, Some sa, Some sb, Some ops =>
          let side k := map snd (filter (fun o => fst o =? k) ops) in
          s_ok [run_dir (0 <? hs) sa (side 0); run_dir (0 <? hs) sb (side 1)]
      | _, _, _, _ => bad_case
      end
  | _ => bad_case
  end.

(* C02: ((steps) (msgs) script): the reference chunker's bytes, its verdict, and what the
   reader makes of them *)
Definition sx_step (s : sx) : option step :=
  match s with
  | SL [c; f; t; a] =>
      match sxN c, sxN f, sxN t, sxN a with
      | Some c, Some f, Some t, Some a => Some (mkstep (u32 c) f (t mod 4) (u32 a))
      | _, _, _, _ => None
      end
  | _ => None
  end.
Definition sx_msg' (s : sx) : option msg := match s with SL l => sx_msg l | _ => None end.

Definition run_c02 (c : sx) : sx :=
  match c with
  | SL [SL steps; SL msgs; SL script] =>
      match sx_list sx_step steps, sx_list sx_msg' msgs, sx_list sxN script with
      | Some plan, Some ms, Some sc =>
          let '(w, done, ok, sd) := spec_run (sd0 ms) plan in
          let lg := legal plan ms in
          let '(got, e) := read_all (S (N.to_nat (lenN w))) rs0 (cut sc w) [] in
          s_ok [SL [sN (lenN w); sN (hash_bytes w)]; sbool lg; SL (map s_msg done);
                SL (map s_msg got); sN e]
      | _, _, _ => bad_case
      end
  | _ => bad_case
  end.
