(* Model of the byte-level logic of https/jose (fork of square/go-jose v1) and https/jose/cipher
   (C16; its decoders are also the JOSE part of C07).  Definitions only.

   What is modelled is everything BETWEEN the cryptographic primitives:
     encoding.go   base64URLEncode / base64URLDecode (padding arithmetic, Go's padded URL decoder
                   incl. its CR/LF skipping and non-strict trailing bits), stripWhitespace,
                   newFixedSizeBuffer, newBufferFromInt
     jws.go        parseSignedCompact, computeAuthData (signing input from the ORIGINAL protected bytes)
     jwe.go        parseEncryptedCompact, computeAuthData (AAD = b64(protected) ['.' b64(aad)])
     cipher/cbc_hmac.go   computeAuthTag input and truncation, padBuffer, unpadBuffer, Open
     cipher/key_wrap.go   KeyWrap / KeyUnwrap over an abstract 16-byte block function
     cipher/concat_kdf.go, ecdh_es.go   hash-input layout, round counter, output truncation
     asymmetric.go ECDSA r||s fixed-width layout and split
     jwk.go        thumbprint templates
     symmetric.go  aeadContentCipher.decrypt: the nonce-size guard in front of cipher.AEAD.Open
   The primitives (AES, SHA-2/HMAC, GCM, RSA, ECDSA, flate, encoding/json) are parameters; for the
   correspondence run they are instantiated by replaying the implementation's own logged calls. *)
From Verif Require Import Lib.Base Lib.Sx.
From Verif Require Import Gen.Gen_josecipher Gen.Gen_jose.
From Coq Require String.
From Coq Require Import Ascii.
Open Scope N_scope.

(* ------------------------------------------------------------------ small list helpers *)
Fixpoint repeatN_nat (x : N) (n : nat) : bytes :=
  match n with O => [] | S k => x :: repeatN_nat x k end.
Definition repeatN (x : N) (n : N) : bytes := repeatN_nat x (N.to_nat n).

Definition is_nil (b : bytes) : bool := match b with [] => true | _ => false end.

Fixpoint last_opt (b : bytes) : option N :=
  match b with [] => None | [x] => Some x | _ :: t => last_opt t end.

(* a[:n] / a[n:] as one checked split: None = slice bounds out of range *)
Definition split_at (n : N) (b : bytes) : option (bytes * bytes) := takeN n b.

(* ------------------------------------------------------------------ base64url *)
Definition ch_dot : N := 46.
Definition ch_eq : N := 61.

Definition b64_char (v : N) : N :=
  if v <? 26 then 65 + v
  else if v <? 52 then 97 + (v - 26)
  else if v <? 62 then 48 + (v - 52)
  else if v =? 62 then 45 else 95.

Definition b64_val (c : N) : option N :=
  if (65 <=? c) && (c <=? 90) then Some (c - 65)
  else if (97 <=? c) && (c <=? 122) then Some (c - 71)
  else if (48 <=? c) && (c <=? 57) then Some (c + 4)
  else if c =? 45 then Some 62
  else if c =? 95 then Some 63
  else None.

(* base64.URLEncoding.EncodeToString: padded *)
Fixpoint b64_enc_padded (b : bytes) : bytes :=
  match b with
  | [] => []
  | [x] => [b64_char (x / 4); b64_char ((x mod 4) * 16); ch_eq; ch_eq]
  | [x; y] => [b64_char (x / 4); b64_char ((x mod 4) * 16 + y / 16); b64_char ((y mod 16) * 4); ch_eq]
  | x :: y :: z :: t =>
      b64_char (x / 4) :: b64_char ((x mod 4) * 16 + y / 16)
        :: b64_char ((y mod 16) * 4 + z / 64) :: b64_char (z mod 64) :: b64_enc_padded t
  end.

(* strings.TrimRight(s, =) *)
Fixpoint drop_eq (l : bytes) : bytes :=
  match l with [] => [] | c :: t => if c =? ch_eq then drop_eq t else l end.
Definition trim_right_eq (l : bytes) : bytes := rev (drop_eq (rev l)).

(* base64URLEncode *)
Definition b64url_encode (b : bytes) : bytes := trim_right_eq (b64_enc_padded b).

(* the same function written directly (used in proofs; b64url_encode_direct in Proofs/Jose.v) *)
Fixpoint b64_enc (b : bytes) : bytes :=
  match b with
  | [] => []
  | [x] => [b64_char (x / 4); b64_char ((x mod 4) * 16)]
  | [x; y] => [b64_char (x / 4); b64_char ((x mod 4) * 16 + y / 16); b64_char ((y mod 16) * 4)]
  | x :: y :: z :: t =>
      b64_char (x / 4) :: b64_char ((x mod 4) * 16 + y / 16)
        :: b64_char ((y mod 16) * 4 + z / 64) :: b64_char (z mod 64) :: b64_enc t
  end.

(* base64.URLEncoding.DecodeString on text without CR/LF: whole quanta of 4, '=' padding only in
   the last quantum (xx== or xxx=), nothing after it, unused trailing bits ignored
   (non-strict).  None = CorruptInputError. *)
Fixpoint b64_dec_std (s : bytes) : option bytes :=
  match s with
  | [] => Some []
  | c0 :: c1 :: c2 :: c3 :: t =>
      match b64_val c0, b64_val c1 with
      | Some v0, Some v1 =>
          let b0 := v0 * 4 + v1 / 16 in
          match b64_val c2 with
          | Some v2 =>
              let b1 := (v1 mod 16) * 16 + v2 / 4 in
              match b64_val c3 with
              | Some v3 =>
                  match b64_dec_std t with
                  | Some r => Some (b0 :: b1 :: ((v2 mod 4) * 64 + v3) :: r)
                  | None => None
                  end
              | None => if (c3 =? ch_eq) && is_nil t then Some [b0; b1] else None
              end
          | None => if (c2 =? ch_eq) && (c3 =? ch_eq) && is_nil t then Some [b0] else None
          end
      | _, _ => None
      end
  | _ => None
  end.

Definition is_crlf (c : N) : bool := (c =? 10) || (c =? 13).
Definition not_crlf (c : N) : bool := negb (is_crlf c).

(* base64URLDecode: missing = (4 - len%4) % 4 computed on the RAW length, '=' appended, then the
   stdlib decoder, which skips '\r' and '\n' wherever they occur *)
Definition b64url_decode (s : bytes) : option bytes :=
  let missing := (4 - lenN s mod 4) mod 4 in
  b64_dec_std (filter not_crlf (s ++ repeatN ch_eq missing)).

Definition e_b64 : N := 2.
Definition b64url_decode_r (s : bytes) : res bytes :=
  match b64url_decode s with Some b => Ok b | None => Err e_b64 end.

(* ------------------------------------------------------------------ compact serialization *)
(* regexp \s of RE2: \t \n \f \r and space *)
Definition is_ws (c : N) : bool := (c =? 9) || (c =? 10) || (c =? 12) || (c =? 13) || (c =? 32).
Definition strip_ws (s : bytes) : bytes := filter (fun c => negb (is_ws c)) s.

(* strings.Split(s, dot) *)
Fixpoint split_dot (s : bytes) : list bytes :=
  match s with
  | [] => [[]]
  | c :: t =>
      if c =? ch_dot then [] :: split_dot t
      else match split_dot t with h :: r => (c :: h) :: r | [] => [[c]] end
  end.

Fixpoint join_dot (parts : list bytes) : bytes :=
  match parts with
  | [] => []
  | [p] => p
  | p :: r => p ++ ch_dot :: join_dot r
  end.

Definition starts_with_brace (s : bytes) : bool := match s with c :: _ => c =? 123 | [] => false end.

(* computeAuthData (jws.go): the verifier re-encodes the protected bytes it received *)
Definition signing_input (prot payload : bytes) : bytes :=
  b64url_encode prot ++ ch_dot :: b64url_encode payload.

(* computeAuthData (jwe.go) *)
(* zero-length authenticated data counts as absent (len(obj.aad) > 0) *)
Definition aad_input (prot : bytes) (aad : option bytes) : bytes :=
  b64url_encode prot ++
  match aad with
  | None => []
  | Some a => if is_nil a then [] else ch_dot :: b64url_encode a
  end.

Record jws_fields := { js_prot : bytes; js_payload : bytes; js_sig : bytes }.
Record jwe_fields := { je_prot : bytes; je_key : bytes; je_iv : bytes; je_ct : bytes; je_tag : bytes }.

Definition jws_compact (o : jws_fields) : bytes :=
  join_dot [b64url_encode (js_prot o); b64url_encode (js_payload o); b64url_encode (js_sig o)].
Definition jwe_compact (o : jwe_fields) : bytes :=
  join_dot [b64url_encode (je_prot o); b64url_encode (je_key o); b64url_encode (je_iv o);
            b64url_encode (je_ct o); b64url_encode (je_tag o)].

Definition e_parts : N := 1.
Definition e_json : N := 3.
Definition e_hdr : N := 4.
Definition e_notcompact : N := 5.

(* parseSignedCompact + sanitized.  [json_ok]: the answer of encoding/json for the protected
   header bytes (oracle; consulted only when the decoded header is non-empty, as in the code). *)
Definition parse_jws_compact (input : bytes) (json_ok : bool) : res jws_fields :=
  let s := strip_ws input in
  if starts_with_brace s then Err e_notcompact else
  match split_dot s with
  | [p0; p1; p2] =>
      let* prot := b64url_decode_r p0 in
      let* payload := b64url_decode_r p1 in
      let* sig := b64url_decode_r p2 in
      if negb (is_nil prot) && negb json_ok then Err e_json
      else Ok {| js_prot := prot; js_payload := payload; js_sig := sig |}
  | _ => Err e_parts
  end.

(* parseEncryptedCompact + sanitized.  [hdr]: 0 the protected header is not valid JSON for
   rawHeader, 1 valid and alg, enc both present, 2 valid but alg or enc missing (oracle). *)
Definition parse_jwe_compact (input : bytes) (hdr : N) : res jwe_fields :=
  let s := strip_ws input in
  if starts_with_brace s then Err e_notcompact else
  match split_dot s with
  | [p0; p1; p2; p3; p4] =>
      let* prot := b64url_decode_r p0 in
      let* key := b64url_decode_r p1 in
      let* iv := b64url_decode_r p2 in
      let* ct := b64url_decode_r p3 in
      let* tag := b64url_decode_r p4 in
      if is_nil prot then Err e_hdr
      else if hdr =? 0 then Err e_json
      else if hdr =? 1 then Ok {| je_prot := prot; je_key := key; je_iv := iv; je_ct := ct; je_tag := tag |}
      else Err e_hdr
  | _ => Err e_parts
  end.

(* ------------------------------------------------------------------ CBC-HMAC *)
(* computeAuthTag's buffer: aad || nonce || ciphertext || uint64_be(len(aad) * 8) *)
Definition mac_input (aad nonce ct : bytes) : bytes :=
  aad ++ nonce ++ ct ++ be8 (u64 (lenN aad * 8)).

(* hmac.Sum(nil)[:authtagBytes] *)
Definition tag_of (mac : bytes) (tagbytes : N) : res bytes :=
  match split_at tagbytes mac with Some (t, _) => Ok t | None => Panic 3 end.

Definition block_size : N := 16.

(* padBuffer *)
Definition pad_buffer (b : bytes) (bs : N) : bytes :=
  let missing := bs - lenN b mod bs in
  b ++ repeatN (u8 missing) missing.

Definition e_pad : N := 1.

(* unpadBuffer.  [guard0] = the len(buffer) == 0 test added by the fix. *)
Definition unpad_buffer_g (guard0 : bool) (b : bytes) (bs : N) : res bytes :=
  let n := lenN b in
  if (guard0 && (n =? 0)) || negb (n mod bs =? 0) then Err e_pad else
  match last_opt b with
  | None => Panic 1                                   (* buffer[len(buffer)-1] *)
  | Some last =>
      if (last =? 0) || (bs <? last) || (n <? last) then Err e_pad else
      match split_at (n - last) b with
      | None => Panic 2
      | Some (body, suffix) =>
          if bytes_eqb suffix (repeatN last last) then Ok body else Err e_pad
      end
  end.
Definition unpad_buffer := unpad_buffer_g true.

(* subtle.ConstantTimeCompare == 1: equal length and equal bytes *)
Definition ct_eq (a b : bytes) : bool := bytes_eqb a b.

(* cbcAEAD.Open.  [hm] the HMAC under the integrity key, [cbcdec nonce ct] CBC decryption under
   the encryption key (same length as ct).  cipher.NewCBCDecrypter panics unless
   len(nonce) = block size. *)
Definition cbc_open (hm : bytes -> bytes) (cbcdec : bytes -> bytes -> bytes)
           (tagbytes : N) (nonce ctag aad : bytes) : res bytes :=
  let n := lenN ctag in
  if n <? tagbytes then Err 1 else
  match split_at (n - tagbytes) ctag with
  | None => Panic 4
  | Some (ct, tag) =>
      let* expected := tag_of (hm (mac_input aad nonce ct)) tagbytes in
      if negb (ct_eq expected tag) then Err 2
      else if negb (lenN nonce =? block_size) then Panic 5
      else if negb (lenN ct mod block_size =? 0) then Err 3
      else unpad_buffer (cbcdec nonce ct) block_size
  end.

(* cbcAEAD.Seal *)
Definition cbc_seal (hm : bytes -> bytes) (cbcenc : bytes -> bytes -> bytes)
           (tagbytes : N) (nonce pt aad : bytes) : res bytes :=
  let ct := cbcenc nonce (pad_buffer pt block_size) in
  let* tag := tag_of (hm (mac_input aad nonce ct)) tagbytes in
  Ok (ct ++ tag).

(* aeadContentCipher.decrypt: [guard] = the nonce-size test added by the fix; the stdlib AEAD
   Open has the precondition len(nonce) = NonceSize and panics otherwise. *)
Definition aead_decrypt_g (guard : bool) (nonce_size : N) (open : bytes -> bytes -> bytes -> res bytes)
           (iv ct tag aad : bytes) : res bytes :=
  if guard && negb (lenN iv =? nonce_size) then Err 1
  else if negb (lenN iv =? nonce_size) then Panic 6
  else open iv (ct ++ tag) aad.
Definition aead_decrypt := aead_decrypt_g true.

(* ------------------------------------------------------------------ RFC 3394 key wrap *)
Definition default_iv : bytes := map Z.to_N josecipher_defaultIV.

Fixpoint xor_bytes (a t : bytes) : bytes :=
  match a, t with
  | x :: a', y :: t' => N.lxor x y :: xor_bytes a' t'
  | _, [] => a
  | [], _ => []
  end.

(* chunks of 8 bytes; the input length is a multiple of 8 where this is used *)
Fixpoint chunks8 (fuel : nat) (b : bytes) : list bytes :=
  match fuel with
  | O => []
  | S f => match b with
           | [] => []
           | _ => match take 8 b with
                  | Some (c, r) => c :: chunks8 f r
                  | None => [b]
                  end
           end
  end.

Definition first8 (b : bytes) : bytes := firstn 8 b.
Definition rest8 (b : bytes) : bytes := skipn 8 b.

(* one pass t = t0 .. t0+n-1 of the wrap loop over r[0..n-1]:
     buffer = A || r[i]; buffer = E(buffer); A = buffer[:8] xor be8(t+1); r[i] = buffer[8:] *)
Fixpoint wrap_pass (E : bytes -> bytes) (a : bytes) (t : N) (r : list bytes) : bytes * N * list bytes :=
  match r with
  | [] => (a, t, [])
  | ri :: rest =>
      let b := E (a ++ ri) in
      let a' := xor_bytes (first8 b) (be8 (u64 (t + 1))) in
      let '(a2, t2, rest') := wrap_pass E a' (t + 1) rest in
      (a2, t2, rest8 b :: rest')
  end.

Fixpoint wrap_passes (E : bytes -> bytes) (k : nat) (a : bytes) (t : N) (r : list bytes) : bytes * N * list bytes :=
  match k with
  | O => (a, t, r)
  | S k' => let '(a', t', r') := wrap_pass E a t r in wrap_passes E k' a' t' r'
  end.

Definition e_wrap : N := 1.
Definition e_wrap_short : N := 2.
Definition e_wrap_icv : N := 3.

(* KeyWrap with an explicit initial value (the code uses defaultIV).  The Go loop
   for t := 0; t < 6n; t++ { ... r[t%n] ... } is six passes over r[0..n-1]. *)
Definition key_wrap_iv (E : bytes -> bytes) (iv cek : bytes) : res bytes :=
  let len := lenN cek in
  if negb (len mod 8 =? 0) then Err e_wrap else
  let r := chunks8 (length cek) cek in
  let '(a, _, r') := wrap_passes E 6 iv 0 r in
  Ok (a ++ concat r').
Definition key_wrap (E : bytes -> bytes) (cek : bytes) : res bytes := key_wrap_iv E default_iv cek.

(* one pass of the unwrap loop, t = t0 down to t0-n+1 over r[n-1] .. r[0]; [r] is given REVERSED:
     A = A xor be8(t+1); buffer = A || r[i]; buffer = D(buffer); A = buffer[:8]; r[i] = buffer[8:]
   [t] here is t+1 of the Go loop (so it stays in N). *)
Fixpoint unwrap_pass (D : bytes -> bytes) (a : bytes) (t1 : N) (rrev : list bytes) (acc : list bytes)
  : bytes * N * list bytes :=
  match rrev with
  | [] => (a, t1, acc)
  | ri :: rest =>
      let b := D (xor_bytes a (be8 (u64 t1)) ++ ri) in
      unwrap_pass D (first8 b) (t1 - 1) rest (rest8 b :: acc)
  end.

Fixpoint unwrap_passes (D : bytes -> bytes) (k : nat) (a : bytes) (t1 : N) (r : list bytes) : bytes * N * list bytes :=
  match k with
  | O => (a, t1, r)
  | S k' => let '(a', t', r') := unwrap_pass D a t1 (rev r) [] in unwrap_passes D k' a' t' r'
  end.

(* KeyUnwrap.  [minlen] = the minimum-length test added by the fix (24); 0 = the old code, where
   n = len/8 - 1 goes negative for an empty input and make([][]byte, n) panics. *)
Definition key_unwrap_g (minlen : N) (D : bytes -> bytes) (ct : bytes) : res bytes :=
  let len := lenN ct in
  if negb (len mod 8 =? 0) then Err e_wrap
  else if len <? minlen then Err e_wrap_short
  else if len =? 0 then Panic 7
  else
    let a0 := first8 ct in
    let r := chunks8 (length ct) (rest8 ct) in
    let n := lenN ct / 8 - 1 in
    let '(a, _, r') := unwrap_passes D 6 a0 (6 * n) r in
    if negb (ct_eq a default_iv) then Err e_wrap_icv
    else Ok (concat r').
Definition key_unwrap := key_unwrap_g 24.

(* ---- the Go loops as written: one index-based step per t, block r[t%n] read and written in place ---- *)
Fixpoint set_blk (r : list bytes) (i : nat) (v : bytes) : list bytes :=
  match r, i with
  | [], _ => []
  | _ :: t, O => v :: t
  | x :: t, S k => x :: set_blk t k v
  end.

(* for t := t0; steps > 0; t++ { copy(buffer[8:], r[t%n]); Encrypt; A = buffer[:8] xor be8(t+1); r[t%n] = buffer[8:] } *)
Fixpoint wrap_loop (E : bytes -> bytes) (n : N) (steps : nat) (t : N) (a : bytes) (r : list bytes)
  : res (bytes * list bytes) :=
  match steps with
  | O => Ok (a, r)
  | S k =>
      let i := N.to_nat (t mod n) in
      match nth_error r i with
      | None => Panic 10                              (* r[t%n] out of range *)
      | Some ri =>
          let b := E (a ++ ri) in
          wrap_loop E n k (t + 1) (xor_bytes (first8 b) (be8 (u64 (t + 1)))) (set_blk r i (rest8 b))
      end
  end.

(* KeyWrap, transcribed loop for loop *)
Definition key_wrap_loop_iv (E : bytes -> bytes) (iv cek : bytes) : res bytes :=
  let len := lenN cek in
  if negb (len mod 8 =? 0) then Err e_wrap else
  let n := len / 8 in
  let r := chunks8 (length cek) cek in
  let* ar := wrap_loop E n (N.to_nat (6 * n)) 0 iv r in
  Ok (fst ar ++ concat (snd ar)).
Definition key_wrap_loop (E : bytes -> bytes) (cek : bytes) : res bytes := key_wrap_loop_iv E default_iv cek.

(* for t := 6n-1; t >= 0; t-- { A ^= be8(t+1); copy(buffer[8:], r[t%n]); Decrypt; r[t%n] = buffer[8:] }
   [t1] is t+1 *)
Fixpoint unwrap_loop (D : bytes -> bytes) (n : N) (steps : nat) (t1 : N) (a : bytes) (r : list bytes)
  : res (bytes * list bytes) :=
  match steps with
  | O => Ok (a, r)
  | S k =>
      let i := N.to_nat ((t1 - 1) mod n) in
      match nth_error r i with
      | None => Panic 11
      | Some ri =>
          let b := D (xor_bytes a (be8 (u64 t1)) ++ ri) in
          unwrap_loop D n k (t1 - 1) (first8 b) (set_blk r i (rest8 b))
      end
  end.

Definition key_unwrap_loop_g (minlen : N) (D : bytes -> bytes) (ct : bytes) : res bytes :=
  let len := lenN ct in
  if negb (len mod 8 =? 0) then Err e_wrap
  else if len <? minlen then Err e_wrap_short
  else if len =? 0 then Panic 7
  else
    let n := len / 8 - 1 in
    let r := chunks8 (length ct) (rest8 ct) in
    let* ar := unwrap_loop D n (N.to_nat (6 * n)) (6 * n) (first8 ct) r in
    if negb (ct_eq (fst ar) default_iv) then Err e_wrap_icv
    else Ok (concat (snd ar)).
Definition key_unwrap_loop := key_unwrap_loop_g 24.

(* ------------------------------------------------------------------ Concat KDF / ECDH-ES *)
(* lengthPrefixed *)
Definition len_prefixed (d : bytes) : bytes := be4 (u32 (lenN d)) ++ d.

(* DeriveECDHES's fixed info: AlgorithmID || PartyUInfo || PartyVInfo || SuppPubInfo || SuppPrivInfo *)
Definition kdf_info (alg apu apv : bytes) (size : N) : bytes :=
  len_prefixed alg ++ len_prefixed apu ++ len_prefixed apv ++ be4 (u32 (u32 size * 8)) ++ [].

(* the hasher input of round i (i starts at 1, uint32) *)
Definition kdf_round_input (i : N) (z info : bytes) : bytes := be4 (u32 i) ++ z ++ info.

(* concatKDF.Read of [size] bytes from a fresh reader: rounds 1, 2, ... until enough output *)
Fixpoint kdf_read (H : bytes -> bytes) (fuel : nat) (i : N) (z info : bytes) (need : N) : bytes :=
  match fuel with
  | O => []
  | S f =>
      if need =? 0 then []
      else let h := H (kdf_round_input i z info) in
           let hl := lenN h in
           if need <=? hl then firstn (N.to_nat need) h
           else if hl =? 0 then []
           else h ++ kdf_read H f (i + 1) z info (need - hl)
  end.

Fixpoint kdf_inputs (fuel : nat) (i : N) (z info : bytes) (need hashlen : N) : list bytes :=
  match fuel with
  | O => []
  | S f =>
      if need =? 0 then []
      else kdf_round_input i z info ::
           (if need <=? hashlen then [] else kdf_inputs f (i + 1) z info (need - hashlen) hashlen)
  end.

(* ------------------------------------------------------------------ fixed-width integers *)
(* big.Int.Bytes(): minimal big-endian, empty for 0 *)
Fixpoint be_bytes_acc (fuel : nat) (n : N) (acc : bytes) : bytes :=
  match fuel with
  | O => acc
  | S f => if n =? 0 then acc else be_bytes_acc f (n / 256) (n mod 256 :: acc)
  end.
Definition be_bytes (n : N) : bytes := be_bytes_acc (N.size_nat n) n [].

(* newFixedSizeBuffer: panics if len(data) > length *)
Definition fixed_size (data : bytes) (length : N) : res bytes :=
  let l := lenN data in
  if length <? l then Panic 8 else Ok (repeatN 0 (length - l) ++ data).

(* ecDecrypterSigner.signPayload's r || s (both below 2^(8*keyBytes) for a real curve order) *)
Definition ecdsa_sig (r s keybytes : N) : res bytes :=
  let* rb := fixed_size (be_bytes r) keybytes in
  let* sb := fixed_size (be_bytes s) keybytes in
  Ok (rb ++ sb).

(* ecEncrypterVerifier.verifyPayload: length check, split at keySize *)
Definition ecdsa_split (sig : bytes) (keysize : N) : res (N * N) :=
  if negb (lenN sig =? 2 * keysize) then Err 1
  else match split_at keysize sig with
       | None => Panic 9
       | Some (rb, sb) => Ok (be_val rb, be_val sb)
       end.

(* newBufferFromInt: 8-byte big endian with leading zero bytes trimmed *)
Definition buffer_from_int (e : N) : bytes := be_bytes (u64 e).

(* ------------------------------------------------------------------ algorithm / key glue *)
(* signing.go makeJWSRecipient / newVerifier dispatch on the Go type of the key; symmetric.go,
   asymmetric.go then switch on the algorithm name.  Names come from the generated constants. *)
Fixpoint bytes_of_string (s : String.string) : bytes :=
  match s with String.EmptyString => [] | String.String c r => N_of_ascii c :: bytes_of_string r end.

Inductive sigalg := AHS256 | AHS384 | AHS512 | ARS256 | ARS384 | ARS512
                  | APS256 | APS384 | APS512 | AES256 | AES384 | AES512.

Definition sigalg_names : list (bytes * sigalg) :=
  [(bytes_of_string jose_HS256_str, AHS256); (bytes_of_string jose_HS384_str, AHS384);
   (bytes_of_string jose_HS512_str, AHS512); (bytes_of_string jose_RS256_str, ARS256);
   (bytes_of_string jose_RS384_str, ARS384); (bytes_of_string jose_RS512_str, ARS512);
   (bytes_of_string jose_PS256_str, APS256); (bytes_of_string jose_PS384_str, APS384);
   (bytes_of_string jose_PS512_str, APS512); (bytes_of_string jose_ES256_str, AES256);
   (bytes_of_string jose_ES384_str, AES384); (bytes_of_string jose_ES512_str, AES512)].

Fixpoint sigalg_lookup (l : list (bytes * sigalg)) (n : bytes) : option sigalg :=
  match l with [] => None | (k, a) :: t => if bytes_eqb k n then Some a else sigalg_lookup t n end.
Definition sigalg_of_name (n : bytes) : option sigalg := sigalg_lookup sigalg_names n.

(* kind of key handed to NewSigner / Verify: []byte, *rsa.*Key, *ecdsa.*Key on a curve of [bits] bits *)
Inductive keykind := KSym | KRsa | KEc (bits : N).

Definition is_hs a := match a with AHS256 | AHS384 | AHS512 => true | _ => false end.
Definition is_rsa_alg a := match a with ARS256 | ARS384 | ARS512 | APS256 | APS384 | APS512 => true | _ => false end.
(* ecDecrypterSigner.signPayload: expectedBitSize *)
Definition es_bits a : option N := match a with AES256 => Some 256 | AES384 => Some 384 | AES512 => Some 521 | _ => None end.
(* ecEncrypterVerifier.verifyPayload: keySize *)
Definition es_keysize a : option N := match a with AES256 => Some 32 | AES384 => Some 48 | AES512 => Some 66 | _ => None end.
(* hash output size of the MAC (symmetricMac.hmac) *)
Definition hs_size a : option N := match a with AHS256 => Some 32 | AHS384 => Some 48 | AHS512 => Some 64 | _ => None end.

(* keyBytes := curveBits/8; if curveBits%8 > 0 { keyBytes++ } *)
Definition ec_key_bytes (bits : N) : N := bits / 8 + (if 0 <? bits mod 8 then 1 else 0).

Definition e_alg : N := 1.      (* ErrUnsupportedAlgorithm *)
Definition e_curve : N := 2.    (* expected %d bit key, got %d bits instead / invalid signature size *)

(* NewSigner + Sign: Ok (length of the signature, when the glue fixes it) *)
Definition sign_decide (k : keykind) (name : bytes) : res N :=
  match sigalg_of_name name with
  | None => Err e_alg
  | Some a =>
      match k with
      | KSym => match hs_size a with Some n => Ok n | None => Err e_alg end
      | KRsa => if is_rsa_alg a then Ok 0 else Err e_alg       (* length = modulus size: not glue *)
      | KEc bits =>
          match es_bits a with
          | None => Err e_alg
          | Some want => if want =? bits then Ok (2 * ec_key_bytes bits) else Err e_curve
          end
      end
  end.

(* Verify: dispatch and the length check in front of the primitive.  The EC verifier checks the
   signature length against the algorithm, not the curve of the key. *)
Definition verify_decide (k : keykind) (name : bytes) (siglen : N) : res unit :=
  match sigalg_of_name name with
  | None => Err e_alg
  | Some a =>
      match k with
      | KSym => if is_hs a then Ok tt else Err e_alg
      | KRsa => if is_rsa_alg a then Ok tt else Err e_alg
      | KEc _ =>
          match es_keysize a with
          | None => Err e_alg
          | Some ks => if siglen =? 2 * ks then Ok tt else Err e_curve
          end
      end
  end.

(* ------------------------------------------------------------------ ECDH-ES: header -> KDF plumbing *)
(* ecDecrypterSigner.decryptKey: which header member feeds which field of the Concat KDF.
   The merged header's decoded values: alg, enc, apu, apv (absent = empty). *)
Record ecdh_hdr := { eh_alg : bytes; eh_enc : bytes; eh_apu : bytes; eh_apv : bytes }.

Definition name_ECDH_ES := bytes_of_string jose_ECDH_ES_str.
Definition name_ECDH_ES_A128KW := bytes_of_string jose_ECDH_ES_A128KW_str.
Definition name_ECDH_ES_A192KW := bytes_of_string jose_ECDH_ES_A192KW_str.
Definition name_ECDH_ES_A256KW := bytes_of_string jose_ECDH_ES_A256KW_str.

(* (AlgorithmID, PartyUInfo, PartyVInfo, key size in bytes): direct agreement derives the
   content key, named by enc and of the content cipher's size; with key wrapping the KDF derives
   the key-encryption key, named by alg and of 16/24/32 bytes.  apu -> PartyUInfo, apv -> PartyVInfo. *)
Definition ecdh_derive_input (h : ecdh_hdr) (enc_keysize : N) : res (bytes * bytes * bytes * N) :=
  if bytes_eqb (eh_alg h) name_ECDH_ES then Ok (eh_enc h, eh_apu h, eh_apv h, enc_keysize)
  else if bytes_eqb (eh_alg h) name_ECDH_ES_A128KW then Ok (eh_alg h, eh_apu h, eh_apv h, 16)
  else if bytes_eqb (eh_alg h) name_ECDH_ES_A192KW then Ok (eh_alg h, eh_apu h, eh_apv h, 24)
  else if bytes_eqb (eh_alg h) name_ECDH_ES_A256KW then Ok (eh_alg h, eh_apu h, eh_apv h, 32)
  else Err e_alg.

(* the OtherInfo the KDF hashes for a given header *)
Definition ecdh_otherinfo (h : ecdh_hdr) (enc_keysize : N) : res bytes :=
  let* p := ecdh_derive_input h enc_keysize in
  let '(id, u, v, n) := p in Ok (kdf_info id u v n).

(* ------------------------------------------------------------------ thumbprint templates *)
Definition str (l : list N) : bytes := l.
(* open-brace, quote e quote colon quote *)
Definition t_rsa_1 : bytes := [123; 34; 101; 34; 58; 34].
(* quote comma kty:RSA comma n: (with the JSON quotes) *)
Definition t_rsa_2 : bytes := [34; 44; 34; 107; 116; 121; 34; 58; 34; 82; 83; 65; 34; 44; 34; 110; 34; 58; 34].
(* quote close-brace *)
Definition t_end : bytes := [34; 125].
(* open-brace crv: *)
Definition t_ec_1 : bytes := [123; 34; 99; 114; 118; 34; 58; 34].
(* quote comma kty:EC comma x: *)
Definition t_ec_2 : bytes := [34; 44; 34; 107; 116; 121; 34; 58; 34; 69; 67; 34; 44; 34; 120; 34; 58; 34].
(* quote comma y: *)
Definition t_ec_3 : bytes := [34; 44; 34; 121; 34; 58; 34].

Definition rsa_thumb_input (e n : N) : bytes :=
  t_rsa_1 ++ b64url_encode (buffer_from_int e) ++ t_rsa_2 ++ b64url_encode (be_bytes n) ++ t_end.

Definition ec_thumb_input (crv : bytes) (x y size : N) : res bytes :=
  let* xb := fixed_size (be_bytes x) size in
  let* yb := fixed_size (be_bytes y) size in
  Ok (t_ec_1 ++ crv ++ t_ec_2 ++ b64url_encode xb ++ t_ec_3 ++ b64url_encode yb ++ t_end).

(* acme getKeyAuthorization: token '.' unpadded-b64url(thumbprint) *)
Definition key_authorization (token thumb : bytes) : bytes := token ++ ch_dot :: b64url_encode thumb.

(* ------------------------------------------------------------------ Verify / Decrypt around the primitives *)
Definition e_crypto : N := 9.   (* ErrCryptoFailure *)

(* JsonWebSignature.Verify for one signature: [verify input sig] is the primitive under the
   verification key; the input is recomputed from the protected bytes as received *)
Definition jws_verify (verify : bytes -> bytes -> bool) (o : jws_fields) : res bytes :=
  if verify (signing_input (js_prot o) (js_payload o)) (js_sig o) then Ok (js_payload o) else Err e_crypto.

(* JsonWebEncryption.Decrypt for one recipient, no compression: [unwrapk] is the key-management
   primitive under the recipient key (RSA, AES key wrap, GCM key wrap, ECDH + KDF [+ unwrap]),
   [open cek] the content AEAD.  Any primitive error becomes ErrCryptoFailure. *)
Definition jwe_decrypt (unwrapk : bytes -> res bytes) (open : bytes -> bytes -> bytes -> bytes -> res bytes)
           (nonce_size : N) (o : jwe_fields) (aad : option bytes) : res bytes :=
  match unwrapk (je_key o) with
  | Ok cek =>
      match aead_decrypt nonce_size (open cek) (je_iv o) (je_ct o) (je_tag o) (aad_input (je_prot o) aad) with
      | Ok p => Ok p
      | Err _ => Err e_crypto
      | Panic s => Panic s
      end
  | Err _ => Err e_crypto
  | Panic s => Panic s
  end.

(* key management of dir (symmetricKeyCipher.decryptKey, DIRECT) and of ECDH-ES direct key
   agreement: the content key does not travel, and the encrypted key member must be empty *)
Definition unwrap_direct (cek ek : bytes) : res bytes := if is_nil ek then Ok cek else Err e_crypto.

(* ------------------------------------------------------------------ JSON serializations *)
(* encoding/json is not modelled.  A JSON text is abstracted to the object the raw structs see:
   members as an association list.  Values are strings, (unprotected) header objects, or arrays
   of inner objects (the entries of "signatures" / "recipients").  The two directions of
   encoding/json are parameters (Section variables with a round-trip hypothesis) in the proofs. *)

(* rawHeader: field name -> value; an absent field is the Go zero value (empty) *)
Definition header := list (bytes * bytes).
Fixpoint hget (h : header) (k : bytes) : bytes :=
  match h with [] => [] | (k', v) :: t => if bytes_eqb k' k then v else hget t k end.

Definition n_alg : bytes := [97; 108; 103].
Definition n_enc : bytes := [101; 110; 99].
Definition n_zip : bytes := [122; 105; 112].
Definition n_crit : bytes := [99; 114; 105; 116].
Definition n_apu : bytes := [97; 112; 117].
Definition n_apv : bytes := [97; 112; 118].
Definition n_epk : bytes := [101; 112; 107].
Definition n_iv : bytes := [105; 118].
Definition n_tag : bytes := [116; 97; 103].
Definition n_kid : bytes := [107; 105; 100].
Definition n_jwk : bytes := [106; 119; 107].
Definition n_nonce : bytes := [110; 111; 110; 99; 101].
Definition hdr_fields : list bytes :=
  [n_alg; n_enc; n_zip; n_crit; n_apu; n_apv; n_epk; n_iv; n_tag; n_kid; n_jwk; n_nonce].

(* (dst *rawHeader).merge(src): every field keeps dst's value unless that is the zero value *)
Definition merge (dst src : header) : header :=
  map (fun k => (k, let d := hget dst k in if is_nil d then hget src k else d)) hdr_fields.
Definition merge_opt (dst : header) (src : option header) : header :=
  match src with None => dst | Some h => merge dst h end.
(* mergedHeaders: out := rawHeader{}; out.merge(protected); out.merge(unprotected); [out.merge(recipient)] *)
Definition merged (hs : list (option header)) : header := fold_left merge_opt hs [].

Inductive jleaf := LStr (s : bytes) | LHdr (h : header).
Definition jobj1 := list (bytes * jleaf).
Inductive jmem := MStr (s : bytes) | MHdr (h : header) | MArr (items : list jobj1).
Definition jobj := list (bytes * jmem).

Fixpoint jfind {A} (o : list (bytes * A)) (k : bytes) : option A :=
  match o with [] => None | (k', v) :: t => if bytes_eqb k' k then Some v else jfind t k end.
Definition jstr (o : jobj) k : option bytes := match jfind o k with Some (MStr s) => Some s | _ => None end.
Definition jhdr (o : jobj) k : option header := match jfind o k with Some (MHdr h) => Some h | _ => None end.
Definition jarr (o : jobj) k : list jobj1 := match jfind o k with Some (MArr l) => l | _ => [] end.
Definition jstr1 (o : jobj1) k : option bytes := match jfind o k with Some (LStr s) => Some s | _ => None end.
Definition jhdr1 (o : jobj1) k : option header := match jfind o k with Some (LHdr h) => Some h | _ => None end.

Definition n_payload : bytes := [112; 97; 121; 108; 111; 97; 100].
Definition n_protected : bytes := [112; 114; 111; 116; 101; 99; 116; 101; 100].
Definition n_unprotected : bytes := [117; 110; 112; 114; 111; 116; 101; 99; 116; 101; 100].
Definition n_header : bytes := [104; 101; 97; 100; 101; 114].
Definition n_signature : bytes := [115; 105; 103; 110; 97; 116; 117; 114; 101].
Definition n_signatures : bytes := [115; 105; 103; 110; 97; 116; 117; 114; 101; 115].
Definition n_recipients : bytes := [114; 101; 99; 105; 112; 105; 101; 110; 116; 115].
Definition n_encrypted_key : bytes := [101; 110; 99; 114; 121; 112; 116; 101; 100; 95; 107; 101; 121].
Definition n_ciphertext : bytes := [99; 105; 112; 104; 101; 114; 116; 101; 120; 116].
Definition n_aad : bytes := [97; 97; 100].

Definition e_missing : N := 7.
Definition e_nonce : N := 6.

(* byteBuffer.UnmarshalJSON + bytes(): an absent member and the empty string both give no bytes *)
Definition decode_member (m : option bytes) : res bytes :=
  match m with
  | None => Ok []
  | Some s => if is_nil s then Ok [] else b64url_decode_r s
  end.

Definition has_nonce (h : option header) : bool :=
  match h with Some x => negb (is_nil (hget x n_nonce)) | None => false end.

Definition opt_member {A} (k : bytes) (present : bool) (v : A) : list (bytes * A) :=
  if present then [(k, v)] else [].

(* ---- JWS ---- *)
(* one signature of an object in memory: serialized protected header (empty = none) with its
   struct value, optional unprotected header, signature *)
Record jsig := { se_prot : bytes; se_ph : header; se_hdr : option header; se_sig : bytes }.
Record jws_obj := { jo_payload : bytes; jo_sigs : list jsig }.

Definition sig_members (s : jsig) : jobj1 :=
  opt_member n_protected (negb (is_nil (se_prot s))) (LStr (b64url_encode (se_prot s))) ++
  match se_hdr s with None => [] | Some h => [(n_header, LHdr h)] end ++
  [(n_signature, LStr (b64url_encode (se_sig s)))].

Definition lift_leaf (m : bytes * jleaf) : bytes * jmem :=
  match m with (k, LStr s) => (k, MStr s) | (k, LHdr h) => (k, MHdr h) end.

(* JsonWebSignature.FullSerialize: one signature -> flattened, otherwise general *)
Definition jws_full (o : jws_obj) : jobj :=
  (n_payload, MStr (b64url_encode (jo_payload o))) ::
  match jo_sigs o with
  | [s] => map lift_leaf (sig_members s)
  | sigs => [(n_signatures, MArr (map sig_members sigs))]
  end.

(* a signature after parsing: protected bytes as received, their parsed value, unprotected header *)
Record psig := { ps_prot : bytes; ps_phdr : option header; ps_hdr : option header; ps_sig : bytes }.

Definition parse_sig (hdr_dec : bytes -> option header)
           (prot : option bytes) (hdr : option header) (sig : option bytes) : res psig :=
  let* pb := decode_member prot in
  let* ph := (if is_nil pb then Ok None
              else match hdr_dec pb with Some h => Ok (Some h) | None => Err e_json end) in
  if has_nonce hdr then Err e_nonce else
  let* sb := decode_member sig in
  Ok {| ps_prot := pb; ps_phdr := ph; ps_hdr := hdr; ps_sig := sb |}.

Fixpoint map_res {A B} (f : A -> res B) (l : list A) : res (list B) :=
  match l with
  | [] => Ok []
  | x :: t => let* y := f x in let* r := map_res f t in Ok (y :: r)
  end.

(* rawJsonWebSignature.sanitized, on the object encoding/json produced *)
Definition parse_jws_full (hdr_dec : bytes -> option header) (o : jobj) : res (bytes * list psig) :=
  match jstr o n_payload with
  | None => Err e_missing
  | Some p =>
      let* payload := decode_member (Some p) in
      (* every *byteBuffer member is base64url-decoded by json.Unmarshal, used or not *)
      let* _ := decode_member (jstr o n_protected) in
      let* _ := decode_member (jstr o n_signature) in
      match jarr o n_signatures with
      | [] => let* s := parse_sig hdr_dec (jstr o n_protected) (jhdr o n_header) (jstr o n_signature) in
              Ok (payload, [s])
      | items =>
          let* ss := map_res (fun it => parse_sig hdr_dec (jstr1 it n_protected) (jhdr1 it n_header)
                                                  (jstr1 it n_signature)) items in
          Ok (payload, ss)
      end
  end.

(* ParseSigned: white space stripped from the whole text, '{' selects the JSON path *)
Definition parse_signed_json (json_dec : bytes -> option jobj) (hdr_dec : bytes -> option header)
           (input : bytes) : res (bytes * list psig) :=
  let s := strip_ws input in
  if starts_with_brace s then
    match json_dec s with Some o => parse_jws_full hdr_dec o | None => Err e_json end
  else Err e_notcompact.

Definition psig_merged (s : psig) : header := merged [ps_phdr s; ps_hdr s].

(* Verify: signatures with a crit header are skipped; the first one that verifies wins; the
   algorithm is the merged header's (protected first) *)
Fixpoint jws_verify_multi (verify : bytes -> bytes -> bytes -> bool) (payload : bytes) (sigs : list psig)
  : res bytes :=
  match sigs with
  | [] => Err e_crypto
  | s :: t =>
      if negb (is_nil (hget (psig_merged s) n_crit)) then jws_verify_multi verify payload t
      else if verify (hget (psig_merged s) n_alg) (signing_input (ps_prot s) payload) (ps_sig s)
           then Ok payload
           else jws_verify_multi verify payload t
  end.

(* ---- JWE ---- *)
Record jrecip := { rc_hdr : option header; rc_key : bytes }.
Record jwe_obj := { eo_prot : bytes; eo_ph : header; eo_unprot : option header; eo_recips : list jrecip;
                    eo_aad : bytes; eo_iv : bytes; eo_ct : bytes; eo_tag : bytes }.

Definition recip_members (r : jrecip) : jobj1 :=
  match rc_hdr r with None => [] | Some h => [(n_header, LHdr h)] end ++
  opt_member n_encrypted_key (negb (is_nil (rc_key r))) (LStr (b64url_encode (rc_key r))).

(* JsonWebEncryption.FullSerialize.  As in the code, the encrypted key of recipient 0 is also
   written at the top level in the general serialization (the parser ignores it there). *)
Definition jwe_full (o : jwe_obj) : jobj :=
  opt_member n_protected (negb (is_nil (eo_prot o))) (MStr (b64url_encode (eo_prot o))) ++
  match eo_unprot o with None => [] | Some h => [(n_unprotected, MHdr h)] end ++
  [(n_iv, MStr (b64url_encode (eo_iv o))); (n_ciphertext, MStr (b64url_encode (eo_ct o)));
   (n_tag, MStr (b64url_encode (eo_tag o)))] ++
  opt_member n_aad (negb (is_nil (eo_aad o))) (MStr (b64url_encode (eo_aad o))) ++
  match eo_recips o with
  | [r] => map lift_leaf (recip_members r)
  | rs => opt_member n_encrypted_key (negb (is_nil (match rs with r :: _ => rc_key r | [] => [] end)))
                     (MStr (b64url_encode (match rs with r :: _ => rc_key r | [] => [] end))) ++
          [(n_recipients, MArr (map recip_members rs))]
  end.

Record pjwe := { pe_prot : bytes; pe_phdr : option header; pe_unprot : option header;
                 pe_recips : list jrecip; pe_aad : bytes; pe_iv : bytes; pe_ct : bytes; pe_tag : bytes }.

Definition parse_recip (it : jobj1) : res jrecip :=
  let* k := decode_member (jstr1 it n_encrypted_key) in
  if has_nonce (jhdr1 it n_header) then Err e_nonce
  else Ok {| rc_hdr := jhdr1 it n_header; rc_key := k |}.

Definition recip_ok (ph unprot : option header) (r : jrecip) : bool :=
  let m := merged [ph; unprot; rc_hdr r] in negb (is_nil (hget m n_alg)) && negb (is_nil (hget m n_enc)).

(* rawJsonWebEncryption.sanitized *)
Definition parse_jwe_full (hdr_dec : bytes -> option header) (o : jobj) : res pjwe :=
  (* every *byteBuffer member is base64url-decoded by json.Unmarshal, used or not *)
  let* _ := decode_member (jstr o n_encrypted_key) in
  if has_nonce (jhdr o n_unprotected) || has_nonce (jhdr o n_header) then Err e_nonce else
  let* pb := decode_member (jstr o n_protected) in
  let* ph := (if is_nil pb then Ok None
              else match hdr_dec pb with Some h => Ok (Some h) | None => Err e_json end) in
  let* rs := match jarr o n_recipients with
             | [] => let* k := decode_member (jstr o n_encrypted_key) in
                     Ok [{| rc_hdr := jhdr o n_header; rc_key := k |}]
             | items => map_res parse_recip items
             end in
  if negb (forallb (recip_ok ph (jhdr o n_unprotected)) rs) then Err e_hdr else
  let* iv := decode_member (jstr o n_iv) in
  let* ct := decode_member (jstr o n_ciphertext) in
  let* tag := decode_member (jstr o n_tag) in
  let* aad := decode_member (jstr o n_aad) in
  Ok {| pe_prot := pb; pe_phdr := ph; pe_unprot := jhdr o n_unprotected; pe_recips := rs;
        pe_aad := aad; pe_iv := iv; pe_ct := ct; pe_tag := tag |}.

Definition parse_encrypted_json (json_dec : bytes -> option jobj) (hdr_dec : bytes -> option header)
           (input : bytes) : res pjwe :=
  let s := strip_ws input in
  if starts_with_brace s then
    match json_dec s with Some o => parse_jwe_full hdr_dec o | None => Err e_json end
  else Err e_notcompact.

(* the AAD the decrypter computes from a parsed object *)
Definition pjwe_aad (p : pjwe) : bytes :=
  aad_input (pe_prot p) (if is_nil (pe_aad p) then None else Some (pe_aad p)).

(* Decrypt: recipients are tried in order, the first whose key unwraps and whose content opens wins;
   [unwrapk alg ek] is key management under the caller's key for the merged header's algorithm *)
Fixpoint jwe_decrypt_multi (unwrapk : bytes -> bytes -> res bytes)
           (open : bytes -> bytes -> bytes -> bytes -> res bytes) (ns : N) (p : pjwe) (rs : list jrecip)
  : res bytes :=
  match rs with
  | [] => Err e_crypto
  | r :: t =>
      let alg := hget (merged [pe_phdr p; pe_unprot p; rc_hdr r]) n_alg in
      match unwrapk alg (rc_key r) with
      | Ok cek =>
          match aead_decrypt ns (open cek) (pe_iv p) (pe_ct p) (pe_tag p) (pjwe_aad p) with
          | Ok pt => Ok pt
          | Err _ => jwe_decrypt_multi unwrapk open ns p t
          | Panic s => Panic s
          end
      | Err _ => jwe_decrypt_multi unwrapk open ns p t
      | Panic s => Panic s
      end
  end.

(* ---- ACME (https/acme/jws.go, crypto.go) ---- *)
(* signContent: NewSigner(alg by key type) with the account key, nonce source = the client; Sign puts
   alg, the embedded jwk and the nonce into the PROTECTED header; post() sends FullSerialize.
   [hdr_enc]: encoding/json of the header struct. *)
Definition acme_header (alg jwk nonce : bytes) : header := [(n_alg, alg); (n_jwk, jwk); (n_nonce, nonce)].
Definition acme_request (hdr_enc : header -> bytes) (sign : bytes -> bytes) (alg jwk nonce content : bytes) : jws_obj :=
  let h := acme_header alg jwk nonce in
  let pb := hdr_enc h in
  {| jo_payload := content;
     jo_sigs := [{| se_prot := pb; se_ph := h; se_hdr := None; se_sig := sign (signing_input pb content) |}] |}.

(* ------------------------------------------------------------------ harness interface *)
(* association list replay of a logged block function / hash *)
Fixpoint assoc_bytes (log : list (bytes * bytes)) (x : bytes) : bytes :=
  match log with
  | [] => []
  | (i, o) :: t => if bytes_eqb i x then o else assoc_bytes t x
  end.

Fixpoint log_of_sx (l : list sx) : list (bytes * bytes) :=
  match l with
  | SL [SB i; SB o] :: t => (i, o) :: log_of_sx t
  | _ => []
  end.

Definition obs_res (r : res (list sx)) : sx :=
  match r with
  | Ok fields => s_ok fields
  | Err e => s_err e
  | Panic _ => s_panic
  end.

Definition z2n (z : Z) : N := Z.to_N z.

Definition obs_jws (r : res jws_fields) : sx :=
  obs_res (let* o := r in
           Ok [SB (js_prot o); SB (js_payload o); SB (js_sig o); SB (signing_input (js_prot o) (js_payload o))]).

Definition obs_jwe (r : res jwe_fields) (aad : option bytes) : sx :=
  obs_res (let* o := r in
           Ok [SB (je_prot o); SB (je_key o); SB (je_iv o); SB (je_ct o); SB (je_tag o);
               SB (aad_input (je_prot o) aad)]).

(* fields of a JSON serialization, extracted from the JSON text by the harness (encoding/json is
   not modelled): each member is base64url text *)
Definition jws_of_b64 (p pl s : bytes) : res jws_fields :=
  let* prot := b64url_decode_r p in
  let* payload := b64url_decode_r pl in
  let* sig := b64url_decode_r s in
  Ok {| js_prot := prot; js_payload := payload; js_sig := sig |}.

Definition jwe_of_b64 (p k i c t : bytes) : res jwe_fields :=
  let* prot := b64url_decode_r p in
  let* key := b64url_decode_r k in
  let* iv := b64url_decode_r i in
  let* ct := b64url_decode_r c in
  let* tag := b64url_decode_r t in
  Ok {| je_prot := prot; je_key := key; je_iv := iv; je_ct := ct; je_tag := tag |}.

(* Cases (first element = kind; trailing elements beyond those listed are ignored: the harness
   appends generation parameters for replay):
   (1 data)                       base64URLEncode                 -> (0 text)
   (2 text)                       base64URLDecode                 -> (0 data) | (1 2)
   (3 text json_ok)               ParseSigned, compact            -> (0 prot payload sig signing_input) | (1 c)
   (4 text hdr)                   ParseEncrypted, compact         -> (0 prot key iv ct tag aad_input) | (1 c)
   (5 p64 pl64 s64)               JWS fields of a JSON object     -> as 3
   (6 p64 k64 i64 c64 t64 aad)    JWE fields of a JSON object; aad = () absent | (a64) -> as 4
   (7 buf bs)                     padBuffer                       -> (0 out)
   (8 buf bs)                     unpadBuffer                     -> (0 out) | (1 1) | (2)
   (9 cek ((in out)...))          KeyWrap, AES calls logged       -> (0 out) | (1 c)
   (10 ct ((in out)...))          KeyUnwrap                       -> (0 cek) | (1 c) | (2)
   (11 aad iv ct mac tagbytes)    computeAuthTag                  -> (0 mac_input tag)
   (12 z alg apu apv size hashlen ((in out)...))   DeriveECDHES' KDF -> (0 (inputs...) key)
   (13 data length)               newFixedSizeBuffer              -> (0 out) | (2)
   (14 r s keybytes)              ECDSA r||s                      -> (0 sig) | (2)
   (15 sig keysize)               ECDSA length check / split      -> (0) | (1 1)
   (16 e n)                       rsaThumbprintInput              -> (0 text)
   (17 crv x y size)              ecThumbprintInput               -> (0 text) | (2)
   (18 token thumb)               acme key authorization          -> (0 text)
   (19 iv noncesize)              aeadContentCipher.decrypt guard -> (0) reaches Open | (1 1)
   (21 keykind algname)           NewSigner+Sign glue: keykind 0 []byte, 1 RSA, else EC curve bits
                                                                  -> (0 siglen) | (1 1) | (1 2)
   (22 keykind algname siglen)    Verify glue                     -> (0) | (1 1) | (1 2)
   (23 object hdrtable)           ParseSigned, JSON (abstract object, see obj_of_sx)
                                  -> (0 payload ((prot sig alg nonce signing_input) ...)) | (1)
   (24 object hdrtable)           ParseEncrypted, JSON
                                  -> (0 prot ((key alg enc) ...) iv ct tag aad_input) | (1)
   (30 (object ...) (op ...))     history on persistent objects, see hist_obs -> (0 result ...)
   (31 len sha256 ...)            large payload (or large aad) round trip: the object verifies / decrypts to
                                  exactly the payload, reported as its length and SHA-256 (compression and
                                  the primitives are oracles; the payload itself stays out of the observation)
                                  -> (0 len sha256)
   (32 alg enc apu apv enckeysize) ecDecrypterSigner.decryptKey: the OtherInfo its KDF hashes -> (0 otherinfo) | (1 1) *)
(* abstract JSON objects in s-expression form (built by the harness with an independent
   encoding/json parse of the text): object = ((name value) ...), value = xSTRING | (1 header) |
   (2 (item ...)), header = ((name value) ...), item = ((name leaf) ...), leaf = xSTRING | (1 header);
   header-decoding oracle table = ((protected_bytes header) ...) | ((protected_bytes)) for a JSON error *)
Fixpoint hdr_of_sx (l : list sx) : header :=
  match l with SL [SB k; SB v] :: t => (k, v) :: hdr_of_sx t | _ => [] end.
Definition leaf_of_sx (v : sx) : option jleaf :=
  match v with
  | SB s => Some (LStr s)
  | SL [SZ 1; SL h] => Some (LHdr (hdr_of_sx h))
  | _ => None
  end.
Fixpoint obj1_of_sx (l : list sx) : jobj1 :=
  match l with
  | SL [SB k; v] :: t => match leaf_of_sx v with Some x => (k, x) :: obj1_of_sx t | None => obj1_of_sx t end
  | _ => []
  end.
Fixpoint items_of_sx (l : list sx) : list jobj1 :=
  match l with SL it :: t => obj1_of_sx it :: items_of_sx t | _ => [] end.
Definition mem_of_sx (v : sx) : option jmem :=
  match v with
  | SB s => Some (MStr s)
  | SL [SZ 1; SL h] => Some (MHdr (hdr_of_sx h))
  | SL [SZ 2; SL items] => Some (MArr (items_of_sx items))
  | _ => None
  end.
Fixpoint obj_of_sx (l : list sx) : jobj :=
  match l with
  | SL [SB k; v] :: t => match mem_of_sx v with Some x => (k, x) :: obj_of_sx t | None => obj_of_sx t end
  | _ => []
  end.
Fixpoint hdrtab_of_sx (l : list sx) : list (bytes * option header) :=
  match l with
  | SL [SB p; SL h] :: t => (p, Some (hdr_of_sx h)) :: hdrtab_of_sx t
  | SL [SB p] :: t => (p, None) :: hdrtab_of_sx t
  | _ => []
  end.
Fixpoint hdr_dec_tab (tab : list (bytes * option header)) (p : bytes) : option header :=
  match tab with [] => None | (k, v) :: t => if bytes_eqb k p then v else hdr_dec_tab t p end.

Definition obs_jws_json (r : res (bytes * list psig)) : sx :=
  match r with
  | Ok (payload, sigs) =>
      s_ok [SB payload;
            SL (map (fun s => SL [SB (ps_prot s); SB (ps_sig s); SB (hget (psig_merged s) n_alg);
                                  SB (hget (psig_merged s) n_nonce); SB (signing_input (ps_prot s) payload)]) sigs)]
  | Err _ => SL [SZ 1]
  | Panic _ => s_panic
  end.

Definition obs_jwe_json (r : res pjwe) : sx :=
  match r with
  | Ok p =>
      s_ok [SB (pe_prot p);
            SL (map (fun rc => let m := merged [pe_phdr p; pe_unprot p; rc_hdr rc] in
                               SL [SB (rc_key rc); SB (hget m n_alg); SB (hget m n_enc)]) (pe_recips p));
            SB (pe_iv p); SB (pe_ct p); SB (pe_tag p); SB (pjwe_aad p)]
  | Err _ => SL [SZ 1]
  | Panic _ => s_panic
  end.

(* ---- histories on objects ----
   In the model a signed / encrypted object is a persistent value: Verify, Decrypt and the
   serializers are functions of it and cannot change it, and the caller's slices (the payload /
   aad passed in, a plaintext returned) are different values.  A history is a list of operations
   on a few objects; the observation is the list of their results.  Running the same history on
   the implementation exposes any aliasing between the object, the caller's slices and the
   buffers of the primitives.
   objects:  (0 prot payload sig)                      a signed object (one signature)
             (1 prot key iv ct tag aad plaintext)      an encrypted object (one recipient; aad x = none)
   ops (code objindex):
     1 CompactSerialize                 -> (1 text)
     2 FullSerialize                    -> (2 member64 ...)   protected payload signature | protected encrypted_key iv ciphertext tag aad
     3 Verify/Decrypt, right key        -> (3 0 payload)
     4 Verify/Decrypt, wrong key        -> (4 1)
     5 CompactSerialize, parse, right key -> (5 0 payload) | (5 1) when the object has aad (compact has no aad member)
     6 FullSerialize, parse, right key  -> (6 0 payload)
     7 caller overwrites the payload slice it passed in      -> (7)
     8 caller overwrites the aad slice it passed in          -> (8)
     9 caller overwrites the plaintext last returned to it   -> (9)
     10 parse once, right key twice     -> (10 0 payload 0 payload)
     11 parse once, wrong key then right key -> (11 1 0 payload)
   With idealised primitives the right key returns the payload and a wrong key an error. *)
Inductive hobj :=
| HJws (o : jws_fields)
| HJwe (o : jwe_fields) (aad : bytes) (pt : bytes).

Definition hobj_of_sx (v : sx) : option hobj :=
  match v with
  | SL [SZ 0; SB p; SB l; SB s] => Some (HJws {| js_prot := p; js_payload := l; js_sig := s |})
  | SL [SZ 1; SB p; SB k; SB i; SB c; SB t; SB a; SB pt] =>
      Some (HJwe {| je_prot := p; je_key := k; je_iv := i; je_ct := c; je_tag := t |} a pt)
  | _ => None
  end.
Fixpoint hobjs_of_sx (l : list sx) : list hobj :=
  match l with
  | v :: t => match hobj_of_sx v with Some o => o :: hobjs_of_sx t | None => hobjs_of_sx t end
  | [] => []
  end.

Definition hobj_payload (o : hobj) : bytes := match o with HJws j => js_payload j | HJwe _ _ pt => pt end.
Definition hobj_has_aad (o : hobj) : bool := match o with HJws _ => false | HJwe _ a _ => negb (is_nil a) end.
Definition hobj_compact (o : hobj) : bytes := match o with HJws j => jws_compact j | HJwe e _ _ => jwe_compact e end.
Definition hobj_members (o : hobj) : list sx :=
  match o with
  | HJws j => [SB (b64url_encode (js_prot j)); SB (b64url_encode (js_payload j)); SB (b64url_encode (js_sig j))]
  | HJwe e a _ => [SB (b64url_encode (je_prot e)); SB (b64url_encode (je_key e)); SB (b64url_encode (je_iv e));
                   SB (b64url_encode (je_ct e)); SB (b64url_encode (je_tag e)); SB (b64url_encode a)]
  end.

Definition hist_obs (o : hobj) (code : Z) : sx :=
  let ok := [SZ 0; SB (hobj_payload o)] in
  if Z.eqb code 1 then SL [SZ 1; SB (hobj_compact o)]
  else if Z.eqb code 2 then SL (SZ 2 :: hobj_members o)
  else if Z.eqb code 3 then SL (SZ 3 :: ok)
  else if Z.eqb code 4 then SL [SZ 4; SZ 1]
  else if Z.eqb code 5 then (if hobj_has_aad o then SL [SZ 5; SZ 1] else SL (SZ 5 :: ok))
  else if Z.eqb code 6 then SL (SZ 6 :: ok)
  else if Z.eqb code 10 then SL (SZ 10 :: ok ++ ok)
  else if Z.eqb code 11 then SL (SZ 11 :: SZ 1 :: ok)
  else SL [SZ code].

(* one operation: the objects are returned unchanged, whatever the operation *)
Definition hist_step (objs : list hobj) (op : sx) : list hobj * sx :=
  match op with
  | SL [SZ code; SZ idx] =>
      match nth_error objs (Z.to_nat idx) with
      | Some o => (objs, hist_obs o code)
      | None => (objs, bad_case)
      end
  | _ => (objs, bad_case)
  end.

Fixpoint hist_run (objs : list hobj) (ops : list sx) : list sx :=
  match ops with
  | [] => []
  | op :: rest => let '(objs', r) := hist_step objs op in r :: hist_run objs' rest
  end.

Definition keykind_of_z (z : Z) : keykind :=
  if Z.eqb z 0 then KSym else if Z.eqb z 1 then KRsa else KEc (z2n z).

Definition run_c16 (c : sx) : sx :=
  match c with
  | SL (SZ 1 :: SB d :: _) => s_ok [SB (b64url_encode d)]
  | SL (SZ 2 :: SB t :: _) => obs_res (let* b := b64url_decode_r t in Ok [SB b])
  | SL (SZ 3 :: SB t :: SZ j :: _) => obs_jws (parse_jws_compact t (negb (Z.eqb j 0)))
  | SL (SZ 4 :: SB t :: SZ h :: _) => obs_jwe (parse_jwe_compact t (z2n h)) None
  | SL (SZ 5 :: SB p :: SB pl :: SB s :: _) => obs_jws (jws_of_b64 p pl s)
  | SL (SZ 6 :: SB p :: SB k :: SB i :: SB ct :: SB t :: SL aad :: _) =>
      match aad with
      | [] => obs_jwe (jwe_of_b64 p k i ct t) None
      | [SB a64] =>
          match b64url_decode_r a64 with
          | Ok a => obs_jwe (jwe_of_b64 p k i ct t) (if is_nil a then None else Some a)
          | Err e => s_err e
          | Panic _ => s_panic
          end
      | _ => bad_case
      end
  | SL (SZ 7 :: SB b :: SZ bs :: _) => s_ok [SB (pad_buffer b (z2n bs))]
  | SL (SZ 8 :: SB b :: SZ bs :: _) => obs_res (let* o := unpad_buffer b (z2n bs) in Ok [SB o])
  | SL (SZ 9 :: SB cek :: SL log :: _) =>
      obs_res (let* o := key_wrap_loop (assoc_bytes (log_of_sx log)) cek in Ok [SB o])
  | SL (SZ 10 :: SB ct :: SL log :: _) =>
      obs_res (let* o := key_unwrap_loop (assoc_bytes (log_of_sx log)) ct in Ok [SB o])
  | SL (SZ 11 :: SB aad :: SB iv :: SB ct :: SB mac :: SZ tb :: _) =>
      obs_res (let* t := tag_of mac (z2n tb) in Ok [SB (mac_input aad iv ct); SB t])
  | SL (SZ 12 :: SB z :: SB alg :: SB apu :: SB apv :: SZ size :: SZ hl :: SL log :: _) =>
      let info := kdf_info alg apu apv (z2n size) in
      s_ok [SL (map SB (kdf_inputs (S (N.to_nat (z2n size))) 1 z info (z2n size) (z2n hl)));
            SB (kdf_read (assoc_bytes (log_of_sx log)) (S (N.to_nat (z2n size))) 1 z info (z2n size))]
  | SL (SZ 13 :: SB d :: SZ l :: _) => obs_res (let* o := fixed_size d (z2n l) in Ok [SB o])
  | SL (SZ 14 :: SZ r :: SZ s :: SZ kb :: _) => obs_res (let* o := ecdsa_sig (z2n r) (z2n s) (z2n kb) in Ok [SB o])
  | SL (SZ 15 :: SB sig :: SZ ks :: _) =>
      obs_res (let* _ := ecdsa_split sig (z2n ks) in Ok [])
  | SL (SZ 16 :: SZ e :: SZ n :: _) => s_ok [SB (rsa_thumb_input (z2n e) (z2n n))]
  | SL (SZ 17 :: SB crv :: SZ x :: SZ y :: SZ size :: _) =>
      obs_res (let* o := ec_thumb_input crv (z2n x) (z2n y) (z2n size) in Ok [SB o])
  | SL (SZ 18 :: SB token :: SB thumb :: _) => s_ok [SB (key_authorization token thumb)]
  | SL (SZ 21 :: SZ kk :: SB name :: _) =>
      obs_res (let* n := sign_decide (keykind_of_z kk) name in Ok [sN n])
  | SL (SZ 22 :: SZ kk :: SB name :: SZ sl :: _) =>
      obs_res (let* _ := verify_decide (keykind_of_z kk) name (z2n sl) in Ok [])
  | SL (SZ 23 :: SL o :: SL tab :: _) =>
      obs_jws_json (parse_jws_full (hdr_dec_tab (hdrtab_of_sx tab)) (obj_of_sx o))
  | SL (SZ 24 :: SL o :: SL tab :: _) =>
      obs_jwe_json (parse_jwe_full (hdr_dec_tab (hdrtab_of_sx tab)) (obj_of_sx o))
  | SL (SZ 32 :: SB alg :: SB enc :: SB apu :: SB apv :: SZ ks :: _) =>
      obs_res (let* oi := ecdh_otherinfo {| eh_alg := alg; eh_enc := enc; eh_apu := apu; eh_apv := apv |} (z2n ks) in
               Ok [SB oi])
  | SL (SZ 31 :: SZ len :: SB digest :: _) => s_ok [SZ len; SB digest]
  | SL (SZ 30 :: SL objs :: SL ops :: _) => SL (SZ 0 :: hist_run (hobjs_of_sx objs) ops)
  | SL (SZ 19 :: SB iv :: SZ ns :: _) =>
      obs_res (let* _ := aead_decrypt (z2n ns) (fun _ _ _ => Ok []) iv [] [] [] in Ok [])
  | _ => bad_case
  end.
